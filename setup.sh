#!/bin/bash
# Builds the framework from files on disk only (offline) and parses every specification.
set -e
cd /verif/harness
CARGO_NET_OFFLINE=true cargo build --release --offline
cd /verif/spec
for f in Kv KvDispatch KvTrace MC_Kv; do
  tla-sany $f.tla > /dev/null
done
echo setup ok
