#!/bin/bash
# Builds the framework from files on disk only (offline) and parses every specification.
set -e
cd /verif/harness
CARGO_NET_OFFLINE=true cargo build --release --offline
cd /verif/spec
for f in *.tla; do
  tla-sany "$f" > /dev/null || { echo "SANY rejects $f"; exit 1; }
done
echo setup ok
