//! Storage backends for the harness: an in-memory store that can be shared between successive
//! `Database` instances (reopen), records every call, injects failures, and monitors the
//! `StorageBackend` usage contract.

use std::fmt::{Debug, Formatter};
use std::io;
use std::sync::{Arc, Mutex};

#[derive(Clone, Debug, PartialEq, Eq)]
pub enum Op {
    Write { off: u64, data: Vec<u8> },
    SetLen(u64),
    Sync,
    Close,
}

#[derive(Clone, Copy, Debug, PartialEq, Eq)]
pub enum FaultMode {
    /// every call from index k on fails
    Permanent,
    /// only call k fails
    Once,
}

#[derive(Default)]
pub struct Contract {
    /// calls that began after close() began
    pub after_close: Vec<String>,
    /// read/write beyond the current length
    pub out_of_range: Vec<String>,
    pub close_calls: u64,
    /// write/set_len/sync on a store marked read-only
    pub ro_mutations: Vec<String>,
}

pub struct Inner {
    pub data: Vec<u8>,
    /// mutation log (writes, set_len, sync, close) since `start_recording`
    pub log: Vec<Op>,
    pub recording: bool,
    /// number of backend calls (len, read, write, set_len, sync_data) so far
    pub calls: u64,
    pub fault_at: Option<(u64, FaultMode)>,
    pub faults_injected: u64,
    pub syncs: u64,
    pub closed: bool,
    pub read_only: bool,
    pub contract: Contract,
    /// every call (kind, offset, length / new length), when enabled: for Backend.tla
    pub calllog: Option<Vec<(&'static str, u64, u64)>>,
    /// close() reports an error (it still counts as the one close the contract allows)
    pub fail_close: bool,
    /// sync_data takes this long (a real device needs time: the window in which a commit is half published)
    pub sync_delay_us: u64,
}

pub struct Store {
    pub inner: Mutex<Inner>,
}

impl Store {
    pub fn new() -> Arc<Store> {
        Self::from_bytes(vec![])
    }

    pub fn from_bytes(data: Vec<u8>) -> Arc<Store> {
        Arc::new(Store {
            inner: Mutex::new(Inner {
                data,
                log: vec![],
                recording: false,
                calls: 0,
                fault_at: None,
                faults_injected: 0,
                syncs: 0,
                closed: false,
                read_only: false,
                contract: Contract::default(),
                calllog: None,
                fail_close: false,
                sync_delay_us: 0,
            }),
        })
    }

    pub fn backend(self: &Arc<Store>) -> MemBackend {
        // a new Database instance: the close flag belongs to the backend handed to redb
        let mut g = self.inner.lock().unwrap();
        g.closed = false;
        let (len, ro) = (g.data.len() as u64, u64::from(g.read_only));
        g.note("bopen", len, ro);
        drop(g);
        MemBackend {
            store: self.clone(),
        }
    }

    pub fn bytes(&self) -> Vec<u8> {
        self.inner.lock().unwrap().data.clone()
    }

    pub fn len(&self) -> usize {
        self.inner.lock().unwrap().data.len()
    }

    pub fn prefix(&self, n: usize) -> Vec<u8> {
        let g = self.inner.lock().unwrap();
        g.data[..n.min(g.data.len())].to_vec()
    }

    pub fn start_recording(&self) {
        let mut g = self.inner.lock().unwrap();
        g.recording = true;
        g.log.clear();
    }

    pub fn log_len(&self) -> usize {
        self.inner.lock().unwrap().log.len()
    }

    pub fn take_log(&self) -> Vec<Op> {
        std::mem::take(&mut self.inner.lock().unwrap().log)
    }

    pub fn calls(&self) -> u64 {
        self.inner.lock().unwrap().calls
    }

    pub fn set_fault(&self, at: Option<(u64, FaultMode)>) {
        self.inner.lock().unwrap().fault_at = at;
    }

    /// a failure is configured (whether it has struck yet or not)
    pub fn fault_configured(&self) -> bool {
        let g = self.inner.lock().unwrap();
        g.fault_at.is_some() || g.faults_injected > 0
    }

    pub fn faults_injected(&self) -> u64 {
        self.inner.lock().unwrap().faults_injected
    }

    /// redb has let go of the backend handed out by `backend()` (database and transactions dropped,
    /// or the open failed)
    pub fn mark_done(&self) {
        self.inner.lock().unwrap().note("bdone", 0, 0);
    }

    pub fn set_sync_delay(&self, micros: u64) {
        self.inner.lock().unwrap().sync_delay_us = micros;
    }

    pub fn set_fail_close(&self, on: bool) {
        self.inner.lock().unwrap().fail_close = on;
    }

    pub fn syncs(&self) -> u64 {
        self.inner.lock().unwrap().syncs
    }

    pub fn enable_calllog(&self) {
        self.inner.lock().unwrap().calllog = Some(vec![]);
    }

    pub fn take_calllog(&self) -> Vec<(&'static str, u64, u64)> {
        self.inner.lock().unwrap().calllog.as_mut().map(std::mem::take).unwrap_or_default()
    }
}

pub struct MemBackend {
    store: Arc<Store>,
}

impl Debug for MemBackend {
    fn fmt(&self, f: &mut Formatter<'_>) -> std::fmt::Result {
        f.debug_struct("MemBackend").finish()
    }
}

fn injected() -> io::Error {
    io::Error::other("injected fault")
}

impl Inner {
    // common prologue of every call: contract monitoring and fault injection
    fn note(&mut self, what: &'static str, a: u64, b: u64) {
        if let Some(l) = self.calllog.as_mut() {
            l.push((what, a, b));
        }
    }

    fn enter(&mut self, what: &str) -> Result<(), io::Error> {
        if self.closed {
            self.contract.after_close.push(what.to_string());
        }
        let k = self.calls;
        self.calls += 1;
        if let Some((at, mode)) = self.fault_at {
            let fail = match mode {
                FaultMode::Permanent => k >= at,
                FaultMode::Once => k == at,
            };
            if fail {
                self.faults_injected += 1;
                return Err(injected());
            }
        }
        Ok(())
    }
}

impl redb::StorageBackend for MemBackend {
    fn len(&self) -> Result<u64, io::Error> {
        let mut g = self.store.inner.lock().unwrap();
        g.note("len", 0, 0);
        g.enter("len")?;
        Ok(g.data.len() as u64)
    }

    fn read(&self, offset: u64, out: &mut [u8]) -> Result<(), io::Error> {
        let mut g = self.store.inner.lock().unwrap();
        g.note("read", offset, out.len() as u64);
        g.enter("read")?;
        let end = offset as usize + out.len();
        if end > g.data.len() {
            let msg = format!("read {}..{} len {}", offset, end, g.data.len());
            g.contract.out_of_range.push(msg);
            return Err(io::Error::new(io::ErrorKind::UnexpectedEof, "read past end"));
        }
        out.copy_from_slice(&g.data[offset as usize..end]);
        Ok(())
    }

    fn set_len(&self, len: u64) -> Result<(), io::Error> {
        let mut g = self.store.inner.lock().unwrap();
        g.note("set_len", len, 0);
        g.enter("set_len")?;
        if g.read_only {
            g.contract.ro_mutations.push(format!("set_len {len}"));
        }
        g.data.resize(len as usize, 0);
        if g.recording {
            g.log.push(Op::SetLen(len));
        }
        Ok(())
    }

    fn sync_data(&self) -> Result<(), io::Error> {
        let mut g = self.store.inner.lock().unwrap();
        g.note("sync", 0, 0);
        g.enter("sync_data")?;
        if g.read_only {
            g.contract.ro_mutations.push("sync_data".to_string());
        }
        g.syncs += 1;
        if g.recording {
            g.log.push(Op::Sync);
        }
        let delay = g.sync_delay_us;
        drop(g);
        if delay > 0 {
            std::thread::sleep(std::time::Duration::from_micros(delay));
        }
        Ok(())
    }

    fn write(&self, offset: u64, data: &[u8]) -> Result<(), io::Error> {
        let mut g = self.store.inner.lock().unwrap();
        g.note("write", offset, data.len() as u64);
        g.enter("write")?;
        if g.read_only {
            g.contract.ro_mutations.push(format!("write {offset}"));
        }
        let end = offset as usize + data.len();
        if end > g.data.len() {
            let msg = format!("write {}..{} len {}", offset, end, g.data.len());
            g.contract.out_of_range.push(msg);
            return Err(io::Error::new(io::ErrorKind::UnexpectedEof, "write past end"));
        }
        g.data[offset as usize..end].copy_from_slice(data);
        if g.recording {
            g.log.push(Op::Write {
                off: offset,
                data: data.to_vec(),
            });
        }
        Ok(())
    }

    fn close(&self) -> Result<(), io::Error> {
        let mut g = self.store.inner.lock().unwrap();
        g.note("close", 0, 0);
        if g.closed {
            g.contract.after_close.push("close".to_string());
        }
        g.closed = true;
        g.contract.close_calls += 1;
        if g.recording {
            g.log.push(Op::Close);
        }
        if g.fail_close {
            return Err(io::Error::other("injected close failure"));
        }
        Ok(())
    }
}
