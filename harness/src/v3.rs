//! The redb 3.0.0 side of the cross-release checks (C19): an observer (what does 3.0.0 see in a
//! given file) and a small step executor (histories written by 3.0.0), both speaking the same
//! steps / events / key and value corpora as the executor for the current code (exec.rs).

use crate::backend::{MemBackend, Store};
use crate::codec::Ctx;
use crate::exec::{Config, MULTIMAP_TYPES, TABLE_TYPES};
use redb3::{
    Database, Durability, Key, MultimapTable, MultimapTableDefinition, MultimapTableHandle, ReadTransaction, ReadableDatabase, ReadableMultimapTable,
    ReadableTable, ReadableTableMetadata, Table, TableDefinition, TableHandle, Value, WriteTransaction,
};
use serde_json::{Value as J, json};
use std::collections::BTreeMap;
use std::io;
use std::panic::{AssertUnwindSafe, catch_unwind};
use std::sync::Arc;

/// the harness backend behind the 3.0.0 `StorageBackend` trait
#[derive(Debug)]
pub struct Backend3(pub MemBackend);

impl redb3::StorageBackend for Backend3 {
    fn len(&self) -> Result<u64, io::Error> {
        redb::StorageBackend::len(&self.0)
    }
    fn read(&self, offset: u64, out: &mut [u8]) -> Result<(), io::Error> {
        redb::StorageBackend::read(&self.0, offset, out)
    }
    fn set_len(&self, len: u64) -> Result<(), io::Error> {
        redb::StorageBackend::set_len(&self.0, len)
    }
    fn sync_data(&self) -> Result<(), io::Error> {
        redb::StorageBackend::sync_data(&self.0)
    }
    fn write(&self, offset: u64, data: &[u8]) -> Result<(), io::Error> {
        redb::StorageBackend::write(&self.0, offset, data)
    }
    fn close(&self) -> Result<(), io::Error> {
        redb::StorageBackend::close(&self.0)
    }
}

fn ok(x: J) -> J {
    json!({"ok": x})
}

fn variant(dbg: String) -> String {
    dbg.split(|c: char| !c.is_alphanumeric()).next().unwrap_or("").to_string()
}

fn er<E: Into<redb3::Error>>(e: E) -> J {
    let e: redb3::Error = e.into();
    json!({"err": variant(format!("{e:?}")), "msg": e.to_string()})
}

macro_rules! tr {
    ($e:expr) => {
        match $e {
            Ok(x) => x,
            Err(e) => return er(e),
        }
    };
}

macro_rules! dispatch_t3 {
    ($kt:expr, $vt:expr, $f:ident ( $($args:expr),* )) => {
        match ($kt, $vt) {
            ("u64", "bytes") => $f::<u64, &'static [u8]>($($args),*),
            ("u64", "u64") => $f::<u64, u64>($($args),*),
            ("bytes", "bytes") => $f::<&'static [u8], &'static [u8]>($($args),*),
            ("bytes", "u64") => $f::<&'static [u8], u64>($($args),*),
            ("str", "bytes") => $f::<&'static str, &'static [u8]>($($args),*),
            ("str", "u64") => $f::<&'static str, u64>($($args),*),
            (a, b) => panic!("HARNESS: unsupported table types {a} {b}"),
        }
    };
}

macro_rules! dispatch_m3 {
    ($kt:expr, $vt:expr, $f:ident ( $($args:expr),* )) => {
        match ($kt, $vt) {
            ("u64", "u64") => $f::<u64, u64>($($args),*),
            ("u64", "bytes") => $f::<u64, &'static [u8]>($($args),*),
            ("bytes", "bytes") => $f::<&'static [u8], &'static [u8]>($($args),*),
            ("bytes", "u64") => $f::<&'static [u8], u64>($($args),*),
            (a, b) => panic!("HARNESS: unsupported multimap types {a} {b}"),
        }
    };
}

fn dump_t<K: Key + 'static, V: Value + 'static>(rt: &ReadTransaction, cx: &Ctx, n: &str, kt: &str, vt: &str) -> Result<Vec<J>, redb3::Error> {
    let def: TableDefinition<K, V> = TableDefinition::new(n);
    let t = rt.open_table(def)?;
    let mut out = vec![];
    for x in t.iter()? {
        let (k, v) = x?;
        out.push(json!([cx.key_index(kt, K::as_bytes(&k.value()).as_ref()), cx.val_index(vt, V::as_bytes(&v.value()).as_ref())]));
    }
    Ok(out)
}

fn dump_m<K: Key + 'static, V: Key + 'static>(rt: &ReadTransaction, cx: &Ctx, n: &str, kt: &str, vt: &str) -> Result<Vec<J>, redb3::Error> {
    let def: MultimapTableDefinition<K, V> = MultimapTableDefinition::new(n);
    let t = rt.open_multimap_table(def)?;
    let mut out = vec![];
    for x in t.iter()? {
        let (k, vals) = x?;
        let mut vs = vec![];
        for v in vals {
            vs.push(json!(cx.key_index(vt, V::as_bytes(&v?.value()).as_ref())));
        }
        out.push(json!([cx.key_index(kt, K::as_bytes(&k.value()).as_ref()), vs]));
    }
    Ok(out)
}

pub fn dump_tables(rt: &ReadTransaction, cx: &Ctx) -> Result<Vec<J>, redb3::Error> {
    let mut tables = vec![];
    let mut names: Vec<String> = rt.list_tables()?.map(|h| h.name().to_string()).collect();
    names.sort();
    for n in names {
        let mut found = false;
        for (kt, vt) in TABLE_TYPES {
            match dispatch_t3!(kt, vt, dump_t(rt, cx, &n, kt, vt)) {
                Ok(c) => {
                    tables.push(json!({"name": n, "kind": "t", "kt": kt, "vt": vt, "c": c}));
                    found = true;
                    break;
                }
                Err(redb3::Error::TableTypeMismatch { .. }) | Err(redb3::Error::TypeDefinitionChanged { .. }) => {}
                Err(e) => return Err(e),
            }
        }
        if !found {
            tables.push(json!({"name": n, "kind": "t", "kt": "?", "vt": "?", "c": []}));
        }
    }
    let mut names: Vec<String> = rt.list_multimap_tables()?.map(|h| h.name().to_string()).collect();
    names.sort();
    for n in names {
        let mut found = false;
        for (kt, vt) in MULTIMAP_TYPES {
            match dispatch_m3!(kt, vt, dump_m(rt, cx, &n, kt, vt)) {
                Ok(c) => {
                    tables.push(json!({"name": n, "kind": "m", "kt": kt, "vt": vt, "c": c}));
                    found = true;
                    break;
                }
                Err(redb3::Error::TableTypeMismatch { .. }) | Err(redb3::Error::TypeDefinitionChanged { .. }) => {}
                Err(e) => return Err(e),
            }
        }
        if !found {
            tables.push(json!({"name": n, "kind": "m", "kt": "?", "vt": "?", "c": []}));
        }
    }
    Ok(tables)
}

pub fn observe(db: &Database, cx: &Ctx) -> Result<J, redb3::Error> {
    let wt = db.begin_write()?;
    let mut psp: Vec<u64> = wt.list_persistent_savepoints()?.collect();
    psp.sort_unstable();
    wt.abort()?;
    let rt = db.begin_read()?;
    let tables = dump_tables(&rt, cx)?;
    Ok(json!({"tables": tables, "psp": psp}))
}

pub fn builder(cfg: &Config) -> redb3::Builder {
    let mut b = redb3::Builder::new();
    b.set_cache_size(cfg.cache_size);
    b
}

/// What redb 3.0.0 makes of a file: open (repairing if needed), check_integrity, contents, the
/// check again with the contents again, and a write transaction followed by a clean close and reopen.
pub fn probe(image: Vec<u8>, cfg: &Config) -> J {
    let cx = cfg.ctx();
    let ilen = image.len();
    let store = Store::from_bytes(image);
    catch_unwind(AssertUnwindSafe(|| {
        let mut db = match builder(cfg).create_with_backend(Backend3(store.backend())) {
            Ok(db) => db,
            Err(e) => return json!({"obs": {"error": format!("open: {e}")}}),
        };
        let integ = match db.check_integrity() {
            Ok(b) => json!({"ok": b}),
            Err(e) => json!({"err": e.to_string()}),
        };
        let obs = match observe(&db, &cx) {
            Ok(o) => o,
            Err(e) => json!({"error": e.to_string()}),
        };
        let integ2 = match db.check_integrity() {
            Ok(b) => json!({"ok": b}),
            Err(e) => json!({"err": e.to_string()}),
        };
        let obs2 = observe(&db, &cx).unwrap_or(json!({"error": 1}));
        // a transaction that adds one table, a clean close, and another open by the same release
        let write_ok = (|| -> Result<bool, redb3::Error> {
            let wt = db.begin_write()?;
            {
                let mut t = wt.open_table(TableDefinition::<u64, u64>::new("zz_compat"))?;
                t.insert(1, 1)?;
            }
            wt.commit()?;
            Ok(true)
        })()
        .unwrap_or(false);
        drop(db);
        let after = match builder(cfg).create_with_backend(Backend3(store.backend())) {
            Ok(db) => observe(&db, &cx).ok(),
            Err(_) => None,
        };
        let strip = |o: &J| -> J {
            let mut o = o.clone();
            if let Some(t) = o.get_mut("tables").and_then(|t| t.as_array_mut()) {
                t.retain(|x| x["name"] != "zz_compat");
            }
            o
        };
        let write_ok = write_ok && after.as_ref().is_some_and(|a| strip(a) == obs);
        json!({"obs": obs, "integ": integ, "integ2": integ2, "same": obs2 == obs && integ2 == json!({"ok": true}), "write_ok": write_ok, "ilen": ilen})
    }))
    .unwrap_or_else(|_| json!({"obs": {"error": "panic"}}))
}

// ---------------------------------------------------------------------------------------------
// A step executor on redb 3.0.0 for the basic vocabulary: transactions (durability, 2PC, quick
// repair), open/close, insert/remove/pop/retain on tables, insert/remove/remove_all on multimaps,
// rename/delete, persistent savepoints, compact, reopen.  Everything else is skipped with a note.

trait W3 {
    fn op(&mut self, cx: &Ctx, op: &J) -> Option<J>;
}

struct WT3<K: Key + 'static, V: Value + 'static> {
    t: Table<'static, K, V>,
    kt: String,
    vt: String,
}

impl<K: Key + 'static, V: Value + 'static> W3 for WT3<K, V> {
    fn op(&mut self, cx: &Ctx, op: &J) -> Option<J> {
        let (kt, vt) = (self.kt.as_str(), self.vt.as_str());
        let kbuf = op.get("k").and_then(|k| k.as_u64()).map(|k| cx.key_bytes(kt, k as u32)).unwrap_or_default();
        let vbuf = op.get("v").and_then(|v| v.as_u64()).map(|v| cx.val_bytes(vt, v as u32)).unwrap_or_default();
        let vi = |bytes: &[u8]| cx.val_index(vt, bytes);
        Some((|| match op["e"].as_str().unwrap() {
            "ins" => match tr!(self.t.insert(K::from_bytes(&kbuf), V::from_bytes(&vbuf))) {
                Some(g) => ok(json!([vi(V::as_bytes(&g.value()).as_ref())])),
                None => ok(json!([])),
            },
            "rem" => match tr!(self.t.remove(K::from_bytes(&kbuf))) {
                Some(g) => ok(json!([vi(V::as_bytes(&g.value()).as_ref())])),
                None => ok(json!([])),
            },
            "pop" => {
                let r = if op["last"].as_bool().unwrap() { self.t.pop_last() } else { self.t.pop_first() };
                match tr!(r) {
                    Some((k, v)) => ok(json!([cx.key_index(kt, K::as_bytes(&k.value()).as_ref()), vi(V::as_bytes(&v.value()).as_ref())])),
                    None => ok(json!([])),
                }
            }
            "len" => ok(json!(tr!(self.t.len()))),
            _ => J::Null,
        })())
        .filter(|r| !r.is_null())
    }
}

struct WM3<K: Key + 'static, V: Key + 'static> {
    t: MultimapTable<'static, K, V>,
    kt: String,
    vt: String,
}

impl<K: Key + 'static, V: Key + 'static> W3 for WM3<K, V> {
    fn op(&mut self, cx: &Ctx, op: &J) -> Option<J> {
        let (kt, vt) = (self.kt.as_str(), self.vt.as_str());
        let kbuf = op.get("k").and_then(|k| k.as_u64()).map(|k| cx.key_bytes(kt, k as u32)).unwrap_or_default();
        let vbuf = op.get("v").and_then(|v| v.as_u64()).map(|v| cx.key_bytes(vt, v as u32)).unwrap_or_default();
        Some((|| match op["e"].as_str().unwrap() {
            "mins" => ok(json!(tr!(self.t.insert(K::from_bytes(&kbuf), V::from_bytes(&vbuf))))),
            "mrem" => ok(json!(tr!(self.t.remove(K::from_bytes(&kbuf), V::from_bytes(&vbuf))))),
            "mremall" => {
                let it = tr!(self.t.remove_all(K::from_bytes(&kbuf)));
                let mut out = vec![];
                for x in it {
                    out.push(json!(cx.key_index(vt, V::as_bytes(&tr!(x).value()).as_ref())));
                }
                ok(J::Array(out))
            }
            "len" => ok(json!(tr!(self.t.len()))),
            _ => J::Null,
        })())
        .filter(|r| !r.is_null())
    }
}

fn open_t3<K: Key + 'static, V: Value + 'static>(txn: &'static WriteTransaction, n: &str, kt: &str, vt: &str) -> Result<Box<dyn W3>, redb3::TableError> {
    let t = txn.open_table(TableDefinition::<K, V>::new(n))?;
    Ok(Box::new(WT3::<K, V> { t, kt: kt.to_string(), vt: vt.to_string() }))
}

fn open_m3<K: Key + 'static, V: Key + 'static>(txn: &'static WriteTransaction, n: &str, kt: &str, vt: &str) -> Result<Box<dyn W3>, redb3::TableError> {
    let t = txn.open_multimap_table(MultimapTableDefinition::<K, V>::new(n))?;
    Ok(Box::new(WM3::<K, V> { t, kt: kt.to_string(), vt: vt.to_string() }))
}

pub struct Exec3 {
    pub cfg: Config,
    pub cx: Ctx,
    pub store: Arc<Store>,
    pub db: Option<Database>,
    wtx: Option<*mut WriteTransaction>,
    wtables: BTreeMap<String, Box<dyn W3>>,
}

impl Exec3 {
    pub fn new(cfg: Config) -> Exec3 {
        let store = Store::new();
        let cx = cfg.ctx();
        let db = builder(&cfg).create_with_backend(Backend3(store.backend())).expect("HARNESS: redb 3.0.0 cannot create a database");
        Exec3 { cfg, cx, store, db: Some(db), wtx: None, wtables: BTreeMap::new() }
    }

    fn txn(&self) -> &'static WriteTransaction {
        unsafe { &*self.wtx.expect("HARNESS: no write transaction") }
    }

    fn take_txn(&mut self) -> Box<WriteTransaction> {
        self.wtables.clear();
        unsafe { Box::from_raw(self.wtx.take().expect("HARNESS: no write transaction")) }
    }

    pub fn has_wtx(&self) -> bool {
        self.wtx.is_some()
    }

    pub fn teardown(&mut self) {
        self.wtables.clear();
        if self.wtx.is_some() {
            drop(self.take_txn());
        }
        self.db = None;
    }

    fn skipped(op: &J) -> Vec<J> {
        vec![json!({"e": "note", "what": "skipped", "step": op["e"]})]
    }

    /// executes a step; steps outside the vocabulary, or without their handle, are skipped
    pub fn step(&mut self, op: &J) -> Vec<J> {
        let b0 = self.store.log_len();
        let res = catch_unwind(AssertUnwindSafe(|| self.step_inner(op)));
        let mut evs = match res {
            Ok(evs) => evs,
            Err(_) => {
                let mut ev = op.clone();
                ev["r"] = json!({"panic": "redb 3.0.0"});
                vec![ev]
            }
        };
        let b1 = self.store.log_len();
        for ev in &mut evs {
            // 3.0.0 refuses a few calls the current code accepts (and the other way round); a refused call changes
            // nothing, and what 3.0.0 answers is not what is judged here - only what it leaves in the file
            if ev["e"] != "cend" && ev.get("r").is_some_and(|r| r.get("err").is_some()) {
                *ev = json!({"e": "note", "what": "refused by 3.0.0", "step": ev["e"], "why": ev["r"]["err"]});
            }
            ev["bk"] = json!([b0, b1]);
        }
        evs
    }

    fn step_inner(&mut self, op: &J) -> Vec<J> {
        let e = op["e"].as_str().unwrap_or("");
        let with_r = |r: J| {
            let mut ev = op.clone();
            ev["r"] = r;
            vec![ev]
        };
        match e {
            "bw" if self.wtx.is_none() => match self.db.as_ref().unwrap().begin_write() {
                Ok(t) => {
                    self.wtx = Some(Box::into_raw(Box::new(t)));
                    with_r(ok(json!(0)))
                }
                Err(e) => with_r(er(e)),
            },
            "dur" if self.wtx.is_some() => {
                let d = if op["d"] == "none" { Durability::None } else { Durability::Immediate };
                let t = unsafe { &mut *self.wtx.unwrap() };
                with_r(match t.set_durability(d) {
                    Ok(()) => ok(json!(0)),
                    Err(e) => er(e),
                })
            }
            "2pc" if self.wtx.is_some() => {
                unsafe { &mut *self.wtx.unwrap() }.set_two_phase_commit(op["on"].as_bool().unwrap());
                vec![json!({"e": "note", "what": "2pc", "on": op["on"]})]
            }
            "qr" if self.wtx.is_some() => {
                unsafe { &mut *self.wtx.unwrap() }.set_quick_repair(op["on"].as_bool().unwrap());
                vec![json!({"e": "note", "what": "qr", "on": op["on"]})]
            }
            "commit" if self.wtx.is_some() => {
                let mut evs: Vec<J> = self.wtables.keys().map(|n| json!({"e": "close", "n": n})).collect();
                let t = self.take_txn();
                let r = match t.commit() {
                    Ok(()) => ok(json!(0)),
                    Err(e) => er(e),
                };
                evs.push(json!({"e": "cbegin"}));
                evs.push(json!({"e": "cend", "r": r}));
                evs
            }
            "abort" | "dropw" if self.wtx.is_some() => {
                let mut evs: Vec<J> = self.wtables.keys().map(|n| json!({"e": "close", "n": n})).collect();
                let t = self.take_txn();
                let r = match t.abort() {
                    Ok(()) => ok(json!(0)),
                    Err(e) => er(e),
                };
                evs.push(json!({"e": "abort", "r": r}));
                evs
            }
            "open" if self.wtx.is_some() && !self.wtables.contains_key(op["n"].as_str().unwrap()) => {
                let n = op["n"].as_str().unwrap();
                let (kind, kt, vt) = (op["kind"].as_str().unwrap(), op["kt"].as_str().unwrap(), op["vt"].as_str().unwrap());
                let txn = self.txn();
                let r = if kind == "t" { dispatch_t3!(kt, vt, open_t3(txn, n, kt, vt)) } else { dispatch_m3!(kt, vt, open_m3(txn, n, kt, vt)) };
                with_r(match r {
                    Ok(h) => {
                        self.wtables.insert(n.to_string(), h);
                        ok(json!(0))
                    }
                    Err(e) => er(e),
                })
            }
            "close" if self.wtables.contains_key(op["n"].as_str().unwrap()) => {
                self.wtables.remove(op["n"].as_str().unwrap());
                vec![op.clone()]
            }
            "ins" | "rem" | "pop" | "mins" | "mrem" | "mremall" | "len"
                if op.get("src").is_none_or(|s| s == "w") && self.wtables.contains_key(op["n"].as_str().unwrap_or("")) =>
            {
                let h = self.wtables.get_mut(op["n"].as_str().unwrap()).unwrap();
                match h.op(&self.cx, op) {
                    Some(r) => with_r(r),
                    None => Self::skipped(op),
                }
            }
            "rename" | "delete" if self.wtx.is_some() => {
                let a = op["a"].as_str().unwrap();
                let txn = self.txn();
                let normal = op["kind"] == "t";
                let r = if e == "rename" {
                    let b = op["b"].as_str().unwrap();
                    let r = if normal {
                        txn.rename_table(TableDefinition::<u64, u64>::new(a), TableDefinition::<u64, u64>::new(b))
                    } else {
                        txn.rename_multimap_table(MultimapTableDefinition::<u64, u64>::new(a), MultimapTableDefinition::<u64, u64>::new(b))
                    };
                    match r {
                        Ok(()) => ok(json!(0)),
                        Err(e) => er(e),
                    }
                } else {
                    let r = if normal {
                        txn.delete_table(TableDefinition::<u64, u64>::new(a))
                    } else {
                        txn.delete_multimap_table(MultimapTableDefinition::<u64, u64>::new(a))
                    };
                    match r {
                        Ok(b) => ok(json!(b)),
                        Err(e) => er(e),
                    }
                };
                with_r(r)
            }
            "spp" if self.wtx.is_some() => with_r(match self.txn().persistent_savepoint() {
                Ok(id) => ok(json!(id)),
                Err(e) => er(e),
            }),
            "spdel" if self.wtx.is_some() => with_r(match self.txn().delete_persistent_savepoint(op["id"].as_u64().unwrap()) {
                Ok(b) => ok(json!(b)),
                Err(e) => er(e),
            }),
            "reopen" if self.wtx.is_none() => {
                self.db = None;
                let db = builder(&self.cfg).create_with_backend(Backend3(self.store.backend())).expect("HARNESS: redb 3.0.0 cannot reopen its own file");
                let obs = observe(&db, &self.cx).unwrap_or_else(|e| json!({"error": e.to_string()}));
                self.db = Some(db);
                vec![json!({"e": "reopen", "obs": obs})]
            }
            _ => Self::skipped(op),
        }
    }
}

impl Drop for Exec3 {
    fn drop(&mut self) {
        self.teardown();
    }
}
