//! Small shared helpers for the driver binaries

use serde_json::Value as J;
use std::collections::HashMap;
use std::io::Write;

pub struct Args {
    pub map: HashMap<String, String>,
}

impl Args {
    pub fn parse() -> Args {
        let mut map = HashMap::new();
        let argv: Vec<String> = std::env::args().skip(1).collect();
        let mut i = 0;
        while i < argv.len() {
            let a = &argv[i];
            if let Some(k) = a.strip_prefix("--") {
                if i + 1 < argv.len() && !argv[i + 1].starts_with("--") {
                    map.insert(k.to_string(), argv[i + 1].clone());
                    i += 2;
                } else {
                    map.insert(k.to_string(), "true".to_string());
                    i += 1;
                }
            } else {
                panic!("unexpected argument {a}");
            }
        }
        Args { map }
    }

    pub fn str(&self, k: &str, default: &str) -> String {
        self.map.get(k).cloned().unwrap_or_else(|| default.to_string())
    }

    pub fn u64(&self, k: &str, default: u64) -> u64 {
        self.map.get(k).map_or(default, |v| v.parse().unwrap_or_else(|_| panic!("bad --{k}")))
    }

    pub fn has(&self, k: &str) -> bool {
        self.map.contains_key(k)
    }
}

pub struct TraceWriter {
    out: std::io::BufWriter<std::fs::File>,
    pub lines: u64,
}

impl TraceWriter {
    pub fn create(path: &str) -> TraceWriter {
        let f = std::fs::File::create(path).unwrap_or_else(|e| panic!("create {path}: {e}"));
        TraceWriter {
            out: std::io::BufWriter::new(f),
            lines: 0,
        }
    }

    pub fn write(&mut self, ev: &J) {
        serde_json::to_writer(&mut self.out, ev).unwrap();
        self.out.write_all(b"\n").unwrap();
        if std::env::var_os("VERIF_DEBUG").is_some() {
            self.out.flush().unwrap();
        }
        self.lines += 1;
    }

    pub fn finish(mut self) -> u64 {
        self.out.flush().unwrap();
        self.lines
    }
}

/// Silence the default panic message (panics inside redb are recorded as results)
pub fn quiet_panics() {
    if std::env::var_os("VERIF_PANICS").is_some() {
        return;
    }
    // panics inside redb are data; panics of the harness itself (main thread) must be loud
    let default = std::panic::take_hook();
    std::panic::set_hook(Box::new(move |info| {
        let in_harness = info.location().is_some_and(|l| l.file().contains("/verif/harness/") || l.file().starts_with("src/"));
        let injected = info.payload().downcast_ref::<&str>().is_some_and(|m| m.contains("injected by the harness"));
        if in_harness && !injected {
            default(info);
        }
    }));
}
