//! Random script generation, in lockstep with execution (the generator sees results, e.g. whether
//! an open succeeded, but never judges them: that is the specification's job).

use crate::codec::Ctx;
use crate::exec::{MULTIMAP_TYPES, TABLE_TYPES};
use rand::RngExt;
use rand::rngs::StdRng;
use serde_json::{Value as J, json};
use std::collections::{BTreeMap, BTreeSet, VecDeque};

#[derive(Clone, Debug)]
pub struct Profile {
    pub names: Vec<&'static str>,
    pub tables: bool,
    pub multimaps: bool,
    /// restrict table types to the first n entries of TABLE_TYPES / MULTIMAP_TYPES
    pub ntypes: usize,
    pub w_catalog: u32,
    pub w_savepoint: u32,
    pub w_reader: u32,
    pub w_iter: u32,
    pub w_nondurable: u32, // percent of transactions committed with Durability::None
    pub w_abort: u32,      // percent of transactions aborted / dropped
    pub w_reopen: u32,
    pub w_compact: u32,
    pub w_integrity: u32,
    pub w_wrongtype: u32, // percent of opens with deliberately different kind/types
    pub ops_per_txn: u32,
    pub big_values: bool,
    pub w_acct: u32,   // percent of transaction ends followed by a page-accounting probe
    pub w_settle: u32, // weight of a settle sequence (drop everything, empty commits, probe)
    pub settle_commits: u32,
    pub w_idle_nd: u32, // percent of transactions that are an idle non-durable commit followed by begin_read
    pub w_cursor: u32,  // percent of normal-table operations that are a gap-cursor session (needs --features cursor)
    pub w_par: u32,     // percent of write transactions that begin with a multi-threaded section
    pub w_predpanic: u32, // percent of retain / extract steps whose predicate panics after a few calls
    pub w_compactw: u32,  // percent of write transactions during which compact() is called from another thread (step compactw)
    pub w_burst: u32,     // per mille of write transactions that are a savepoint-counter burst (once per run)
    pub w_panicdrop: u32, // percent of write transactions that start a 'dropped during unwinding' episode (ends with a reopen)
}

impl Profile {
    pub fn by_name(name: &str) -> Profile {
        let base = Profile {
            names: vec!["a", "b"],
            tables: true,
            multimaps: false,
            ntypes: 6,
            w_catalog: 0,
            w_savepoint: 0,
            w_reader: 2,
            w_iter: 0,
            w_nondurable: 20,
            w_abort: 10,
            w_reopen: 2,
            w_compact: 0,
            w_integrity: 0,
            w_wrongtype: 0,
            ops_per_txn: 30,
            big_values: true,
            w_acct: 0,
            w_settle: 0,
            settle_commits: 3,
            w_idle_nd: 0,
            w_cursor: 0,
            w_par: 0,
            w_predpanic: 0,
            w_burst: 7,
            w_compactw: 0,
            w_panicdrop: 0,
        };
        match name {
            "table" => base,
            "multimap" => Profile { tables: false, multimaps: true, ntypes: 4, ..base },
            "catalog" => Profile {
                names: vec!["a", "b", "c"],
                multimaps: true,
                w_catalog: 30,
                w_wrongtype: 25,
                ops_per_txn: 8,
                w_abort: 20,
                w_reader: 6,
                ..base
            },
            "savepoint" => Profile {
                multimaps: true,
                w_savepoint: 30,
                w_catalog: 5,
                ops_per_txn: 6,
                w_abort: 25,
                w_reader: 4,
                w_reopen: 4,
                w_acct: 100,
                w_settle: 2,
                ..base
            },
            // abandoned transactions after savepoint operations, between non-durable commits
            "spabort" => Profile {
                names: vec!["a", "b"],
                multimaps: false,
                w_savepoint: 40,
                w_catalog: 3,
                ops_per_txn: 6,
                w_abort: 40,
                w_nondurable: 60,
                w_reader: 2,
                w_reopen: 1,
                w_acct: 100,
                w_settle: 2,
                w_predpanic: 25,
                w_panicdrop: 3,
                ..base
            },
            "reader" => Profile {
                multimaps: true,
                w_reader: 30,
                w_iter: 15,
                w_savepoint: 8,
                ops_per_txn: 10,
                w_nondurable: 40,
                w_compact: 3,
                w_idle_nd: 8,
                ..base
            },
            "mixed" => Profile {
                names: vec!["a", "b", "c"],
                multimaps: true,
                w_catalog: 8,
                w_savepoint: 10,
                w_reader: 10,
                w_iter: 5,
                w_nondurable: 35,
                w_abort: 15,
                w_reopen: 3,
                w_compact: 2,
                w_integrity: 2,
                w_wrongtype: 5,
                ops_per_txn: 12,
                ..base
            },
            "crash" => Profile {
                names: vec!["a", "b"],
                multimaps: true,
                w_catalog: 6,
                w_savepoint: 10,
                w_reader: 0,
                w_nondurable: 35,
                w_abort: 10,
                w_reopen: 3,
                w_compact: 2,
                w_integrity: 1,
                ops_per_txn: 8,
                ..base
            },
            "crashsp" => Profile {
                names: vec!["a", "b"],
                multimaps: false,
                w_catalog: 2,
                w_savepoint: 35,
                w_reader: 0,
                w_nondurable: 25,
                w_abort: 15,
                w_reopen: 3,
                ops_per_txn: 5,
                ..base
            },
            // crashsp with the savepoint counter driven past 256 early in the history (ids are stored little-endian)
            "crashspburst" => Profile {
                names: vec!["a", "b"],
                multimaps: false,
                w_catalog: 2,
                w_savepoint: 35,
                w_reader: 0,
                w_nondurable: 25,
                w_abort: 15,
                w_reopen: 3,
                ops_per_txn: 5,
                w_burst: 250,
                ..base
            },
            "fault" => Profile {
                names: vec!["a", "b"],
                multimaps: true,
                w_catalog: 6,
                w_savepoint: 8,
                w_reader: 8,
                w_iter: 2,
                w_nondurable: 30,
                w_abort: 10,
                w_reopen: 0,
                w_compact: 1,
                w_integrity: 1,
                ops_per_txn: 8,
                ..base
            },
            // fragmentation, then compaction: few readers / savepoints so that compact() is not refused
            "compact" => Profile {
                names: vec!["a", "b", "c"],
                multimaps: true,
                w_catalog: 4,
                w_savepoint: 2,
                w_reader: 2,
                w_nondurable: 30,
                w_abort: 10,
                w_reopen: 2,
                w_compact: 10,
                w_compactw: 6,
                w_integrity: 2,
                ops_per_txn: 14,
                w_acct: 50,
                ..base
            },
            "crashcompact" => Profile {
                names: vec!["a", "b"],
                multimaps: true,
                w_catalog: 4,
                w_savepoint: 0,
                w_reader: 0,
                w_nondurable: 30,
                w_abort: 10,
                w_reopen: 2,
                w_compact: 12,
                ops_per_txn: 10,
                ..base
            },
            // reopen often, look at the allocation state right after every open
            "reopen" => Profile {
                names: vec!["a", "b", "c"],
                multimaps: true,
                w_catalog: 4,
                w_savepoint: 8,
                w_reader: 3,
                w_nondurable: 35,
                w_abort: 15,
                w_reopen: 12,
                w_compact: 2,
                w_integrity: 6,
                ops_per_txn: 10,
                w_acct: 30,
                w_panicdrop: 3,
                ..base
            },
            "pages" => Profile {
                names: vec!["a", "b", "c"],
                multimaps: true,
                w_catalog: 3,
                w_savepoint: 12,
                w_reader: 10,
                w_iter: 3,
                w_nondurable: 40,
                w_abort: 20,
                w_reopen: 2,
                w_compact: 1,
                w_integrity: 1,
                ops_per_txn: 10,
                w_acct: 100,
                w_settle: 3,
                w_idle_nd: 8,
                ..base
            },
            // gap cursors (experimental_cursor): write sessions with runs of inserts in both directions, read sessions
            "cursor" => Profile { w_cursor: 45, w_reader: 8, w_savepoint: 3, ops_per_txn: 14, w_abort: 15, w_reopen: 3, ..base },
            // one write transaction used from several threads (C16)
            "shared" => Profile {
                names: vec!["a", "b", "c", "d"],
                multimaps: true,
                w_par: 70,
                w_savepoint: 12,
                w_catalog: 2,
                ops_per_txn: 5,
                w_abort: 25,
                w_reader: 4,
                w_reopen: 2,
                w_acct: 100,
                w_settle: 3,
                ..base
            },
            other => panic!("unknown profile {other}"),
        }
    }
}

type Ty = (String, String, String); // kind, kt, vt

pub struct Gen {
    pub p: Profile,
    nkeys: u32,
    nclasses: u32,
    vlens: Vec<usize>,
    page_size: usize,
    queue: VecDeque<J>,
    wtx: bool,
    wtx_ops: u32,
    wtx_budget: u32,
    wtx_first: bool,
    open: BTreeMap<String, Ty>,
    known: BTreeMap<String, Ty>,
    pop: BTreeMap<String, BTreeSet<u32>>,
    known_at_begin: BTreeMap<String, Ty>,
    pop_at_begin: BTreeMap<String, BTreeSet<u32>>,
    readers: Vec<(String, BTreeMap<String, Ty>)>,
    sps: Vec<String>,
    psp: Vec<u64>,
    its: Vec<String>,
    ctr: u32,
    vctr: u32,
    last_step: Option<J>,
    long_bytes: Vec<u32>,
    later_restore: Option<String>,
    burst_done: bool,
    cur_n: Option<String>,
}

impl Gen {
    pub fn new(p: Profile, cx: &Ctx) -> Gen {
        Gen {
            p,
            nkeys: cx.nkeys() as u32,
            nclasses: cx.vlens.len() as u32,
            vlens: cx.vlens.clone(),
            page_size: cx.page_size,
            queue: VecDeque::new(),
            wtx: false,
            wtx_ops: 0,
            wtx_budget: 0,
            wtx_first: false,
            open: BTreeMap::new(),
            known: BTreeMap::new(),
            pop: BTreeMap::new(),
            known_at_begin: BTreeMap::new(),
            pop_at_begin: BTreeMap::new(),
            readers: vec![],
            sps: vec![],
            psp: vec![],
            its: vec![],
            ctr: 0,
            vctr: 0,
            last_step: None,
            long_bytes: cx.long_keys("bytes"),
            later_restore: None,
            burst_done: false,
            cur_n: None,
        }
    }

    fn fresh(&mut self, prefix: &str) -> String {
        self.ctr += 1;
        format!("{prefix}{}", self.ctr)
    }

    fn key(&self, rng: &mut StdRng, n: &str) -> u32 {
        // mostly existing keys or their neighbours, sometimes anything
        if let Some(pop) = self.pop.get(n)
            && !pop.is_empty()
            && rng.random_range(0..100) < 60
        {
            let i = rng.random_range(0..pop.len());
            let k = *pop.iter().nth(i).unwrap();
            let d = rng.random_range(0..3);
            return (k + d).saturating_sub(1).min(self.nkeys - 1);
        }
        rng.random_range(0..self.nkeys)
    }

    fn value(&mut self, rng: &mut StdRng, vt: &str) -> u32 {
        self.vctr += 1;
        if vt == "u64" {
            return self.vctr;
        }
        // classes: small ones most of the time; page-fraction and multi-page ones sometimes
        let class = if !self.p.big_values || rng.random_range(0..100) < 55 {
            rng.random_range(0..self.nclasses.min(5))
        } else {
            let c = rng.random_range(0..self.nclasses);
            if self.vlens[c as usize] > self.page_size && rng.random_range(0..100) < 60 {
                rng.random_range(0..self.nclasses.min(9))
            } else {
                c
            }
        };
        let cap = match self.vlens[class as usize] {
            0 => 1,
            1 => 256,
            2 => 65_536,
            _ => crate::codec::VBASE,
        };
        class * crate::codec::VBASE + self.vctr % cap
    }

    fn mvalue(&mut self, rng: &mut StdRng, vt: &str) -> u32 {
        if vt == "u64" {
            // many small values: lets a key grow to hundreds of values
            rng.random_range(0..400)
        } else if !self.long_bytes.is_empty() && rng.random_range(0..4) == 0 {
            // long values: a key's values are stored inline or in a subtree depending on their size
            self.long_bytes[rng.random_range(0..self.long_bytes.len())]
        } else {
            rng.random_range(0..self.nkeys)
        }
    }

    fn bound(&self, rng: &mut StdRng, n: &str) -> J {
        match rng.random_range(0..10) {
            0..=2 => json!({"t": "u"}),
            3..=6 => json!({"t": "i", "k": self.key(rng, n)}),
            _ => json!({"t": "e", "k": self.key(rng, n)}),
        }
    }

    fn pred(&self, rng: &mut StdRng) -> J {
        let m = rng.random_range(1..6u32);
        if rng.random_range(0..100) < self.p.w_predpanic {
            return json!({"m": m, "r": rng.random_range(0..m), "panic_at": rng.random_range(0..6)});
        }
        json!({"m": m, "r": rng.random_range(0..m)})
    }

    fn pick_type(&self, rng: &mut StdRng, n: &str) -> Ty {
        let wrong = rng.random_range(0..100) < self.p.w_wrongtype;
        if let Some(t) = self.known.get(n)
            && !wrong
        {
            return t.clone();
        }
        let multimap = if self.p.tables && self.p.multimaps { rng.random_range(0..3) == 0 } else { self.p.multimaps };
        if multimap {
            let (kt, vt) = MULTIMAP_TYPES[rng.random_range(0..self.p.ntypes.min(4))];
            ("m".into(), kt.into(), vt.into())
        } else {
            let (kt, vt) = TABLE_TYPES[rng.random_range(0..self.p.ntypes.min(6))];
            ("t".into(), kt.into(), vt.into())
        }
    }

    fn name(&self, rng: &mut StdRng) -> String {
        self.p.names[rng.random_range(0..self.p.names.len())].to_string()
    }

    fn table_op(&mut self, rng: &mut StdRng) -> J {
        let names: Vec<String> = self.open.keys().cloned().collect();
        let n = names[rng.random_range(0..names.len())].clone();
        let ty = self.open[&n].clone();
        self.table_op_for(rng, n, ty)
    }

    /// several tables of the transaction used from their own threads, and a thread making savepoints
    fn par_step(&mut self, rng: &mut StdRng) -> J {
        let mut names: Vec<String> = self.p.names.iter().map(|s| s.to_string()).collect();
        for i in (1..names.len()).rev() {
            names.swap(i, rng.random_range(0..=i));
        }
        let nstreams = rng.random_range(2..=names.len().min(4));
        let mut streams = vec![];
        for n in names.into_iter().take(nstreams) {
            let ty = match self.known.get(&n) {
                Some(t) => t.clone(),
                None => self.pick_type(rng, &n),
            };
            let nops = if rng.random_range(0..4) == 0 { rng.random_range(20..60) } else { rng.random_range(1..16) };
            let ops: Vec<J> = (0..nops).map(|_| self.table_op_for(rng, n.clone(), ty.clone())).collect();
            streams.push(json!({"n": n, "kind": ty.0, "kt": ty.1, "vt": ty.2, "ops": ops, "delay": rng.random_range(0..3000)}));
        }
        let hold = match rng.random_range(0..100) {
            0..=19 => "sp",
            20..=29 => "open",
            _ => "",
        };
        let nsp = if hold.is_empty() { rng.random_range(0..4) } else { rng.random_range(1..4) };
        let sp_names: Vec<String> = (0..nsp).map(|_| self.fresh("s")).collect();
        let sp_drop: Vec<bool> = (0..nsp).map(|_| rng.random_range(0..3) == 0).collect();
        json!({"e": "par", "streams": streams, "sp": {"names": sp_names, "drop": sp_drop, "gap": rng.random_range(0..2000)}, "hold": hold})
    }

    fn table_op_for(&mut self, rng: &mut StdRng, n: String, ty: Ty) -> J {
        let (kind, _kt, vt) = ty;
        if kind == "m" {
            let k = self.key(rng, &n);
            return match rng.random_range(0..100) {
                0..=54 => {
                    // concentrate on few keys so that some grow large
                    let k = if rng.random_range(0..3) == 0 { k } else { k % 4 };
                    json!({"e": "mins", "n": n, "k": k, "v": self.mvalue(rng, &vt)})
                }
                55..=69 => json!({"e": "mrem", "n": n, "k": k % 4, "v": self.mvalue(rng, &vt)}),
                70..=74 => json!({"e": "mremall", "n": n, "k": if rng.random_range(0..2) == 0 { k } else { k % 4 }}),
                75..=86 => json!({"e": "mget", "src": "w", "n": n, "k": if rng.random_range(0..2) == 0 { k } else { k % 4 }}),
                87..=93 => json!({"e": "mrange", "src": "w", "n": n, "lo": self.bound(rng, &n), "hi": self.bound(rng, &n), "rev": rng.random_range(0..2) == 0}),
                _ => json!({"e": "len", "src": "w", "n": n}),
            };
        }
        if rng.random_range(0..100) < self.p.w_cursor {
            if rng.random_range(0..5) == 0 {
                return json!({"e": "rcursor", "src": "w", "n": n, "b": self.bound(rng, &n), "upper": rng.random_range(0..2) == 0, "ops": self.rcursor_ops(rng)});
            }
            return self.cursor_session(rng, &n, &vt);
        }
        if rng.random_range(0..300) < self.p.w_predpanic {
            // retain / extract_if whose predicate panics after a few calls (C05)
            let m = rng.random_range(1..4u32);
            let p = json!({"m": m, "r": rng.random_range(0..m), "panic_at": rng.random_range(0..5)});
            return if rng.random_range(0..2) == 0 {
                json!({"e": "retain", "n": n, "lo": {"t": "u"}, "hi": {"t": "u"}, "p": p})
            } else {
                json!({"e": "extract", "n": n, "lo": {"t": "u"}, "hi": {"t": "u"}, "p": p, "cnt": 1000, "rev": rng.random_range(0..2) == 0, "alt": false})
            };
        }
        let k = self.key(rng, &n);
        match rng.random_range(0..100) {
            0..=34 => json!({"e": "ins", "n": n, "k": k, "v": self.value(rng, &vt)}),
            35..=38 => json!({"e": "insr", "n": n, "k": k, "v": self.value(rng, &vt)}),
            39..=42 => json!({"e": "getmut", "n": n, "k": k, "v": self.value(rng, &vt)}),
            43..=48 => {
                let variant = ["or_insert", "and_modify_or_insert", "occ_insert", "occ_remove", "vac_insert"][rng.random_range(0..5)];
                json!({"e": "entry", "n": n, "k": k, "v": self.value(rng, &vt), "variant": variant})
            }
            49..=60 => json!({"e": "rem", "n": n, "k": k}),
            61..=64 => json!({"e": "pop", "n": n, "last": rng.random_range(0..2) == 0}),
            65..=67 if rng.random_range(0..4) == 0 => {
                // empty the table (nothing satisfies the predicate)
                json!({"e": "retain", "n": n, "lo": {"t": "u"}, "hi": {"t": "u"}, "p": {"m": 1_000_003, "r": 1_000_002}})
            }
            65..=67 => {
                let whole = rng.random_range(0..2) == 0;
                let (lo, hi) = if whole { (json!({"t": "u"}), json!({"t": "u"})) } else { (self.bound(rng, &n), self.bound(rng, &n)) };
                json!({"e": "retain", "n": n, "lo": lo, "hi": hi, "p": self.pred(rng)})
            }
            68..=72 => {
                let whole = rng.random_range(0..2) == 0;
                let (lo, hi) = if whole { (json!({"t": "u"}), json!({"t": "u"})) } else { (self.bound(rng, &n), self.bound(rng, &n)) };
                json!({"e": "extract", "n": n, "lo": lo, "hi": hi, "p": self.pred(rng), "cnt": rng.random_range(0..12),
                       "rev": rng.random_range(0..2) == 0, "alt": rng.random_range(0..3) == 0})
            }
            73..=82 => json!({"e": "get", "src": "w", "n": n, "k": k}),
            83..=85 => json!({"e": "len", "src": "w", "n": n}),
            86..=88 => json!({"e": "edge", "src": "w", "n": n, "last": rng.random_range(0..2) == 0}),
            _ => json!({"e": "range", "src": "w", "n": n, "lo": self.bound(rng, &n), "hi": self.bound(rng, &n),
                        "cnt": if rng.random_range(0..3) == 0 { 1000 } else { rng.random_range(0..10) },
                        "rev": rng.random_range(0..2) == 0, "alt": rng.random_range(0..4) == 0}),
        }
    }

    fn cursor_session(&mut self, rng: &mut StdRng, n: &str, vt: &str) -> J {
        let b = self.bound(rng, n);
        let upper = rng.random_range(0..2) == 0;
        let mut ops: Vec<J> = vec![];
        // x follows where an accepted insert would have to be
        let mut x: i64 = b.get("k").and_then(|k| k.as_i64()).unwrap_or(if upper { self.nkeys as i64 - 1 } else { 0 });
        let segments = rng.random_range(1..6);
        for _ in 0..segments {
            match rng.random_range(0..100) {
                0..=24 => {
                    // ascending run through insert_before
                    let len = if rng.random_range(0..6) == 0 { rng.random_range(12..48) } else { rng.random_range(1..8) };
                    for _ in 0..len {
                        if x < 0 || x >= self.nkeys as i64 {
                            break;
                        }
                        ops.push(json!({"op": "ins_before", "k": x, "v": self.value(rng, vt)}));
                        x += if rng.random_range(0..5) == 0 { 2 } else { 1 };
                    }
                }
                25..=49 => {
                    // descending run through insert_after
                    let len = if rng.random_range(0..6) == 0 { rng.random_range(12..48) } else { rng.random_range(1..8) };
                    for _ in 0..len {
                        if x < 0 || x >= self.nkeys as i64 {
                            break;
                        }
                        ops.push(json!({"op": "ins_after", "k": x, "v": self.value(rng, vt)}));
                        x -= if rng.random_range(0..5) == 0 { 2 } else { 1 };
                    }
                }
                50..=57 => {
                    let k = self.key(rng, n);
                    ops.push(json!({"op": if rng.random_range(0..2) == 0 { "ins_before" } else { "ins_after" }, "k": k, "v": self.value(rng, vt)}));
                }
                58..=69 => {
                    for _ in 0..rng.random_range(1..5) {
                        ops.push(json!({"op": "next"}));
                        x += 1;
                    }
                }
                70..=81 => {
                    for _ in 0..rng.random_range(1..5) {
                        ops.push(json!({"op": "prev"}));
                        x -= 1;
                    }
                }
                82..=87 => ops.push(json!({"op": "peek_next"})),
                88..=91 => ops.push(json!({"op": "peek_prev"})),
                92..=95 => {
                    for _ in 0..rng.random_range(1..4) {
                        ops.push(json!({"op": "rem_next"}));
                    }
                }
                _ => {
                    for _ in 0..rng.random_range(1..4) {
                        ops.push(json!({"op": "rem_prev"}));
                    }
                }
            }
        }
        json!({"e": "cursor", "n": n, "b": b, "upper": upper, "ops": ops, "end": if rng.random_range(0..4) == 0 { "drop" } else { "close" }})
    }

    fn rcursor_ops(&self, rng: &mut StdRng) -> Vec<&'static str> {
        (0..rng.random_range(1..10)).map(|_| ["peek_next", "peek_prev", "next", "next", "prev", "prev"][rng.random_range(0..6)]).collect()
    }

    fn reader_op(&mut self, rng: &mut StdRng) -> Option<J> {
        if self.readers.is_empty() {
            return None;
        }
        let (h, tables) = self.readers[rng.random_range(0..self.readers.len())].clone();
        if rng.random_range(0..6) == 0 {
            return Some(json!({"e": "dump", "src": h}));
        }
        if rng.random_range(0..10) == 0 {
            return Some(json!({"e": "list", "src": h, "kind": if rng.random_range(0..2) == 0 { "t" } else { "m" }}));
        }
        // a table the reader should see, or (rarely) any name, possibly with wrong types
        let (n, ty) = if !tables.is_empty() && rng.random_range(0..10) < 8 {
            let i = rng.random_range(0..tables.len());
            let (n, ty) = tables.iter().nth(i).unwrap();
            (n.clone(), ty.clone())
        } else {
            let n = self.name(rng);
            let ty = self.pick_type(rng, &n);
            (n, ty)
        };
        let exists = tables.get(&n) == Some(&ty);
        let (kind, kt, vt) = ty;
        if !exists {
            return Some(json!({"e": "ropen", "h": h, "n": n, "kind": kind, "kt": kt, "vt": vt}));
        }
        let k = self.key(rng, &n);
        let mut op = if kind == "m" {
            match rng.random_range(0..10) {
                0..=5 => json!({"e": "mget", "k": k % 6}),
                6..=8 => json!({"e": "mrange", "lo": self.bound(rng, &n), "hi": self.bound(rng, &n), "rev": rng.random_range(0..2) == 0}),
                _ => json!({"e": "len"}),
            }
        } else {
            match rng.random_range(0..10) {
                _ if rng.random_range(0..100) < self.p.w_cursor => {
                    json!({"e": "rcursor", "b": self.bound(rng, &n), "upper": rng.random_range(0..2) == 0, "ops": self.rcursor_ops(rng)})
                }
                0..=4 => json!({"e": "get", "k": k}),
                5 => json!({"e": "len"}),
                6 => json!({"e": "edge", "last": rng.random_range(0..2) == 0}),
                _ => json!({"e": "range", "lo": self.bound(rng, &n), "hi": self.bound(rng, &n),
                            "cnt": if rng.random_range(0..3) == 0 { 1000 } else { rng.random_range(0..10) },
                            "rev": rng.random_range(0..2) == 0, "alt": rng.random_range(0..4) == 0}),
            }
        };
        op["src"] = json!(h);
        op["n"] = json!(n);
        op["kind"] = json!(kind);
        op["kt"] = json!(kt);
        op["vt"] = json!(vt);
        Some(op)
    }

    fn begin_write(&mut self, rng: &mut StdRng) {
        if let Some(s) = self.later_restore.take()
            && self.sps.contains(&s)
        {
            self.queue.push_back(json!({"e": "bw"}));
            self.queue.push_back(json!({"e": "spreste", "s": s}));
            self.queue.push_back(json!({"e": if rng.random_range(0..2) == 0 { "commit" } else { "abort" }}));
            return;
        }
        if rng.random_range(0..100) < self.p.w_idle_nd && self.readers.len() < 4 {
            // a commit that changes nothing, and a reader that begins right after it
            self.queue.push_back(json!({"e": "bw"}));
            self.queue.push_back(json!({"e": "dur", "d": "none"}));
            self.queue.push_back(json!({"e": "commit"}));
            let h = self.fresh("r");
            self.queue.push_back(json!({"e": "br", "h": h}));
            return;
        }
        if self.p.w_savepoint > 0 && !self.burst_done && rng.random_range(0..1000) < self.p.w_burst {
            // a long-running application: the savepoint counter has passed 256 (ids are stored little-endian; every
            // savepoint call advances the one counter) when a persistent savepoint is taken while an older one exists
            self.burst_done = true;
            self.queue.push_back(json!({"e": "bw"}));
            // the older savepoint gets an id with a large low byte, the newer one an id above 256 with a small low byte:
            // their order as numbers and as little-endian byte strings differs
            let first = rng.random_range(120..250);
            for i in 0..rng.random_range(270..330) {
                if i == first {
                    self.queue.push_back(json!({"e": "spp"}));
                }
                let s = self.fresh("s");
                self.queue.push_back(json!({"e": "spe", "s": s}));
                self.queue.push_back(json!({"e": "spdrop", "s": s}));
            }
            self.queue.push_back(json!({"e": "spp"}));
            self.queue.push_back(json!({"e": "splist"}));
            self.queue.push_back(json!({"e": "commit"}));
            return;
        }
        if self.p.w_savepoint > 0 && self.sps.len() < 6 && rng.random_range(0..100) < 5 {
            // two savepoints with non-durable commits after each that free pages of the captured states; one transaction
            // restores the newer and then the older one; the savepoints go; more commits follow.  Whatever the rolled-back
            // commits had queued for freeing belongs to states that are live again.
            let normal: Vec<(String, Ty)> = self.known.iter().filter(|(_, t)| t.0 == "t").map(|(n, t)| (n.clone(), t.clone())).collect();
            if !normal.is_empty() {
                let (n, ty) = normal[rng.random_range(0..normal.len())].clone();
                let (a, b) = (self.fresh("s"), self.fresh("s"));
                let durable_restore = rng.random_range(0..2) == 0;
                let churn = |g: &mut Gen, rng: &mut StdRng, sp: Option<&String>, nd: bool| {
                    g.queue.push_back(json!({"e": "bw"}));
                    if nd {
                        g.queue.push_back(json!({"e": "dur", "d": "none"}));
                    }
                    if let Some(sp) = sp {
                        g.queue.push_back(json!({"e": "spe", "s": sp}));
                    }
                    g.queue.push_back(json!({"e": "open", "n": n, "kind": "t", "kt": ty.1, "vt": ty.2}));
                    for _ in 0..rng.random_range(3..9) {
                        if rng.random_range(0..3) == 0 {
                            g.queue.push_back(json!({"e": "rem", "n": n, "k": g.key(rng, &n)}));
                        } else {
                            let v = g.value(rng, &ty.2);
                            g.queue.push_back(json!({"e": "ins", "n": n, "k": g.key(rng, &n), "v": v}));
                        }
                    }
                    g.queue.push_back(json!({"e": "close", "n": n}));
                    g.queue.push_back(json!({"e": "commit"}));
                };
                churn(self, rng, Some(&a), true);
                churn(self, rng, None, true);
                churn(self, rng, Some(&b), true);
                churn(self, rng, None, true);
                self.queue.push_back(json!({"e": "bw"}));
                if !durable_restore {
                    self.queue.push_back(json!({"e": "dur", "d": "none"}));
                }
                self.queue.push_back(json!({"e": "spreste", "s": b}));
                self.queue.push_back(json!({"e": "spreste", "s": a}));
                self.queue.push_back(json!({"e": "commit"}));
                self.queue.push_back(json!({"e": "spdrop", "s": a}));
                self.queue.push_back(json!({"e": "spdrop", "s": b}));
                churn(self, rng, None, false);
                let nd = rng.random_range(0..2) == 0;
                churn(self, rng, None, nd);
                return;
            }
        }
        if self.p.w_savepoint > 0 && rng.random_range(0..100) < 7 {
            // a persistent savepoint taken on top of non-durable commits: it pins a tree that has not been written out
            // yet when its own (durable) transaction commits
            let n = self.name(rng);
            let known_normal = self.known.get(&n).is_none_or(|t| t.0 == "t");
            if known_normal {
                let (kt, vt) = match self.known.get(&n) {
                    Some(t) => (t.1.clone(), t.2.clone()),
                    None => ("u64".to_string(), "bytes".to_string()),
                };
                for _ in 0..rng.random_range(1..3) {
                    self.queue.push_back(json!({"e": "bw"}));
                    self.queue.push_back(json!({"e": "dur", "d": "none"}));
                    self.queue.push_back(json!({"e": "open", "n": n, "kind": "t", "kt": kt, "vt": vt}));
                    for _ in 0..rng.random_range(2..7) {
                        let v = self.value(rng, &vt);
                        self.queue.push_back(json!({"e": "ins", "n": n, "k": self.key(rng, &n), "v": v}));
                    }
                    self.queue.push_back(json!({"e": "close", "n": n}));
                    self.queue.push_back(json!({"e": "commit"}));
                }
                self.queue.push_back(json!({"e": "bw"}));
                self.queue.push_back(json!({"e": "spp"}));
                self.queue.push_back(json!({"e": "open", "n": n, "kind": "t", "kt": kt, "vt": vt}));
                for _ in 0..rng.random_range(2..7) {
                    if rng.random_range(0..3) == 0 {
                        self.queue.push_back(json!({"e": "rem", "n": n, "k": self.key(rng, &n)}));
                    } else {
                        let v = self.value(rng, &vt);
                        self.queue.push_back(json!({"e": "ins", "n": n, "k": self.key(rng, &n), "v": v}));
                    }
                }
                self.queue.push_back(json!({"e": "close", "n": n}));
                self.queue.push_back(json!({"e": "commit"}));
                return;
            }
        }
        if rng.random_range(0..100) < self.p.w_panicdrop {
            // a write transaction with allocations is dropped while a panic unwinds through it (its pages leak until the
            // database is reopened and no clean shutdown may be recorded meanwhile); other transactions end - by abort, drop
            // and commit - before the database is closed and reopened: the leak must be gone then
            let normal: Vec<(String, Ty)> = self.known.iter().filter(|(_, t)| t.0 == "t").map(|(n, t)| (n.clone(), t.clone())).collect();
            if !normal.is_empty() {
                let (n, ty) = normal[rng.random_range(0..normal.len())].clone();
                let endings = ["dropwp", ["abort", "dropw"][rng.random_range(0..2)], ["commit", "abort", "dropw"][rng.random_range(0..3)]];
                for ending in endings {
                    self.queue.push_back(json!({"e": "bw"}));
                    self.queue.push_back(json!({"e": "open", "n": n, "kind": "t", "kt": ty.1, "vt": ty.2}));
                    for _ in 0..rng.random_range(2..8) {
                        let v = self.value(rng, &ty.2);
                        self.queue.push_back(json!({"e": "ins", "n": n, "k": self.key(rng, &n), "v": v}));
                    }
                    self.queue.push_back(json!({"e": "close", "n": n}));
                    self.queue.push_back(json!({"e": ending}));
                    if self.p.w_acct > 0 {
                        self.queue.push_back(json!({"e": "acct"}));
                    }
                }
                // everything that refers to the database goes first
                for it in &self.its {
                    self.queue.push_back(json!({"e": "itdrop", "it": it}));
                }
                for (h, _) in &self.readers {
                    self.queue.push_back(json!({"e": "dr", "h": h}));
                }
                for s in &self.sps {
                    self.queue.push_back(json!({"e": "spdrop", "s": s}));
                }
                self.queue.push_back(json!({"e": "reopen"}));
                return;
            }
        }
        if self.p.multimaps && self.p.w_reader > 0 && self.readers.len() < 3 && self.its.len() < 3 && !self.long_bytes.is_empty() && rng.random_range(0..100) < 5 {
            // a multimap key gets one or two long values and a few short ones (a value subtree of very few, uneven leaves); a
            // reader takes the key's values (borrowed or owned) and its transaction handle goes; later transactions remove the
            // values one by one - the subtree collapses, the list goes back inline - and write elsewhere; the old values
            // are read on between the commits
            let multi: Vec<(String, Ty)> = self.known.iter().filter(|(_, t)| t.0 == "m" && t.2 == "bytes").map(|(n, t)| (n.clone(), t.clone())).collect();
            if !multi.is_empty() {
                let (n, ty) = multi[rng.random_range(0..multi.len())].clone();
                let k = self.key(rng, &n) % 4;
                let mut vals: Vec<u32> = vec![self.long_bytes[rng.random_range(0..self.long_bytes.len())]];
                if rng.random_range(0..3) == 0 {
                    vals.push(self.long_bytes[rng.random_range(0..self.long_bytes.len())]);
                }
                for _ in 0..rng.random_range(2..5) {
                    vals.push(rng.random_range(0..self.nkeys));
                }
                vals.sort();
                vals.dedup();
                for i in (1..vals.len()).rev() {
                    vals.swap(i, rng.random_range(0..=i));
                }
                self.queue.push_back(json!({"e": "bw"}));
                self.queue.push_back(json!({"e": "open", "n": n, "kind": "m", "kt": ty.1, "vt": ty.2}));
                self.queue.push_back(json!({"e": "mremall", "n": n, "k": k}));
                for v in &vals {
                    self.queue.push_back(json!({"e": "mins", "n": n, "k": k, "v": v}));
                }
                self.queue.push_back(json!({"e": "close", "n": n}));
                self.queue.push_back(json!({"e": "commit"}));
                let (h, it) = (self.fresh("r"), self.fresh("m"));
                self.queue.push_back(json!({"e": "br", "h": h}));
                self.queue.push_back(json!({"e": "mhold", "it": it, "src": h, "n": n, "kt": ty.1, "vt": ty.2, "k": k, "owned": rng.random_range(0..2) == 0}));
                self.queue.push_back(json!({"e": "dr", "h": h}));
                for i in (1..vals.len()).rev() {
                    vals.swap(i, rng.random_range(0..=i));
                }
                let other: Vec<(String, Ty)> = self.known.iter().filter(|(m, t)| t.0 == "t" && **m != n).map(|(m, t)| (m.clone(), t.clone())).collect();
                for v in &vals {
                    self.queue.push_back(json!({"e": "bw"}));
                    if rng.random_range(0..2) == 0 {
                        self.queue.push_back(json!({"e": "dur", "d": "none"}));
                    }
                    self.queue.push_back(json!({"e": "open", "n": n, "kind": "m", "kt": ty.1, "vt": ty.2}));
                    self.queue.push_back(json!({"e": "mrem", "n": n, "k": k, "v": v}));
                    self.queue.push_back(json!({"e": "close", "n": n}));
                    if let Some((m, mt)) = other.first() {
                        // pages released by the removal are taken again
                        self.queue.push_back(json!({"e": "open", "n": m, "kind": "t", "kt": mt.1, "vt": mt.2}));
                        for _ in 0..rng.random_range(1..4) {
                            let val = self.value(rng, &mt.2);
                            self.queue.push_back(json!({"e": "ins", "n": m, "k": self.key(rng, m), "v": val}));
                        }
                        self.queue.push_back(json!({"e": "close", "n": m}));
                    }
                    self.queue.push_back(json!({"e": "commit"}));
                    self.queue.push_back(json!({"e": "mitnext", "it": it, "cnt": 1, "rev": rng.random_range(0..2) == 0}));
                }
                self.queue.push_back(json!({"e": "mitnext", "it": it, "cnt": 8, "rev": false}));
                self.queue.push_back(json!({"e": "itdrop", "it": it}));
                return;
            }
        }
        if self.p.w_compactw > 0 && self.readers.is_empty() && self.its.is_empty() && self.sps.is_empty() && self.psp.is_empty() && rng.random_range(0..100) < self.p.w_compactw {
            // compact() is called while a write transaction is live on another thread: it passes its first checks, waits
            // for the write lock, and the transaction creates a savepoint and commits meanwhile.  compact() must decide
            // on the state it finds once it has the lock (step compactw)
            let normal: Vec<(String, Ty)> = self.known.iter().filter(|(_, t)| t.0 == "t").map(|(n, t)| (n.clone(), t.clone())).collect();
            if !normal.is_empty() {
                let (n, ty) = normal[rng.random_range(0..normal.len())].clone();
                // (a savepoint can only be created by a transaction that has not written yet)
                let kind = if self.p.w_savepoint == 0 { "none" } else { ["p", "e", "none"][rng.random_range(0..3)] };
                self.queue.push_back(json!({"e": "bw"}));
                if kind == "none" {
                    if rng.random_range(0..3) == 0 {
                        self.queue.push_back(json!({"e": "dur", "d": "none"}));
                    }
                    self.queue.push_back(json!({"e": "open", "n": n, "kind": "t", "kt": ty.1, "vt": ty.2}));
                    for _ in 0..rng.random_range(1..5) {
                        let v = self.value(rng, &ty.2);
                        self.queue.push_back(json!({"e": "ins", "n": n, "k": self.key(rng, &n), "v": v}));
                    }
                    self.queue.push_back(json!({"e": "close", "n": n}));
                }
                let s = self.fresh("s");
                self.queue.push_back(json!({"e": "compactw", "sp": kind, "s": s}));
                if kind == "e" {
                    self.queue.push_back(json!({"e": "spdrop", "s": s}));
                    self.queue.push_back(json!({"e": "compact"}));
                }
                return;
            }
        }
        if self.p.w_compact > 0 && self.p.w_reader > 0 && self.readers.len() < 4 && rng.random_range(0..100) < 6 {
            // compact() while a read transaction is open, in every position relative to pending non-durable commits
            // (the reader may sit on the durable commit, on a pending one, or before both): it must be refused, and run
            // once the reader is gone
            let normal: Vec<(String, Ty)> = self.known.iter().filter(|(_, t)| t.0 == "t").map(|(n, t)| (n.clone(), t.clone())).collect();
            if !normal.is_empty() {
                let (n, ty) = normal[rng.random_range(0..normal.len())].clone();
                let pending = rng.random_range(0..3usize);
                let reader_at = rng.random_range(0..=pending + 1);
                let h = self.fresh("r");
                for t in 0..=pending {
                    if t == reader_at {
                        self.queue.push_back(json!({"e": "br", "h": h}));
                    }
                    self.queue.push_back(json!({"e": "bw"}));
                    // the first of them is durable: what follows is pending on top of it
                    if t > 0 {
                        self.queue.push_back(json!({"e": "dur", "d": "none"}));
                    }
                    self.queue.push_back(json!({"e": "open", "n": n, "kind": "t", "kt": ty.1, "vt": ty.2}));
                    for _ in 0..rng.random_range(1..5) {
                        let v = self.value(rng, &ty.2);
                        self.queue.push_back(json!({"e": "ins", "n": n, "k": self.key(rng, &n), "v": v}));
                    }
                    self.queue.push_back(json!({"e": "close", "n": n}));
                    self.queue.push_back(json!({"e": "commit"}));
                }
                if reader_at == pending + 1 {
                    self.queue.push_back(json!({"e": "br", "h": h}));
                }
                self.queue.push_back(json!({"e": "compact"}));
                self.queue.push_back(json!({"e": "dump", "src": h}));
                self.queue.push_back(json!({"e": "dr", "h": h}));
                if rng.random_range(0..2) == 0 {
                    self.queue.push_back(json!({"e": "compact"}));
                }
                return;
            }
        }
        if self.p.w_savepoint > 0 && self.p.w_reader > 0 && self.readers.len() < 4 && rng.random_range(0..100) < 5 {
            // a reader that is OLDER than a live savepoint: the reader begins, a durable commit frees pages of its tree,
            // a savepoint is made on top of that commit and kept while more durable commits run (their epilogues release
            // freed pages up to a horizon), later commits reuse what was released, then the old reader is read again
            let normal: Vec<(String, Ty)> = self.known.iter().filter(|(_, t)| t.0 == "t").map(|(n, t)| (n.clone(), t.clone())).collect();
            if !normal.is_empty() {
                let (n, ty) = normal[rng.random_range(0..normal.len())].clone();
                let h = self.fresh("r");
                self.queue.push_back(json!({"e": "br", "h": h}));
                let persistent = rng.random_range(0..3) == 0;
                for t in 0..rng.random_range(4..7) {
                    self.queue.push_back(json!({"e": "bw"}));
                    if t == 1 {
                        if persistent {
                            self.queue.push_back(json!({"e": "spp"}));
                        } else {
                            let s = self.fresh("s");
                            self.queue.push_back(json!({"e": "spe", "s": s}));
                        }
                    }
                    self.queue.push_back(json!({"e": "open", "n": n, "kind": "t", "kt": ty.1, "vt": ty.2}));
                    for _ in 0..rng.random_range(3..9) {
                        if rng.random_range(0..3) == 0 {
                            self.queue.push_back(json!({"e": "rem", "n": n, "k": self.key(rng, &n)}));
                        } else {
                            let v = self.value(rng, &ty.2);
                            self.queue.push_back(json!({"e": "ins", "n": n, "k": self.key(rng, &n), "v": v}));
                        }
                    }
                    self.queue.push_back(json!({"e": "close", "n": n}));
                    self.queue.push_back(json!({"e": "commit"}));
                }
                self.queue.push_back(json!({"e": "dump", "src": h}));
                return;
            }
        }
        self.queue.push_back(json!({"e": "bw"}));
        self.wtx_budget = rng.random_range(1..=self.p.ops_per_txn.max(1));
    }

    fn end_txn(&mut self, rng: &mut StdRng) {
        for n in self.open.keys() {
            self.queue.push_back(json!({"e": "close", "n": n}));
        }
        let x = rng.random_range(0..100);
        if x < self.p.w_abort {
            self.queue.push_back(json!({"e": if rng.random_range(0..2) == 0 { "abort" } else { "dropw" }}));
        } else {
            self.queue.push_back(json!({"e": "commit"}));
        }
    }

    pub fn next(&mut self, rng: &mut StdRng) -> J {
        let step = self.next_inner(rng);
        self.last_step = Some(step.clone());
        step
    }

    fn next_inner(&mut self, rng: &mut StdRng) -> J {
        loop {
            if let Some(s) = self.pop_queue() {
                return s;
            }
            if self.wtx {
                if self.wtx_first {
                    self.wtx_first = false;
                    // transaction settings, before anything else
                    if rng.random_range(0..100) < self.p.w_nondurable {
                        self.queue.push_back(json!({"e": "dur", "d": "none"}));
                    } else {
                        match rng.random_range(0..10) {
                            0..=1 => self.queue.push_back(json!({"e": "2pc", "on": true})),
                            2..=3 => self.queue.push_back(json!({"e": "qr", "on": true})),
                            _ => {}
                        }
                    }
                    if rng.random_range(0..100) < self.p.w_par {
                        let par = self.par_step(rng);
                        // sometimes roll the whole transaction back to a savepoint made during the parallel section
                        let kept: Vec<String> = par["sp"]["names"].as_array().unwrap().iter().zip(par["sp"]["drop"].as_array().unwrap())
                            .filter(|(_, d)| d.as_bool() == Some(false)).map(|(n, _)| n.as_str().unwrap().to_string()).collect();
                        self.queue.push_back(par);
                        if !kept.is_empty() && rng.random_range(0..100) < 40 {
                            self.queue.push_back(json!({"e": "spreste", "s": kept[rng.random_range(0..kept.len())]}));
                        }
                        continue;
                    }
                    // savepoints must come before the transaction is dirty
                    if rng.random_range(0..100) < self.p.w_savepoint {
                        if rng.random_range(0..2) == 0 {
                            let s = self.fresh("s");
                            self.queue.push_back(json!({"e": "spe", "s": s}));
                        } else {
                            self.queue.push_back(json!({"e": "spp"}));
                        }
                    }
                    continue;
                }
                self.wtx_ops += 1;
                if self.wtx_ops > self.wtx_budget {
                    self.end_txn(rng);
                    continue;
                }
                let x = rng.random_range(0..100);
                if x < self.p.w_savepoint {
                    match rng.random_range(0..10) {
                        0 => {
                            let s = self.fresh("s");
                            return json!({"e": "spe", "s": s});
                        }
                        1 => return json!({"e": "spp"}),
                        2 => return json!({"e": "splist"}),
                        3..=4 if !self.psp.is_empty() => {
                            let id = self.psp[rng.random_range(0..self.psp.len())];
                            return json!({"e": "spdel", "id": id});
                        }
                        5..=6 if !self.sps.is_empty() && self.open.is_empty() => {
                            let i = rng.random_range(0..self.sps.len());
                            let s = self.sps[i].clone();
                            if i > 0 && rng.random_range(0..3) == 0 {
                                // restore a newer savepoint, then an older one, in the same transaction
                                let older = self.sps[rng.random_range(0..i)].clone();
                                self.queue.push_back(json!({"e": "spreste", "s": older}));
                            }
                            if i + 1 < self.sps.len() && rng.random_range(0..2) == 0 {
                                // after this transaction: try a savepoint created after the restored one
                                self.later_restore = Some(self.sps[rng.random_range(i + 1..self.sps.len())].clone());
                            }
                            return json!({"e": "spreste", "s": s});
                        }
                        7 if !self.psp.is_empty() && self.open.is_empty() => {
                            let id = self.psp[rng.random_range(0..self.psp.len())];
                            return json!({"e": "sprestp", "id": id});
                        }
                        8 => return json!({"e": "dur", "d": if rng.random_range(0..2) == 0 { "none" } else { "imm" }}),
                        _ => continue,
                    }
                }
                if x < self.p.w_savepoint + self.p.w_catalog && rng.random_range(0..6) == 0 && self.open.is_empty() {
                    // empty / refill a committed table, drop the handle, rename it, look at it under the new name
                    let normal: Vec<(String, Ty)> = self.known.iter().filter(|(_, t)| t.0 == "t").map(|(n, t)| (n.clone(), t.clone())).collect();
                    if let Some((n, ty)) = normal.first().cloned() {
                        let m = self.name(rng);
                        self.queue.push_back(json!({"e": "open", "n": n, "kind": "t", "kt": ty.1, "vt": ty.2}));
                        match rng.random_range(0..3) {
                            0 => self.queue.push_back(json!({"e": "retain", "n": n, "lo": {"t": "u"}, "hi": {"t": "u"}, "p": {"m": 1_000_003, "r": 1_000_002}})),
                            1 => self.queue.push_back(json!({"e": "pop", "n": n, "last": false})),
                            _ => {
                                let v = self.value(rng, &ty.2);
                                self.queue.push_back(json!({"e": "ins", "n": n, "k": self.key(rng, &n), "v": v}));
                            }
                        }
                        self.queue.push_back(json!({"e": "close", "n": n}));
                        self.queue.push_back(json!({"e": "rename", "a": n, "b": m, "kind": "t"}));
                        self.queue.push_back(json!({"e": "open", "n": m, "kind": "t", "kt": ty.1, "vt": ty.2}));
                        self.queue.push_back(json!({"e": "len", "src": "w", "n": m}));
                        self.queue.push_back(json!({"e": "range", "src": "w", "n": m, "lo": {"t": "u"}, "hi": {"t": "u"}, "cnt": 1000, "rev": false, "alt": false}));
                        self.queue.push_back(json!({"e": "close", "n": m}));
                        continue;
                    }
                }
                if x < self.p.w_savepoint + self.p.w_catalog {
                    let n = self.name(rng);
                    let kind = if self.p.multimaps && rng.random_range(0..3) == 0 { "m" } else { "t" };
                    let kind = self.known.get(&n).filter(|_| rng.random_range(0..5) != 0).map_or(kind.to_string(), |t| t.0.clone());
                    return match rng.random_range(0..10) {
                        0..=3 => json!({"e": "rename", "a": n, "b": self.name(rng), "kind": kind}),
                        4..=6 => json!({"e": "delete", "a": n, "kind": kind}),
                        _ => json!({"e": "list", "src": "w", "kind": kind}),
                    };
                }
                // open / close / operate
                let y = rng.random_range(0..100);
                if self.open.is_empty() || y < 8 {
                    let n = self.name(rng);
                    let (kind, kt, vt) = self.pick_type(rng, &n);
                    return json!({"e": "open", "n": n, "kind": kind, "kt": kt, "vt": vt});
                }
                if y < 12 {
                    let names: Vec<String> = self.open.keys().cloned().collect();
                    let n = names[rng.random_range(0..names.len())].clone();
                    return json!({"e": "close", "n": n});
                }
                return self.table_op(rng);
            }
            // no write transaction
            let x = rng.random_range(0..100);
            let mut acc = self.p.w_reader;
            if x < acc {
                match rng.random_range(0..10) {
                    0..=2 if self.readers.len() < 4 => {
                        let h = self.fresh("r");
                        return json!({"e": "br", "h": h});
                    }
                    3 if !self.readers.is_empty() => {
                        let i = rng.random_range(0..self.readers.len());
                        let h = self.readers[i].0.clone();
                        return json!({"e": "dr", "h": h});
                    }
                    _ => {
                        if let Some(op) = self.reader_op(rng) {
                            return op;
                        }
                        continue;
                    }
                }
            }
            acc += self.p.w_iter;
            if x < acc {
                match rng.random_range(0..10) {
                    0..=2 if self.its.len() < 3 && !self.readers.is_empty() => {
                        let (h, tables) = self.readers[rng.random_range(0..self.readers.len())].clone();
                        let normal: Vec<(&String, &Ty)> = tables.iter().filter(|(_, t)| t.0 == "t").collect();
                        if normal.is_empty() {
                            continue;
                        }
                        let multi: Vec<(&String, &Ty)> = tables.iter().filter(|(_, t)| t.0 == "m").collect();
                        if !multi.is_empty() && rng.random_range(0..3) == 0 {
                            // the values of one multimap key (borrowed or owned), kept while later transactions remove values
                            // of that key - the key's value list shrinks from a subtree back to an inline list - and reuse pages
                            let (n, ty) = multi[rng.random_range(0..multi.len())];
                            let it = self.fresh("m");
                            let k = self.key(rng, n) % 4;
                            return json!({"e": "mhold", "it": it, "src": h, "n": n, "kt": ty.1, "vt": ty.2, "k": k, "owned": rng.random_range(0..2) == 0});
                        }
                        if rng.random_range(0..4) == 0 {
                            // an untyped table handle (of a table of any kind): it outlives its read transaction like an
                            // owned iterator does, and answers len() and stats()
                            let all: Vec<(&String, &Ty)> = tables.iter().collect();
                            let (n, ty) = all[rng.random_range(0..all.len())];
                            let it = self.fresh("u");
                            return json!({"e": "uhold", "it": it, "src": h, "n": n, "kind": ty.0});
                        }
                        let (n, ty) = normal[rng.random_range(0..normal.len())];
                        let it = self.fresh("i");
                        return json!({"e": "hold", "it": it, "src": h, "n": n, "kt": ty.1, "vt": ty.2,
                                      "lo": self.bound(rng, n), "hi": self.bound(rng, n), "owned": rng.random_range(0..2) == 0});
                    }
                    3 if !self.its.is_empty() => {
                        let it = self.its[rng.random_range(0..self.its.len())].clone();
                        return json!({"e": "itdrop", "it": it});
                    }
                    _ if !self.its.is_empty() => {
                        let it = self.its[rng.random_range(0..self.its.len())].clone();
                        if it.starts_with('u') {
                            return json!({"e": "ustats", "it": it});
                        }
                        if it.starts_with('m') {
                            return json!({"e": "mitnext", "it": it, "cnt": rng.random_range(0..4), "rev": rng.random_range(0..2) == 0});
                        }
                        return json!({"e": "itnext", "it": it, "cnt": rng.random_range(0..6), "rev": rng.random_range(0..2) == 0});
                    }
                    _ => continue,
                }
            }
            acc += self.p.w_savepoint / 3;
            if x < acc {
                if !self.sps.is_empty() {
                    let s = self.sps[rng.random_range(0..self.sps.len())].clone();
                    return json!({"e": "spdrop", "s": s});
                }
                continue;
            }
            acc += self.p.w_reopen;
            if x < acc {
                // everything that refers to the database goes first
                for it in &self.its {
                    self.queue.push_back(json!({"e": "itdrop", "it": it}));
                }
                for (h, _) in &self.readers {
                    self.queue.push_back(json!({"e": "dr", "h": h}));
                }
                for s in &self.sps {
                    self.queue.push_back(json!({"e": "spdrop", "s": s}));
                }
                self.queue.push_back(json!({"e": "reopen"}));
                continue;
            }
            acc += self.p.w_compact;
            if x < acc {
                return json!({"e": "compact"});
            }
            acc += self.p.w_integrity;
            if x < acc {
                return json!({"e": "integrity"});
            }
            acc += self.p.w_settle;
            if x < acc {
                self.settle();
                continue;
            }
            self.begin_write(rng);
        }
    }

    /// Learn from the events a step produced
    pub fn observe(&mut self, evs: &[J]) {
        for ev in evs {
            let e = ev["e"].as_str().unwrap();
            let okr = ev.get("r").is_some_and(|r| r.get("ok").is_some());
            match e {
                "bw" if okr => {
                    self.wtx = true;
                    self.wtx_ops = 0;
                    self.wtx_first = true;
                    self.known_at_begin = self.known.clone();
                    self.pop_at_begin = self.pop.clone();
                }
                "bw" => {
                    // writes are refused (latched): only a reopen helps
                    self.queue.clear();
                    for it in &self.its {
                        self.queue.push_back(json!({"e": "itdrop", "it": it}));
                    }
                    for (h, _) in &self.readers {
                        self.queue.push_back(json!({"e": "dr", "h": h}));
                    }
                    for s in &self.sps {
                        self.queue.push_back(json!({"e": "spdrop", "s": s}));
                    }
                    self.queue.push_back(json!({"e": "reopen"}));
                }
                "cend" | "abort" => {
                    self.wtx = false;
                    self.open.clear();
                    if self.p.w_acct > 0 && (self.ctr + self.vctr) % 100 < self.p.w_acct {
                        self.queue.push_back(json!({"e": "acct"}));
                    }
                    if e == "abort" || !okr {
                        // forget what was learnt inside the transaction
                        self.known = self.known_at_begin.clone();
                        self.pop = self.pop_at_begin.clone();
                    }
                }
                "open" if okr => {
                    let n = ev["n"].as_str().unwrap().to_string();
                    let ty = (ev["kind"].as_str().unwrap().to_string(), ev["kt"].as_str().unwrap().to_string(), ev["vt"].as_str().unwrap().to_string());
                    self.open.insert(n.clone(), ty.clone());
                    self.known.insert(n, ty);
                }
                "close" => {
                    self.open.remove(ev["n"].as_str().unwrap());
                }
                "rename" if okr => {
                    let (a, b) = (ev["a"].as_str().unwrap(), ev["b"].as_str().unwrap());
                    if let Some(t) = self.known.remove(a) {
                        self.known.insert(b.to_string(), t);
                    }
                    if let Some(p) = self.pop.remove(a) {
                        self.pop.insert(b.to_string(), p);
                    }
                }
                "delete" if okr => {
                    self.known.remove(ev["a"].as_str().unwrap());
                    self.pop.remove(ev["a"].as_str().unwrap());
                }
                "predpanic" => {
                    // nothing more to be learnt from this transaction: close the handles and end it
                    self.queue.clear();
                    for n in self.open.keys() {
                        self.queue.push_back(json!({"e": "close", "n": n}));
                    }
                    self.queue.push_back(json!({"e": if (self.ctr + self.vctr) % 3 == 0 { "abort" } else { "commit" }}));
                    self.wtx_ops = u32::MAX / 2;
                }
                "cur_open" => {
                    self.cur_n = ev["n"].as_str().map(|s| s.to_string());
                }
                "cur" if okr && ev["op"].as_str().is_some_and(|o| o.starts_with("ins")) => {
                    if let (Some(n), Some(k)) = (self.cur_n.clone(), ev["k"].as_u64()) {
                        self.pop.entry(n).or_default().insert(k as u32);
                    }
                }
                "ins" | "insr" | "mins" | "entry" => {
                    if let (Some(n), Some(k)) = (ev["n"].as_str(), ev["k"].as_u64()) {
                        self.pop.entry(n.to_string()).or_default().insert(k as u32);
                    }
                }
                "rem" => {
                    if let (Some(n), Some(k)) = (ev["n"].as_str(), ev["k"].as_u64())
                        && let Some(p) = self.pop.get_mut(n)
                    {
                        p.remove(&(k as u32));
                    }
                }
                "br" if okr => {
                    self.readers.push((ev["h"].as_str().unwrap().to_string(), self.known.clone()));
                }
                "dr" => {
                    let h = ev["h"].as_str().unwrap();
                    self.readers.retain(|(x, _)| x != h);
                }
                "hold" | "uhold" | "mhold" if okr => self.its.push(ev["it"].as_str().unwrap().to_string()),
                "itdrop" => {
                    let it = ev["it"].as_str().unwrap();
                    self.its.retain(|x| x != it);
                }
                "spe" if okr => self.sps.push(ev["s"].as_str().unwrap().to_string()),
                "spdrop" => {
                    let s = ev["s"].as_str().unwrap();
                    self.sps.retain(|x| x != s);
                }
                "spp" if okr => self.psp.push(ev["r"]["ok"].as_u64().unwrap()),
                "spreste" | "sprestp" if okr => {
                    self.known.clear();
                    self.pop.clear();
                }
                "reopen" | "crash" => {
                    if self.p.w_acct > 0 {
                        self.queue.push_back(json!({"e": "acct"}));
                    }
                    self.wtx = false;
                    self.open.clear();
                    self.readers.clear();
                    self.sps.clear();
                    self.its.clear();
                    self.known.clear();
                    self.pop.clear();
                    if let Some(tables) = ev["obs"]["tables"].as_array() {
                        for t in tables {
                            self.known.insert(
                                t["name"].as_str().unwrap().to_string(),
                                (t["kind"].as_str().unwrap().to_string(), t["kt"].as_str().unwrap().to_string(), t["vt"].as_str().unwrap().to_string()),
                            );
                        }
                    }
                    if let Some(psp) = ev["obs"]["psp"].as_array() {
                        self.psp = psp.iter().map(|x| x.as_u64().unwrap()).collect();
                    }
                }
                _ => {}
            }
        }
    }

    /// Let go of everything that pins pages, run the settle commits, probe the accounting
    fn settle(&mut self) {
        for it in &self.its {
            self.queue.push_back(json!({"e": "itdrop", "it": it}));
        }
        for (h, _) in &self.readers {
            self.queue.push_back(json!({"e": "dr", "h": h}));
        }
        for s in &self.sps {
            self.queue.push_back(json!({"e": "spdrop", "s": s}));
        }
        if !self.psp.is_empty() {
            self.queue.push_back(json!({"e": "bw"}));
            for id in &self.psp {
                self.queue.push_back(json!({"e": "spdel", "id": id}));
            }
            self.queue.push_back(json!({"e": "commit"}));
            self.psp.clear();
        }
        for _ in 0..self.p.settle_commits {
            self.queue.push_back(json!({"e": "bw"}));
            self.queue.push_back(json!({"e": "commit"}));
        }
        self.queue.push_back(json!({"e": "acct", "settled": true}));
    }

    /// Next already-queued step, if any (used to drain before finishing)
    pub fn drain_one(&mut self) -> Option<J> {
        self.pop_queue()
    }

    // queued steps were planned ahead: drop those whose handle did not materialise
    fn pop_queue(&mut self) -> Option<J> {
        while let Some(s) = self.queue.pop_front() {
            let e = s["e"].as_str().unwrap_or("");
            let n = s["n"].as_str().unwrap_or("");
            let needs_open = matches!(e, "close" | "ins" | "insr" | "getmut" | "entry" | "rem" | "pop" | "retain" | "extract" | "mins" | "mrem" | "mremall")
                || (matches!(e, "get" | "len" | "edge" | "range" | "mget" | "mrange") && s["src"] == "w");
            if needs_open && !self.open.contains_key(n) {
                continue;
            }
            if e == "open" && self.open.contains_key(n) {
                continue;
            }
            if matches!(e, "spreste" | "spdrop") && !self.sps.iter().any(|x| Some(x.as_str()) == s["s"].as_str()) {
                continue;
            }
            return Some(s);
        }
        None
    }

    /// Steps that bring the run to a quiescent end: close and commit, drop every handle, reopen
    pub fn final_steps(&mut self) -> Vec<J> {
        let mut v = vec![];
        if self.wtx {
            for n in self.open.keys() {
                v.push(json!({"e": "close", "n": n}));
            }
            v.push(json!({"e": "commit"}));
        }
        for it in &self.its {
            v.push(json!({"e": "itdrop", "it": it}));
        }
        for (h, _) in &self.readers {
            v.push(json!({"e": "dr", "h": h}));
        }
        for s in &self.sps {
            v.push(json!({"e": "spdrop", "s": s}));
        }
        v.push(json!({"e": "reopen"}));
        v
    }
}
