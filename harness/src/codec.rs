//! Mapping between the naturals of the specification and concrete keys / values.
//!
//! Keys: an order-preserving map from 0..n onto values of the key type.  For u64 a strictly
//! monotone arithmetic map; for byte strings and str a corpus sorted by Rust's own `Ord` (which
//! shares no code with redb's `Key::compare`).  Values: (class, idx) -> bytes of the class's
//! length, with every byte determined by (class, idx); reading back compares all bytes.

use rand::rngs::StdRng;
use rand::{RngExt, SeedableRng};
use std::collections::{BTreeSet, HashMap};

pub const VBASE: u32 = 1_000_000;
const U64_STRIDE: u64 = 1_000_003;

pub struct Ctx {
    pub page_size: usize,
    /// value length per class; all distinct
    pub vlens: Vec<usize>,
    vlen_to_class: HashMap<usize, u32>,
    bytes_keys: Vec<Vec<u8>>,
    bytes_index: HashMap<Vec<u8>, u32>,
    str_keys: Vec<String>,
    str_index: HashMap<Vec<u8>, u32>,
    /// optional re-mapping used by the transition tours: abstract key i is corpus key key_sel[i]
    /// (strictly increasing, so order is preserved), abstract value v is value id val_sel[v]
    key_sel: Option<Vec<u32>>,
    key_sel_inv: HashMap<u32, u32>,
    val_sel: Option<Vec<u32>>,
    val_sel_inv: HashMap<u32, u32>,
}

fn gen_bytes_corpus(rng: &mut StdRng, n: usize, page_size: usize) -> Vec<Vec<u8>> {
    let alphabet: [u8; 6] = [0x00, 0x01, 0x61, 0x62, 0x7f, 0xff];
    let mut set: BTreeSet<Vec<u8>> = BTreeSet::new();
    set.insert(vec![]);
    // a family of shared prefixes
    let mut prefixes: Vec<Vec<u8>> = vec![vec![], vec![0x61], vec![0x61, 0x61], vec![0xff, 0xff]];
    for _ in 0..6 {
        let len = rng.random_range(3..24);
        prefixes.push((0..len).map(|_| alphabet[rng.random_range(0..6)]).collect());
    }
    // a few long keys (a good fraction of a page, and more than a page)
    for frac in [3usize, 2, 1] {
        let mut k = vec![0x62u8; page_size / frac + rng.random_range(0..8)];
        k[0] = 0x61;
        set.insert(k);
    }
    set.insert(vec![0x61; page_size + 17]);
    while set.len() < n {
        let mut k = prefixes[rng.random_range(0..prefixes.len())].clone();
        let extra = rng.random_range(0..6);
        for _ in 0..extra {
            k.push(alphabet[rng.random_range(0..6)]);
        }
        set.insert(k);
    }
    // keep exactly n, always including the empty key and the long ones: drop random short ones
    let mut v: Vec<Vec<u8>> = set.into_iter().collect();
    while v.len() > n {
        let i = rng.random_range(1..v.len());
        if v[i].len() < 64 {
            v.remove(i);
        }
    }
    v
}

fn gen_str_corpus(rng: &mut StdRng, n: usize, page_size: usize) -> Vec<String> {
    let alphabet: [char; 7] = ['\u{0}', 'a', 'b', '\u{7f}', 'é', '€', '😀'];
    let mut set: BTreeSet<String> = BTreeSet::new();
    set.insert(String::new());
    let mut prefixes: Vec<String> = vec![String::new(), "a".into(), "aé".into(), "€€".into()];
    for _ in 0..6 {
        let len = rng.random_range(2..12);
        prefixes.push((0..len).map(|_| alphabet[rng.random_range(0..7)]).collect());
    }
    let long: String = std::iter::repeat_n('é', page_size / 4).collect();
    set.insert(format!("a{long}"));
    set.insert(format!("a{long}€"));
    while set.len() < n {
        let mut k = prefixes[rng.random_range(0..prefixes.len())].clone();
        let extra = rng.random_range(0..5);
        for _ in 0..extra {
            k.push(alphabet[rng.random_range(0..7)]);
        }
        set.insert(k);
    }
    let mut v: Vec<String> = set.into_iter().collect();
    while v.len() > n {
        let i = rng.random_range(1..v.len());
        if v[i].len() < 64 {
            v.remove(i);
        }
    }
    v
}

impl Ctx {
    /// `nkeys`: size of the key space (keys are 0..nkeys); `vlens`: value length per class
    pub fn new(seed: u64, page_size: usize, nkeys: usize, vlens: Vec<usize>) -> Ctx {
        let mut rng = StdRng::seed_from_u64(seed ^ 0x5eed_c0de);
        let mut vlen_to_class = HashMap::new();
        for (i, l) in vlens.iter().enumerate() {
            assert!(vlen_to_class.insert(*l, i as u32).is_none(), "value lengths must be distinct");
        }
        let bytes_keys = gen_bytes_corpus(&mut rng, nkeys, page_size);
        let str_keys = gen_str_corpus(&mut rng, nkeys, page_size);
        let bytes_index = bytes_keys.iter().enumerate().map(|(i, k)| (k.clone(), i as u32)).collect();
        let str_index = str_keys
            .iter()
            .enumerate()
            .map(|(i, k)| (k.as_bytes().to_vec(), i as u32))
            .collect();
        Ctx {
            page_size,
            vlens,
            vlen_to_class,
            bytes_keys,
            bytes_index,
            str_keys,
            str_index,
            key_sel: None,
            key_sel_inv: HashMap::new(),
            val_sel: None,
            val_sel_inv: HashMap::new(),
        }
    }

    pub fn with_selection(mut self, key_sel: Vec<u32>, val_sel: Vec<u32>) -> Ctx {
        assert!(key_sel.windows(2).all(|w| w[0] < w[1]), "key selection must be increasing");
        self.key_sel_inv = key_sel.iter().enumerate().map(|(i, k)| (*k, i as u32)).collect();
        self.val_sel_inv = val_sel.iter().enumerate().map(|(i, v)| (*v, i as u32)).collect();
        self.key_sel = Some(key_sel);
        self.val_sel = Some(val_sel);
        self
    }

    fn kmap(&self, i: u32) -> u32 {
        match &self.key_sel {
            Some(sel) => sel[i as usize],
            None => i,
        }
    }

    fn kunmap(&self, i: i64) -> i64 {
        if self.key_sel.is_none() || i < 0 {
            return i;
        }
        self.key_sel_inv.get(&(i as u32)).map_or(-1, |x| i64::from(*x))
    }

    /// corpus indices of the long keys (at least a quarter page) of a variable-width key type
    pub fn long_keys(&self, kt: &str) -> Vec<u32> {
        let q = self.page_size / 4;
        match kt {
            "bytes" => self.bytes_keys.iter().enumerate().filter(|(_, k)| k.len() >= q).map(|(i, _)| i as u32).collect(),
            "str" => self.str_keys.iter().enumerate().filter(|(_, k)| k.len() >= q).map(|(i, _)| i as u32).collect(),
            _ => vec![],
        }
    }

    pub fn nkeys(&self) -> usize {
        self.bytes_keys.len()
    }

    /// number of abstract keys a step may name (the selection, if one is installed)
    pub fn key_space(&self) -> usize {
        self.key_sel.as_ref().map_or(self.bytes_keys.len(), |s| s.len())
    }

    /// Serialized form (as redb's `Value::as_bytes` produces it) of key `i` of type `kt`
    pub fn key_bytes(&self, kt: &str, i: u32) -> Vec<u8> {
        let i = self.kmap(i);
        match kt {
            "u64" => (u64::from(i) * U64_STRIDE).to_le_bytes().to_vec(),
            "bytes" => self.bytes_keys[i as usize % self.bytes_keys.len()].clone(),
            "str" => self.str_keys[i as usize % self.str_keys.len()].as_bytes().to_vec(),
            _ => panic!("unknown key type {kt}"),
        }
    }

    pub fn key_index(&self, kt: &str, bytes: &[u8]) -> i64 {
        self.kunmap(self.key_index_raw(kt, bytes))
    }

    fn key_index_raw(&self, kt: &str, bytes: &[u8]) -> i64 {
        match kt {
            "u64" => {
                if bytes.len() != 8 {
                    return -1;
                }
                let x = u64::from_le_bytes(bytes.try_into().unwrap());
                if x % U64_STRIDE == 0 { (x / U64_STRIDE) as i64 } else { -1 }
            }
            "bytes" => self.bytes_index.get(bytes).map_or(-1, |x| i64::from(*x)),
            "str" => self.str_index.get(bytes).map_or(-1, |x| i64::from(*x)),
            _ => -1,
        }
    }

    /// number of distinct idx values class `c` supports
    pub fn class_capacity(&self, c: u32) -> u32 {
        match self.vlens[c as usize] {
            0 => 1,
            1 => 256,
            2 => 65_536,
            _ => VBASE,
        }
    }

    pub fn vid(&self, class: u32, idx: u32) -> u32 {
        class * VBASE + idx % self.class_capacity(class)
    }

    /// Serialized form of value `v` of value type `vt`
    pub fn val_bytes(&self, vt: &str, v: u32) -> Vec<u8> {
        let v = match (&self.val_sel, vt) {
            (Some(sel), "bytes") => sel[v as usize],
            _ => v,
        };
        self.val_bytes_raw(vt, v)
    }

    fn val_bytes_raw(&self, vt: &str, v: u32) -> Vec<u8> {
        match vt {
            "u64" => u64::from(v).to_le_bytes().to_vec(),
            "bytes" => {
                let class = v / VBASE;
                let idx = v % VBASE;
                let len = self.vlens[class as usize];
                let mut out = vec![0u8; len];
                let idb = idx.to_le_bytes();
                for (j, b) in out.iter_mut().enumerate() {
                    *b = if j < 4 {
                        idb[j]
                    } else {
                        (idx.wrapping_mul(31).wrapping_add(j as u32 * 7).wrapping_add(class) & 0xff) as u8
                    };
                }
                out
            }
            _ => panic!("unknown value type {vt}"),
        }
    }

    pub fn val_index(&self, vt: &str, bytes: &[u8]) -> i64 {
        let raw = self.val_index_raw(vt, bytes);
        if self.val_sel.is_some() && vt == "bytes" && raw >= 0 {
            return self.val_sel_inv.get(&(raw as u32)).map_or(-1, |x| i64::from(*x));
        }
        raw
    }

    fn val_index_raw(&self, vt: &str, bytes: &[u8]) -> i64 {
        match vt {
            "u64" => {
                if bytes.len() != 8 {
                    return -1;
                }
                let x = u64::from_le_bytes(bytes.try_into().unwrap());
                if x < (1 << 31) { x as i64 } else { -1 }
            }
            "bytes" => {
                let Some(class) = self.vlen_to_class.get(&bytes.len()) else {
                    return -1;
                };
                let mut idb = [0u8; 4];
                let n = bytes.len().min(4);
                idb[..n].copy_from_slice(&bytes[..n]);
                let idx = u32::from_le_bytes(idb);
                if idx >= self.class_capacity(*class) {
                    return -1;
                }
                let v = class * VBASE + idx;
                if self.val_bytes_raw("bytes", v) == bytes { i64::from(v) } else { -1 }
            }
            _ => -1,
        }
    }
}
