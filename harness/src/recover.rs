//! What opening an image decides (RecoverOps.tla / RecoverTrace.tla).
//!
//! `pre_of` looks at the image with the independent decoder only: flags of the god byte, the two
//! slots (own checksum, transaction id, do the trees below verify), the geometry and the length
//! of the file.  `post_of` looks at the header after redb opened the image.  Which slot redb
//! chose shows in the roots the new primary carries.

use redb_decoder::{Options, allocator_state_txn, decode_header, decode_slot};
use serde_json::{Value as J, json};

const CAP: u64 = 1 << 30;

fn servable(image: &[u8], slot: usize) -> bool {
    let Ok(dec) = decode_slot(image, &Options { page_size: 0 }, slot) else { return false };
    dec["trees"].as_array().is_some_and(|trees| {
        trees.iter().all(|t| t["pages"].as_array().is_some_and(|ps| ps.iter().all(|p| p["stored_checksum"] == p["computed_checksum"])))
    })
}

fn roots(slot: &J) -> J {
    let r = |x: &J| if x.is_null() { json!(null) } else { json!([x["page"], x["checksum"]]) };
    json!([r(&slot["user_root"]), r(&slot["system_root"])])
}

/// None if the header itself cannot be decoded (no magic, too short): not an image of a created database
pub fn pre_of(image: &[u8]) -> Option<(J, J)> {
    // (the decoder is written for well-formed files; on an image it cannot cope with - it has panicked on one crash image of a
    // recovery in 20 million - there is no record for this image, the other judges of the image remain)
    std::panic::catch_unwind(|| pre_of_inner(image)).unwrap_or(None)
}

fn pre_of_inner(image: &[u8]) -> Option<(J, J)> {
    let h = decode_header(image, &Options { page_size: 0 }).ok()?;
    let p = h["page_size"].as_u64().unwrap();
    let l = &h["layout"];
    let (hp, mp) = (l["region_header_pages"].as_u64().unwrap(), l["region_max_data_pages"].as_u64().unwrap());
    let (full, trailing) = (l["full_regions"].as_u64().unwrap(), l["trailing_pages"].as_u64().unwrap());
    let len = image.len() as u64;
    let stored = l["layout_len"].as_u64().unwrap();
    let slots: Vec<J> = (0..2)
        .map(|i| {
            // a saved allocator state that belongs to this slot's commit ("unknown": the system tree cannot be read)
            let astate = match allocator_state_txn(image, &Options { page_size: 0 }, i) {
                Ok(Some(t)) if Some(t) == h["slots"][i]["txn"].as_u64() => "yes",
                Ok(_) => "no",
                Err(_) => "unknown",
            };
            json!({"hok": h["slots"][i]["checksum_ok"], "txn": h["slots"][i]["txn"].as_u64().unwrap().min(CAP), "serv": servable(image, i), "astate": astate})
        })
        .collect();
    let pre = json!({
        "rec": h["god"]["recovery_required"], "tpc": h["god"]["two_phase"], "primary": h["god"]["primary"].as_u64().unwrap() + 1,
        // lengths in pages (q) and bytes beyond (r); the stored layout's length likewise, capped
        "q": len / p, "r": len % p, "H": hp, "M": mp,
        "full": full.min(CAP), "trailing": trailing.min(CAP),
        "stored_q": (stored / p).min(CAP), "stored_r": stored % p,
        "slots": slots,
    });
    Some((pre, h))
}

/// `opened`: the first bytes of the file after a successful open, or the error's name
pub fn post_of(opened: Result<&[u8], String>, pre_header: &J) -> J {
    match opened {
        Err(name) => json!({"err": name}),
        Ok(bytes) => {
            let Ok(h) = decode_header(bytes, &Options { page_size: 0 }) else { return json!({"err": "header unreadable after open"}) };
            let slots: Vec<J> = (0..2)
                .map(|i| {
                    let eq: Vec<bool> = (0..2).map(|j| roots(&h["slots"][i]) == roots(&pre_header["slots"][j])).collect();
                    json!({"hok": h["slots"][i]["checksum_ok"], "txn": h["slots"][i]["txn"].as_u64().unwrap().min(CAP), "eq": eq})
                })
                .collect();
            json!({"err": "", "rec": h["god"]["recovery_required"], "tpc": h["god"]["two_phase"], "primary": h["god"]["primary"].as_u64().unwrap() + 1,
                   "full": h["layout"]["full_regions"], "trailing": h["layout"]["trailing_pages"], "slots": slots})
        }
    }
}
