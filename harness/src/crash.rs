//! Crash-image construction from a recorded stream of backend operations.
//!
//! Model (Storage.tla / docs/design.md "Assumptions about underlying media"): everything issued
//! before the last completed sync_data is durable; of the operations issued since, any subset may
//! have reached the medium, each write possibly torn (a prefix of its bytes, or a subset of its
//! 512-byte sectors), each set_len persisted or not; survivors apply in issue order.

use crate::backend::Op;
use rand::RngExt;
use rand::rngs::StdRng;
use serde_json::{Value as J, json};

#[derive(Clone, Debug)]
pub enum Tear {
    /// only the first `cut` bytes of the write reached the medium
    Prefix(usize),
    /// only the 512-byte sectors whose bit is set reached the medium
    Sectors(u64),
}

#[derive(Clone, Debug)]
pub struct Case {
    /// per pending operation: did it reach the medium
    pub kept: Vec<bool>,
    /// at most one pending write is torn
    pub torn: Option<(usize, Tear)>,
}

impl Case {
    pub fn to_json(&self) -> J {
        let torn = match &self.torn {
            None => json!([]),
            Some((i, Tear::Prefix(c))) => json!([i, "prefix", c]),
            Some((i, Tear::Sectors(m))) => json!([i, "sectors", m]),
        };
        json!({"kept": self.kept.iter().map(|b| u8::from(*b)).collect::<Vec<u8>>(), "torn": torn})
    }

    pub fn from_json(j: &J) -> Case {
        let kept = j["kept"].as_array().unwrap().iter().map(|x| x.as_u64().unwrap() != 0).collect();
        let t = j["torn"].as_array().unwrap();
        let torn = if t.is_empty() {
            None
        } else {
            let i = t[0].as_u64().unwrap() as usize;
            let v = t[2].as_u64().unwrap();
            Some((i, if t[1].as_str() == Some("prefix") { Tear::Prefix(v as usize) } else { Tear::Sectors(v) }))
        };
        Case { kept, torn }
    }
}

fn apply(image: &mut Vec<u8>, op: &Op, tear: Option<&Tear>) {
    match op {
        Op::Write { off, data } => {
            let off = *off as usize;
            let end = off + data.len();
            if end > image.len() {
                // a write past a length change that did not persist: the medium extends
                image.resize(end, 0);
            }
            match tear {
                None => image[off..end].copy_from_slice(data),
                Some(Tear::Prefix(cut)) => {
                    let cut = (*cut).min(data.len());
                    image[off..off + cut].copy_from_slice(&data[..cut]);
                }
                Some(Tear::Sectors(mask)) => {
                    let mut s = 0;
                    let mut pos = 0;
                    while pos < data.len() {
                        let e = (pos + 512).min(data.len());
                        if mask >> (s % 64) & 1 == 1 {
                            image[off + pos..off + e].copy_from_slice(&data[pos..e]);
                        }
                        pos = e;
                        s += 1;
                    }
                }
            }
        }
        Op::SetLen(n) => image.resize(*n as usize, 0),
        Op::Sync | Op::Close => {}
    }
}

pub fn build_image(durable: &[u8], pending: &[&Op], case: &Case) -> Vec<u8> {
    let mut image = durable.to_vec();
    for (i, op) in pending.iter().enumerate() {
        if !case.kept[i] {
            continue;
        }
        let tear = case.torn.as_ref().filter(|(t, _)| *t == i).map(|(_, t)| t);
        apply(&mut image, op, tear);
    }
    image
}

/// Crash cases for a pending list; exhaustive over subsets when it is short
pub fn enumerate_cases(pending: &[&Op], rng: &mut StdRng, exhaustive_up_to: usize, random_subsets: usize) -> Vec<Case> {
    let n = pending.len();
    let mut cases: Vec<Case> = vec![];
    if n == 0 {
        return vec![Case { kept: vec![], torn: None }];
    }
    if n <= exhaustive_up_to {
        for m in 0..(1u64 << n) {
            cases.push(Case { kept: (0..n).map(|i| m >> i & 1 == 1).collect(), torn: None });
        }
    } else {
        cases.push(Case { kept: vec![false; n], torn: None });
        cases.push(Case { kept: vec![true; n], torn: None });
        for i in 0..n {
            let mut k = vec![true; n];
            k[i] = false;
            cases.push(Case { kept: k, torn: None });
            let mut k = vec![false; n];
            k[i] = true;
            cases.push(Case { kept: k, torn: None });
        }
        // prefixes in issue order (a device that persists in order)
        for i in 1..n {
            cases.push(Case { kept: (0..n).map(|j| j < i).collect(), torn: None });
        }
        for _ in 0..random_subsets {
            let p = rng.random_range(1..10);
            cases.push(Case { kept: (0..n).map(|_| rng.random_range(0..10) < p).collect(), torn: None });
        }
    }
    // tears: each write torn, with everything else kept / dropped / random
    for (i, op) in pending.iter().enumerate() {
        let Op::Write { off, data } = op else { continue };
        let len = data.len();
        let mut tears = vec![Tear::Prefix(1), Tear::Prefix(len / 2), Tear::Prefix(len - 1)];
        if *off == 0 {
            // the header: magic | god byte (9) | layout (..64) | slot 0 (64..192) | slot 1 (192..320)
            for c in [9usize, 10, 24, 63, 64, 100, 176, 191, 192, 200, 304, 319] {
                if c < len {
                    tears.push(Tear::Prefix(c));
                }
            }
        }
        if len > 512 {
            let sectors = len.div_ceil(512);
            for _ in 0..3 {
                tears.push(Tear::Sectors(rng.random_range(1..(1u64 << sectors.min(63)) - 1)));
            }
        }
        for t in tears {
            for others in 0..3 {
                let mut kept: Vec<bool> = match others {
                    0 => vec![true; n],
                    1 => vec![false; n],
                    _ => (0..n).map(|_| rng.random_range(0..2) == 0).collect(),
                };
                kept[i] = true;
                cases.push(Case { kept, torn: Some((i, t.clone())) });
            }
        }
    }
    cases
}

/// Walks the op log: calls `f(c, durable, pending)` for every crash point c (= number of
/// operations issued, 0..=len), where `durable` is the image as of the last completed sync
pub fn for_each_crash_point(base: &[u8], log: &[Op], mut f: impl FnMut(usize, &[u8], &[&Op])) {
    let mut durable = base.to_vec();
    let mut pending: Vec<&Op> = vec![];
    f(0, &durable, &pending);
    for (i, op) in log.iter().enumerate() {
        match op {
            Op::Sync => {
                for p in pending.drain(..) {
                    apply(&mut durable, p, None);
                }
            }
            Op::Close => {}
            _ => pending.push(op),
        }
        f(i + 1, &durable, &pending);
    }
}
