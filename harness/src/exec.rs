//! Script executor: runs steps (JSON) against the real redb through its public API and returns
//! the events (the step plus the observed result) that KvTrace.tla judges.

use crate::backend::{FaultMode, Store};
use crate::codec::Ctx;
use redb::{
    Builder, Database, Durability, Key, MultimapTable, MultimapTableDefinition, ReadTransaction,
    ReadableDatabase, ReadableMultimapTable, ReadableTable, ReadableTableMetadata, Savepoint,
    Table, TableDefinition, Value, WriteTransaction,
};
use serde_json::{Value as J, json};
use std::collections::{BTreeMap, HashMap};
use std::ops::Bound;
use std::panic::{AssertUnwindSafe, catch_unwind};
use std::sync::Arc;

#[derive(Clone, Debug)]
pub struct Config {
    pub seed: u64,
    pub page_size: usize,
    pub region_size: Option<u64>,
    pub cache_size: usize,
    pub nkeys: usize,
    pub vlens: Vec<usize>,
    /// transition tours: abstract key -> corpus index, abstract value -> value id
    pub sel: Option<(Vec<u32>, Vec<u32>)>,
}

impl Config {
    pub fn small(seed: u64) -> Config {
        Config {
            seed,
            page_size: 512,
            region_size: None,
            cache_size: 1 << 20,
            nkeys: 64,
            vlens: default_vlens(512),
            sel: None,
        }
    }

    pub fn ctx(&self) -> Ctx {
        let cx = Ctx::new(self.seed, self.page_size, self.nkeys, self.vlens.clone());
        match &self.sel {
            Some((k, v)) => cx.with_selection(k.clone(), v.clone()),
            None => cx,
        }
    }

    pub fn to_json(&self) -> J {
        json!({"seed": self.seed, "page_size": self.page_size, "region_size": self.region_size.unwrap_or(0),
               "cache_size": self.cache_size, "nkeys": self.nkeys, "vlens": self.vlens,
               "key_sel": self.sel.as_ref().map(|s| s.0.clone()).unwrap_or_default(),
               "val_sel": self.sel.as_ref().map(|s| s.1.clone()).unwrap_or_default()})
    }

    pub fn from_json(j: &J) -> Config {
        Config {
            seed: j["seed"].as_u64().unwrap(),
            page_size: j["page_size"].as_u64().unwrap() as usize,
            region_size: j["region_size"].as_u64().filter(|x| *x > 0),
            cache_size: j["cache_size"].as_u64().unwrap() as usize,
            nkeys: j["nkeys"].as_u64().unwrap() as usize,
            vlens: j["vlens"].as_array().unwrap().iter().map(|x| x.as_u64().unwrap() as usize).collect(),
            sel: {
                let f = |k: &str| -> Vec<u32> { j[k].as_array().map(|a| a.iter().map(|x| x.as_u64().unwrap() as u32).collect()).unwrap_or_default() };
                if f("key_sel").is_empty() { None } else { Some((f("key_sel"), f("val_sel"))) }
            },
        }
    }
}

/// Value length classes straddling the byte-exact thresholds of the B-tree code for page size p
/// (leaf full / merge threshold at p/3 / "single large value" at >= p), plus tiny and multi-page
pub fn default_vlens(p: usize) -> Vec<usize> {
    let mut v = vec![0, 1, 2, 8, 24, p / 3 - 20, p / 3 - 1, p / 3 + 8, p / 2 - 12, p / 2 + 9, p - 40, p - 16, p, p + 1, 2 * p + 5, 5 * p + 3];
    v.dedup();
    let mut seen = std::collections::HashSet::new();
    v.retain(|x| seen.insert(*x));
    v
}

pub fn err_name(e: &redb::Error) -> &'static str {
    use redb::Error as E;
    match e {
        E::DatabaseAlreadyOpen => "DatabaseAlreadyOpen",
        E::InvalidSavepoint => "InvalidSavepoint",
        E::ImmediateDurabilityRequired => "ImmediateDurabilityRequired",
        E::RepairAborted => "RepairAborted",
        E::PersistentSavepointModified => "PersistentSavepointModified",
        E::PersistentSavepointExists => "PersistentSavepointExists",
        E::EphemeralSavepointExists => "EphemeralSavepointExists",
        E::TransactionInProgress => "TransactionInProgress",
        E::TransactionPoisoned => "TransactionPoisoned",
        E::Corrupted(_) => "Corrupted",
        E::UpgradeRequired(_) => "UpgradeRequired",
        E::ValueTooLarge(_) => "ValueTooLarge",
        #[cfg(feature = "cursor")]
        E::UnorderedKey => "UnorderedKey",
        E::TableTypeMismatch { .. } => "TableTypeMismatch",
        E::TableIsMultimap(_) => "TableIsMultimap",
        E::TableIsNotMultimap(_) => "TableIsNotMultimap",
        E::TypeDefinitionChanged { .. } => "TypeDefinitionChanged",
        E::TableDoesNotExist(_) => "TableDoesNotExist",
        E::TableExists(_) => "TableExists",
        E::TableAlreadyOpen(_, _) => "TableAlreadyOpen",
        E::Io(_) => "Io",
        E::DatabaseClosed => "DatabaseClosed",
        E::PreviousIo => "PreviousIo",
        E::LockPoisoned(_) => "LockPoisoned",
        E::ReadTransactionStillInUse(_) => "ReadTransactionStillInUse",
        _ => "Other",
    }
}

fn ok(x: J) -> J {
    json!({ "ok": x })
}

fn er<E: Into<redb::Error>>(e: E) -> J {
    let e: redb::Error = e.into();
    json!({"err": err_name(&e), "msg": e.to_string()})
}

macro_rules! tr {
    ($e:expr) => {
        match $e {
            Ok(x) => x,
            Err(e) => return er(e),
        }
    };
}

fn bound_of<'a>(b: &J, kt: &str, cx: &Ctx, store: &'a mut Vec<u8>) -> Bound<&'a [u8]> {
    match b["t"].as_str().unwrap() {
        "u" => Bound::Unbounded,
        t => {
            *store = cx.key_bytes(kt, b["k"].as_u64().unwrap() as u32);
            if t == "i" { Bound::Included(store.as_slice()) } else { Bound::Excluded(store.as_slice()) }
        }
    }
}

fn is_unbounded(b: &J) -> bool {
    b["t"].as_str() == Some("u")
}

fn kb<'a, K: Key + 'static>(b: Bound<&'a [u8]>) -> Bound<K::SelfType<'a>> {
    match b {
        Bound::Unbounded => Bound::Unbounded,
        Bound::Included(x) => Bound::Included(K::from_bytes(x)),
        Bound::Excluded(x) => Bound::Excluded(K::from_bytes(x)),
    }
}

// ---------------------------------------------------------------------------------------------
// Generic read operations over anything that is a ReadableTable

fn r_get<K: Key + 'static, V: Value + 'static, T: ReadableTable<K, V>>(
    t: &T, cx: &Ctx, kt: &str, vt: &str, k: u32,
) -> J {
    let kbuf = cx.key_bytes(kt, k);
    match tr!(t.get(K::from_bytes(&kbuf))) {
        Some(g) => ok(json!([cx.val_index(vt, V::as_bytes(&g.value()).as_ref())])),
        None => ok(json!([])),
    }
}

fn pair_json<K: Key + 'static, V: Value + 'static>(
    cx: &Ctx, kt: &str, vt: &str, k: &redb::AccessGuard<'_, K>, v: &redb::AccessGuard<'_, V>,
) -> J {
    json!([
        cx.key_index(kt, K::as_bytes(&k.value()).as_ref()),
        cx.val_index(vt, V::as_bytes(&v.value()).as_ref())
    ])
}

fn r_edge<K: Key + 'static, V: Value + 'static, T: ReadableTable<K, V>>(
    t: &T, cx: &Ctx, kt: &str, vt: &str, last: bool,
) -> J {
    let r = if last { t.last() } else { t.first() };
    match tr!(r) {
        Some((k, v)) => ok(pair_json::<K, V>(cx, kt, vt, &k, &v)),
        None => ok(json!([])),
    }
}

// a read-only gap cursor session: position, then peeks and moves; one result per operation
#[cfg(feature = "cursor")]
fn r_cursor<K: Key + 'static, V: Value + 'static, T: ReadableTable<K, V>>(t: &T, cx: &Ctx, kt: &str, vt: &str, op: &J) -> J {
    let mut s1 = vec![];
    let b = kb::<K>(bound_of(&op["b"], kt, cx, &mut s1));
    let mut cur = tr!(if op["upper"].as_bool().unwrap() { t.upper_bound(b) } else { t.lower_bound(b) });
    let mut rs = vec![];
    for o in op["ops"].as_array().unwrap() {
        let r = match o.as_str().unwrap() {
            "peek_next" => cur.peek_next(),
            "peek_prev" => cur.peek_prev(),
            "next" => cur.next(),
            "prev" => cur.prev(),
            other => panic!("HARNESS: unknown read cursor op {other}"),
        };
        rs.push(match r {
            Ok(Some((k, v))) => ok(pair_json::<K, V>(cx, kt, vt, &k, &v)),
            Ok(None) => ok(json!([])),
            Err(e) => er(e),
        });
    }
    json!({"rs": rs})
}
#[cfg(not(feature = "cursor"))]
fn r_cursor<K: Key + 'static, V: Value + 'static, T: ReadableTable<K, V>>(_: &T, _: &Ctx, _: &str, _: &str, _: &J) -> J {
    panic!("HARNESS: cursor steps need the harness built with --features cursor")
}

// consume up to cnt items of a double-ended iterator, starting at the back iff rev, alternating iff alt
fn take_de<K: Key + 'static, V: Value + 'static, I>(
    it: &mut I, cx: &Ctx, kt: &str, vt: &str, cnt: u64, rev: bool, alt: bool,
) -> Result<Vec<J>, redb::StorageError>
where
    I: DoubleEndedIterator<Item = Result<(redb::AccessGuard<'static, K>, redb::AccessGuard<'static, V>), redb::StorageError>>,
{
    let mut out = vec![];
    let mut back = rev;
    for _ in 0..cnt {
        let item = if back { it.next_back() } else { it.next() };
        if alt {
            back = !back;
        }
        match item {
            None => break,
            Some(x) => {
                let (k, v) = x?;
                out.push(pair_json::<K, V>(cx, kt, vt, &k, &v));
            }
        }
    }
    Ok(out)
}

fn r_range<K: Key + 'static, V: Value + 'static, T: ReadableTable<K, V>>(
    t: &T, cx: &Ctx, kt: &str, vt: &str, op: &J,
) -> J {
    let (mut s1, mut s2) = (vec![], vec![]);
    let lo = bound_of(&op["lo"], kt, cx, &mut s1);
    let hi = bound_of(&op["hi"], kt, cx, &mut s2);
    let cnt = op["cnt"].as_u64().unwrap();
    let rev = op["rev"].as_bool().unwrap();
    let alt = op["alt"].as_bool().unwrap();
    // Rust's BTreeMap panics on inverted ranges; redb documents nothing, the oracle says "empty"
    let mut it = tr!(t.range((kb::<K>(lo), kb::<K>(hi))));
    let mut out = vec![];
    let mut back = rev;
    for _ in 0..cnt {
        let item = if back { it.next_back() } else { it.next() };
        if alt {
            back = !back;
        }
        match item {
            None => break,
            Some(x) => {
                let (k, v) = tr!(x);
                out.push(pair_json::<K, V>(cx, kt, vt, &k, &v));
            }
        }
    }
    ok(J::Array(out))
}

fn dump_table<K: Key + 'static, V: Value + 'static, T: ReadableTable<K, V>>(
    t: &T, cx: &Ctx, kt: &str, vt: &str,
) -> Result<Vec<J>, redb::Error> {
    let mut out = vec![];
    for x in t.iter()? {
        let (k, v) = x?;
        out.push(pair_json::<K, V>(cx, kt, vt, &k, &v));
    }
    Ok(out)
}

fn mm_values<V: Key + 'static>(
    cx: &Ctx, vt: &str, it: redb::MultimapValue<'_, V>,
) -> Result<Vec<J>, redb::StorageError> {
    let mut out = vec![];
    for x in it {
        let g = x?;
        out.push(json!(cx.key_index(vt, V::as_bytes(&g.value()).as_ref())));
    }
    Ok(out)
}

fn m_get<K: Key + 'static, V: Key + 'static, T: ReadableMultimapTable<K, V>>(
    t: &T, cx: &Ctx, kt: &str, vt: &str, k: u32,
) -> J {
    let kbuf = cx.key_bytes(kt, k);
    let it = tr!(t.get(K::from_bytes(&kbuf)));
    let n = it.len();
    let vals = tr!(mm_values::<V>(cx, vt, it));
    ok(json!([vals, n]))
}

fn m_range<K: Key + 'static, V: Key + 'static, T: ReadableMultimapTable<K, V>>(
    t: &T, cx: &Ctx, kt: &str, vt: &str, lo: &J, hi: &J, rev: bool,
) -> J {
    let (mut s1, mut s2) = (vec![], vec![]);
    let lo = bound_of(lo, kt, cx, &mut s1);
    let hi = bound_of(hi, kt, cx, &mut s2);
    let mut it = tr!(t.range((kb::<K>(lo), kb::<K>(hi))));
    let mut out = vec![];
    loop {
        let item = if rev { it.next_back() } else { it.next() };
        match item {
            None => break,
            Some(x) => {
                let (k, vals) = tr!(x);
                let ki = cx.key_index(kt, K::as_bytes(&k.value()).as_ref());
                out.push(json!([ki, tr!(mm_values::<V>(cx, vt, vals))]));
            }
        }
    }
    ok(J::Array(out))
}

fn dump_mtable<K: Key + 'static, V: Key + 'static, T: ReadableMultimapTable<K, V>>(
    t: &T, cx: &Ctx, kt: &str, vt: &str,
) -> Result<Vec<J>, redb::Error> {
    let mut out = vec![];
    for x in t.iter()? {
        let (k, vals) = x?;
        let ki = cx.key_index(kt, K::as_bytes(&k.value()).as_ref());
        out.push(json!([ki, mm_values::<V>(cx, vt, vals)?]));
    }
    Ok(out)
}

// ---------------------------------------------------------------------------------------------
// Write handles

pub trait Reserve<K: Key + 'static>: Value + 'static + Sized {
    fn reserve(t: &mut Table<'static, K, Self>, kbuf: &[u8], vbuf: &[u8]) -> Option<Result<(), redb::StorageError>>;
}

impl<K: Key + 'static> Reserve<K> for &'static [u8] {
    fn reserve(t: &mut Table<'static, K, Self>, kbuf: &[u8], vbuf: &[u8]) -> Option<Result<(), redb::StorageError>> {
        Some(t.insert_reserve(K::from_bytes(kbuf), vbuf.len()).map(|mut g| {
            g.as_mut().copy_from_slice(vbuf);
        }))
    }
}

impl<K: Key + 'static> Reserve<K> for u64 {
    fn reserve(_: &mut Table<'static, K, Self>, _: &[u8], _: &[u8]) -> Option<Result<(), redb::StorageError>> {
        None
    }
}

pub trait WHandle {
    fn op(&mut self, cx: &Ctx, op: &J) -> J;
}

struct WT<K: Key + 'static, V: Reserve<K>> {
    t: Table<'static, K, V>,
    kt: String,
    vt: String,
}

fn pred_of(p: &J) -> (u64, u64) {
    (p["m"].as_u64().unwrap(), p["r"].as_u64().unwrap())
}

thread_local! {
    /// calls of the predicate left before it panics (steps with "panic_at": C05, a panicking predicate)
    static PRED_CALLS_LEFT: std::cell::Cell<Option<u64>> = const { std::cell::Cell::new(None) };
}

fn pred_tick() {
    PRED_CALLS_LEFT.with(|c| {
        if let Some(n) = c.get() {
            if n == 0 {
                c.set(None);
                panic!("the predicate panics (injected by the harness)");
            }
            c.set(Some(n - 1));
        }
    });
}

impl<K: Key + 'static, V: Reserve<K>> WHandle for WT<K, V> {
    fn op(&mut self, cx: &Ctx, op: &J) -> J {
        if let Some(n) = op.get("p").and_then(|p| p.get("panic_at")).and_then(|x| x.as_u64()) {
            PRED_CALLS_LEFT.with(|c| c.set(Some(n)));
            let r = catch_unwind(AssertUnwindSafe(|| self.op_inner(cx, op)));
            let fired = PRED_CALLS_LEFT.with(|c| c.replace(None)).is_none();
            return match r {
                Ok(j) => j,
                Err(p) if fired => {
                    let _ = p;
                    json!({"predpanic": true})
                }
                Err(p) => std::panic::resume_unwind(p),
            };
        }
        self.op_inner(cx, op)
    }
}

impl<K: Key + 'static, V: Reserve<K>> WT<K, V> {
    fn op_inner(&mut self, cx: &Ctx, op: &J) -> J {
        let kt = self.kt.as_str();
        let vt = self.vt.as_str();
        let kbuf = op.get("k").and_then(|k| k.as_u64()).map(|k| cx.key_bytes(kt, k as u32)).unwrap_or_default();
        let vbuf = op.get("v").and_then(|v| v.as_u64()).map(|v| cx.val_bytes(vt, v as u32)).unwrap_or_default();
        let vi = |bytes: &[u8]| cx.val_index(vt, bytes);
        match op["e"].as_str().unwrap() {
            "ins" => {
                let prev = tr!(self.t.insert(K::from_bytes(&kbuf), V::from_bytes(&vbuf)));
                match prev {
                    Some(g) => ok(json!([vi(V::as_bytes(&g.value()).as_ref())])),
                    None => ok(json!([])),
                }
            }
            "insr" => match V::reserve(&mut self.t, &kbuf, &vbuf) {
                Some(r) => {
                    tr!(r);
                    ok(json!(0))
                }
                None => {
                    // value type without in-place support: plain insert, result discarded
                    tr!(self.t.insert(K::from_bytes(&kbuf), V::from_bytes(&vbuf)));
                    ok(json!(0))
                }
            },
            "getmut" => match tr!(self.t.get_mut(K::from_bytes(&kbuf))) {
                Some(mut g) => {
                    let old = vi(V::as_bytes(&g.value()).as_ref());
                    tr!(g.insert(V::from_bytes(&vbuf)));
                    ok(json!([old]))
                }
                None => ok(json!([])),
            },
            "entry" => {
                let variant = op["variant"].as_str().unwrap();
                let entry = tr!(self.t.entry(K::from_bytes(&kbuf)));
                let occ = matches!(entry, redb::Entry::Occupied(_));
                let val: i64 = match variant {
                    "or_insert" => {
                        let g = tr!(entry.or_insert(V::from_bytes(&vbuf)));
                        vi(V::as_bytes(&g.value()).as_ref())
                    }
                    "and_modify_or_insert" => {
                        let e2 = tr!(entry.and_modify(|g| g.insert(V::from_bytes(&vbuf))));
                        let g = tr!(e2.or_insert(V::from_bytes(&vbuf)));
                        vi(V::as_bytes(&g.value()).as_ref())
                    }
                    "occ_insert" => match entry {
                        redb::Entry::Occupied(mut o) => {
                            let g = tr!(o.insert(V::from_bytes(&vbuf)));
                            vi(V::as_bytes(&g.value()).as_ref())
                        }
                        redb::Entry::Vacant(_) => vi(&vbuf),
                    },
                    "occ_remove" => match entry {
                        redb::Entry::Occupied(o) => {
                            let g = tr!(o.remove());
                            vi(V::as_bytes(&g.value()).as_ref())
                        }
                        redb::Entry::Vacant(_) => vi(&vbuf),
                    },
                    "vac_insert" => match entry {
                        redb::Entry::Occupied(o) => {
                            let g = tr!(o.get());
                            vi(V::as_bytes(&g.value()).as_ref())
                        }
                        redb::Entry::Vacant(v) => {
                            let g = tr!(v.insert(V::from_bytes(&vbuf)));
                            vi(V::as_bytes(&g.value()).as_ref())
                        }
                    },
                    _ => panic!("unknown entry variant"),
                };
                ok(json!([occ, val]))
            }
            #[cfg(feature = "cursor")]
            "cursor" => {
                let mut s1 = vec![];
                let b = kb::<K>(bound_of(&op["b"], kt, cx, &mut s1));
                let upper = op["upper"].as_bool().unwrap();
                let mut evs = vec![];
                {
                let mut cur = match if upper { self.t.upper_bound_mut(b) } else { self.t.lower_bound_mut(b) } {
                    Ok(c) => c,
                    Err(e) => return json!({"multi": [{"e": "cur_open", "n": op["n"], "b": op["b"], "upper": upper, "r": er(e)}]}),
                };
                evs.push(json!({"e": "cur_open", "n": op["n"], "b": op["b"], "upper": upper, "r": ok(json!(0))}));
                for o in op["ops"].as_array().unwrap() {
                    let name = o["op"].as_str().unwrap();
                    let k = o.get("k").and_then(|k| k.as_u64()).unwrap_or(0);
                    let v = o.get("v").and_then(|v| v.as_u64()).unwrap_or(0);
                    let entry = |r: Result<Option<(redb::AccessGuard<'_, K>, redb::AccessGuard<'_, V>)>, redb::StorageError>| match r {
                        Ok(Some((k, v))) => ok(pair_json::<K, V>(cx, kt, vt, &k, &v)),
                        Ok(None) => ok(json!([])),
                        Err(e) => er(e),
                    };
                    let r = match name {
                        "peek_next" => entry(cur.peek_next()),
                        "peek_prev" => entry(cur.peek_prev()),
                        "next" => entry(cur.next()),
                        "prev" => entry(cur.prev()),
                        "rem_next" => entry(cur.remove_next()),
                        "rem_prev" => entry(cur.remove_prev()),
                        "ins_before" | "ins_after" => {
                            let kbuf = cx.key_bytes(kt, k as u32);
                            let vbuf = cx.val_bytes(vt, v as u32);
                            let r = if name == "ins_before" {
                                cur.insert_before(K::from_bytes(&kbuf), V::from_bytes(&vbuf))
                            } else {
                                cur.insert_after(K::from_bytes(&kbuf), V::from_bytes(&vbuf))
                            };
                            match r {
                                Ok(()) => ok(json!(0)),
                                Err(e) => er(e),
                            }
                        }
                        other => panic!("HARNESS: unknown cursor op {other}"),
                    };
                    evs.push(json!({"e": "cur", "op": name, "k": k, "v": v, "r": r}));
                }
                let r = if op["end"].as_str() == Some("drop") {
                    drop(cur);
                    ok(json!(0))
                } else {
                    match cur.close() {
                        Ok(()) => ok(json!(0)),
                        Err(e) => er(e),
                    }
                };
                evs.push(json!({"e": "cur_close", "end": op["end"], "r": r}));
                }
                // "after close() the table equals the sorted map": every key the cursor accepted (and its neighbours in
                // the corpus) is looked up by key - a scan alone does not notice an entry that routing no longer reaches
                let mut probe: Vec<u64> = vec![];
                for ev in &evs {
                    if ev["e"] == "cur" && ev["op"].as_str().is_some_and(|o| o.starts_with("ins")) && ev["r"].get("ok").is_some() {
                        let k = ev["k"].as_u64().unwrap();
                        probe.extend([k.saturating_sub(1), k, k + 1]);
                    }
                }
                probe.sort_unstable();
                probe.dedup();
                probe.retain(|k| (*k as usize) < cx.key_space());
                if op.get("verify").and_then(|v| v.as_bool()).unwrap_or(true) {
                    for k in probe.into_iter().take(64) {
                        let r = r_get::<K, V, _>(&self.t, cx, kt, vt, k as u32);
                        evs.push(json!({"e": "get", "src": "w", "n": op["n"], "k": k, "r": r}));
                    }
                }
                json!({"multi": evs})
            }
            "rcursor" => r_cursor::<K, V, _>(&self.t, cx, kt, vt, op),
            "rem" => match tr!(self.t.remove(K::from_bytes(&kbuf))) {
                Some(g) => ok(json!([vi(V::as_bytes(&g.value()).as_ref())])),
                None => ok(json!([])),
            },
            "pop" => {
                let last = op["last"].as_bool().unwrap();
                let r = if last { self.t.pop_last() } else { self.t.pop_first() };
                match tr!(r) {
                    Some((k, v)) => ok(pair_json::<K, V>(cx, kt, vt, &k, &v)),
                    None => ok(json!([])),
                }
            }
            "retain" => {
                let (m, r) = pred_of(&op["p"]);
                let keep = |k: K::SelfType<'_>, _: V::SelfType<'_>| {
                    pred_tick();
                    let i = cx.key_index(kt, K::as_bytes(&k).as_ref());
                    i >= 0 && (i as u64) % m == r
                };
                if is_unbounded(&op["lo"]) && is_unbounded(&op["hi"]) {
                    tr!(self.t.retain(keep));
                } else {
                    let (mut s1, mut s2) = (vec![], vec![]);
                    let lo = bound_of(&op["lo"], kt, cx, &mut s1);
                    let hi = bound_of(&op["hi"], kt, cx, &mut s2);
                    tr!(self.t.retain_in((kb::<K>(lo), kb::<K>(hi)), keep));
                }
                ok(json!(0))
            }
            "extract" => {
                let (m, r) = pred_of(&op["p"]);
                let cnt = op["cnt"].as_u64().unwrap();
                let rev = op["rev"].as_bool().unwrap();
                let alt = op["alt"].as_bool().unwrap();
                let pred = |k: K::SelfType<'_>, _: V::SelfType<'_>| {
                    pred_tick();
                    let i = cx.key_index(kt, K::as_bytes(&k).as_ref());
                    i >= 0 && (i as u64) % m == r
                };
                let (mut s1, mut s2) = (vec![], vec![]);
                let mut out = vec![];
                let mut consume = |it: &mut dyn DoubleEndedIterator<Item = Result<(redb::AccessGuard<'_, K>, redb::AccessGuard<'_, V>), redb::StorageError>>| -> Result<(), redb::StorageError> {
                    let mut back = rev;
                    for _ in 0..cnt {
                        let item = if back { it.next_back() } else { it.next() };
                        if alt {
                            back = !back;
                        }
                        match item {
                            None => break,
                            Some(x) => {
                                let (k, v) = x?;
                                out.push(pair_json::<K, V>(cx, kt, vt, &k, &v));
                            }
                        }
                    }
                    Ok(())
                };
                if is_unbounded(&op["lo"]) && is_unbounded(&op["hi"]) {
                    let mut it = tr!(self.t.extract_if(pred));
                    tr!(consume(&mut it));
                    tr!(it.close());
                } else {
                    let lo = bound_of(&op["lo"], kt, cx, &mut s1);
                    let hi = bound_of(&op["hi"], kt, cx, &mut s2);
                    let mut it = tr!(self.t.extract_from_if((kb::<K>(lo), kb::<K>(hi)), pred));
                    tr!(consume(&mut it));
                    tr!(it.close());
                }
                ok(J::Array(out))
            }
            "get" => r_get::<K, V, _>(&self.t, cx, kt, vt, op["k"].as_u64().unwrap() as u32),
            "len" => ok(json!(tr!(self.t.len()))),
            "edge" => r_edge::<K, V, _>(&self.t, cx, kt, vt, op["last"].as_bool().unwrap()),
            "range" => r_range::<K, V, _>(&self.t, cx, kt, vt, op),
            other => panic!("unsupported table op {other}"),
        }
    }
}

struct WM<K: Key + 'static, V: Key + 'static> {
    t: MultimapTable<'static, K, V>,
    kt: String,
    vt: String,
}

impl<K: Key + 'static, V: Key + 'static> WHandle for WM<K, V> {
    fn op(&mut self, cx: &Ctx, op: &J) -> J {
        let kt = self.kt.as_str();
        let vt = self.vt.as_str();
        let kbuf = op.get("k").and_then(|k| k.as_u64()).map(|k| cx.key_bytes(kt, k as u32)).unwrap_or_default();
        let vbuf = op.get("v").and_then(|v| v.as_u64()).map(|v| cx.key_bytes(vt, v as u32)).unwrap_or_default();
        match op["e"].as_str().unwrap() {
            "mins" => ok(json!(tr!(self.t.insert(K::from_bytes(&kbuf), V::from_bytes(&vbuf))))),
            "mrem" => ok(json!(tr!(self.t.remove(K::from_bytes(&kbuf), V::from_bytes(&vbuf))))),
            "mremall" => {
                let it = tr!(self.t.remove_all(K::from_bytes(&kbuf)));
                ok(J::Array(tr!(mm_values::<V>(cx, vt, it))))
            }
            "mget" => m_get::<K, V, _>(&self.t, cx, kt, vt, op["k"].as_u64().unwrap() as u32),
            "mrange" => m_range::<K, V, _>(&self.t, cx, kt, vt, &op["lo"], &op["hi"], op["rev"].as_bool().unwrap()),
            "len" => ok(json!(tr!(self.t.len()))),
            other => panic!("unsupported multimap op {other}"),
        }
    }
}

pub trait HeldIter {
    fn next_n(&mut self, cx: &Ctx, cnt: u64, rev: bool) -> J;
}

struct Held<K: Key + 'static, V: Value + 'static, I> {
    it: I,
    kt: String,
    vt: String,
    _p: std::marker::PhantomData<(K, V)>,
}

impl<K: Key + 'static, V: Value + 'static, I> HeldIter for Held<K, V, I>
where
    I: DoubleEndedIterator<Item = Result<(redb::AccessGuard<'static, K>, redb::AccessGuard<'static, V>), redb::StorageError>>,
{
    fn next_n(&mut self, cx: &Ctx, cnt: u64, rev: bool) -> J {
        let out = tr!(take_de::<K, V, _>(&mut self.it, cx, &self.kt, &self.vt, cnt, rev, false));
        ok(J::Array(out))
    }
}

/// an untyped table handle of either kind: what it answers (len and every field of stats()), or the error
pub enum UntypedHandle {
    T(redb::ReadOnlyUntypedTable),
    M(redb::ReadOnlyUntypedMultimapTable),
}

impl UntypedHandle {
    fn answers(&self) -> J {
        use redb::ReadableTableMetadata;
        let r = match self {
            UntypedHandle::T(t) => t.len().and_then(|l| t.stats().map(|s| (l, s))),
            UntypedHandle::M(t) => t.len().and_then(|l| t.stats().map(|s| (l, s))),
        };
        match r {
            Ok((l, s)) => json!({"ok": [l, s.tree_height(), s.leaf_pages(), s.branch_pages(), s.stored_bytes(), s.metadata_bytes(), s.fragmented_bytes()]}),
            Err(e) => {
                let e: redb::Error = e.into();
                json!({"err": err_name(&e)})
            }
        }
    }
}

pub const TABLE_TYPES: [(&str, &str); 6] =
    [("u64", "bytes"), ("u64", "u64"), ("bytes", "bytes"), ("bytes", "u64"), ("str", "bytes"), ("str", "u64")];
pub const MULTIMAP_TYPES: [(&str, &str); 4] = [("u64", "u64"), ("u64", "bytes"), ("bytes", "bytes"), ("bytes", "u64")];

macro_rules! dispatch_t {
    ($kt:expr, $vt:expr, $f:ident ( $($args:expr),* )) => {
        match ($kt, $vt) {
            ("u64", "bytes") => $f::<u64, &'static [u8]>($($args),*),
            ("u64", "u64") => $f::<u64, u64>($($args),*),
            ("bytes", "bytes") => $f::<&'static [u8], &'static [u8]>($($args),*),
            ("bytes", "u64") => $f::<&'static [u8], u64>($($args),*),
            ("str", "bytes") => $f::<&'static str, &'static [u8]>($($args),*),
            ("str", "u64") => $f::<&'static str, u64>($($args),*),
            (a, b) => panic!("unsupported table types {a} {b}"),
        }
    };
}

macro_rules! dispatch_m {
    ($kt:expr, $vt:expr, $f:ident ( $($args:expr),* )) => {
        match ($kt, $vt) {
            ("u64", "u64") => $f::<u64, u64>($($args),*),
            ("u64", "bytes") => $f::<u64, &'static [u8]>($($args),*),
            ("bytes", "bytes") => $f::<&'static [u8], &'static [u8]>($($args),*),
            ("bytes", "u64") => $f::<&'static [u8], u64>($($args),*),
            (a, b) => panic!("unsupported multimap types {a} {b}"),
        }
    };
}

fn open_w<K: Key + 'static, V: Reserve<K>>(
    txn: &'static WriteTransaction, n: &str, kt: &str, vt: &str,
) -> Result<Box<dyn WHandle>, redb::TableError> {
    let def: TableDefinition<K, V> = TableDefinition::new(n);
    // the definition borrows the name only for the call
    let t = txn.open_table(def)?;
    Ok(Box::new(WT::<K, V> { t, kt: kt.to_string(), vt: vt.to_string() }))
}

fn open_wm<K: Key + 'static, V: Key + 'static>(
    txn: &'static WriteTransaction, n: &str, kt: &str, vt: &str,
) -> Result<Box<dyn WHandle>, redb::TableError> {
    let def: MultimapTableDefinition<K, V> = MultimapTableDefinition::new(n);
    let t = txn.open_multimap_table(def)?;
    Ok(Box::new(WM::<K, V> { t, kt: kt.to_string(), vt: vt.to_string() }))
}

fn ro_op<K: Key + 'static, V: Value + 'static>(
    rt: &ReadTransaction, cx: &Ctx, n: &str, kt: &str, vt: &str, op: &J,
) -> J {
    let def: TableDefinition<K, V> = TableDefinition::new(n);
    let t = tr!(rt.open_table(def));
    match op["e"].as_str().unwrap() {
        "ropen" => ok(json!(0)),
        "get" => {
            // alternate between the borrowed and the owned accessor
            let k = op["k"].as_u64().unwrap() as u32;
            if k % 2 == 0 {
                r_get::<K, V, _>(&t, cx, kt, vt, k)
            } else {
                let kbuf = cx.key_bytes(kt, k);
                match tr!(t.get_owned(K::from_bytes(&kbuf))) {
                    Some(g) => ok(json!([cx.val_index(vt, V::as_bytes(&g.value()).as_ref())])),
                    None => ok(json!([])),
                }
            }
        }
        "len" => ok(json!(tr!(t.len()))),
        "edge" => r_edge::<K, V, _>(&t, cx, kt, vt, op["last"].as_bool().unwrap()),
        "range" => r_range::<K, V, _>(&t, cx, kt, vt, op),
        "rcursor" => r_cursor::<K, V, _>(&t, cx, kt, vt, op),
        other => panic!("unsupported read op {other}"),
    }
}

fn ro_mop<K: Key + 'static, V: Key + 'static>(
    rt: &ReadTransaction, cx: &Ctx, n: &str, kt: &str, vt: &str, op: &J,
) -> J {
    let def: MultimapTableDefinition<K, V> = MultimapTableDefinition::new(n);
    let t = tr!(rt.open_multimap_table(def));
    match op["e"].as_str().unwrap() {
        "ropen" => ok(json!(0)),
        "mget" => m_get::<K, V, _>(&t, cx, kt, vt, op["k"].as_u64().unwrap() as u32),
        "mrange" => m_range::<K, V, _>(&t, cx, kt, vt, &op["lo"], &op["hi"], op["rev"].as_bool().unwrap()),
        "len" => ok(json!(tr!(t.len()))),
        other => panic!("unsupported multimap read op {other}"),
    }
}

fn hold_iter<K: Key + 'static, V: Value + 'static>(
    rt: &ReadTransaction, cx: &Ctx, n: &str, kt: &str, vt: &str, op: &J, owned: bool,
) -> Result<Box<dyn HeldIter>, redb::Error> {
    let def: TableDefinition<K, V> = TableDefinition::new(n);
    let t = rt.open_table(def)?;
    let (mut s1, mut s2) = (vec![], vec![]);
    let lo = bound_of(&op["lo"], kt, cx, &mut s1);
    let hi = bound_of(&op["hi"], kt, cx, &mut s2);
    if owned {
        let it = t.range_owned((kb::<K>(lo), kb::<K>(hi)))?;
        // OwnedRange yields OwnedAccessGuard; adapt by collecting lazily is not possible without
        // changing types, so the owned variant is adapted item by item below
        Ok(Box::new(HeldOwned::<K, V> { it, kt: kt.to_string(), vt: vt.to_string() }))
    } else {
        // with the experimental API the borrowed range is tied to the table handle: the held form is the owned one
        #[cfg(feature = "cursor")]
        {
            let it = t.range_owned((kb::<K>(lo), kb::<K>(hi)))?;
            Ok(Box::new(HeldOwned::<K, V> { it, kt: kt.to_string(), vt: vt.to_string() }))
        }
        #[cfg(not(feature = "cursor"))]
        {
            let it = t.range((kb::<K>(lo), kb::<K>(hi)))?;
            Ok(Box::new(Held::<K, V, _> { it, kt: kt.to_string(), vt: vt.to_string(), _p: std::marker::PhantomData }))
        }
    }
}

/// the values of one multimap key, kept beyond the read transaction (borrowed-'static or owned form)
fn hold_mvalues<K: Key + 'static, V: Key + 'static>(
    rt: &ReadTransaction, cx: &Ctx, n: &str, kt: &str, vt: &str, op: &J, owned: bool,
) -> Result<Box<dyn HeldIter>, redb::Error> {
    let def: MultimapTableDefinition<K, V> = MultimapTableDefinition::new(n);
    let t = rt.open_multimap_table(def)?;
    let kbuf = cx.key_bytes(kt, op["k"].as_u64().unwrap() as u32);
    // (with the experimental API the borrowed form is tied to the table handle: the held form is the owned one)
    if owned || cfg!(feature = "cursor") {
        let it = t.get_owned(K::from_bytes(&kbuf))?;
        Ok(Box::new(HeldMValues::<V, _> { it, vt: vt.to_string(), _p: std::marker::PhantomData }))
    } else {
        #[cfg(not(feature = "cursor"))]
        {
            let it = t.get(K::from_bytes(&kbuf))?;
            Ok(Box::new(HeldMValues::<V, _> { it, vt: vt.to_string(), _p: std::marker::PhantomData }))
        }
        #[cfg(feature = "cursor")]
        unreachable!()
    }
}

struct HeldMValues<V: Key + 'static, I> {
    it: I,
    vt: String,
    _p: std::marker::PhantomData<V>,
}

/// a guard of either form: the bytes of the value it guards
trait ValueBytes<V: Key + 'static> {
    fn bytes(&self) -> Vec<u8>;
}
impl<V: Key + 'static> ValueBytes<V> for redb::AccessGuard<'static, V> {
    fn bytes(&self) -> Vec<u8> {
        V::as_bytes(&self.value()).as_ref().to_vec()
    }
}
impl<V: Key + 'static> ValueBytes<V> for redb::OwnedAccessGuard<V> {
    fn bytes(&self) -> Vec<u8> {
        V::as_bytes(&self.value()).as_ref().to_vec()
    }
}

impl<V: Key + 'static, G: ValueBytes<V>, I> HeldIter for HeldMValues<V, I>
where
    I: DoubleEndedIterator<Item = Result<G, redb::StorageError>>,
{
    fn next_n(&mut self, cx: &Ctx, cnt: u64, rev: bool) -> J {
        let mut out = vec![];
        for _ in 0..cnt {
            let item = if rev { self.it.next_back() } else { self.it.next() };
            match item {
                None => break,
                Some(x) => {
                    let g = tr!(x);
                    out.push(json!(cx.key_index(&self.vt, &g.bytes())));
                }
            }
        }
        ok(J::Array(out))
    }
}

struct HeldOwned<K: Key + 'static, V: Value + 'static> {
    it: redb::OwnedRange<K, V>,
    kt: String,
    vt: String,
}

impl<K: Key + 'static, V: Value + 'static> HeldIter for HeldOwned<K, V> {
    fn next_n(&mut self, cx: &Ctx, cnt: u64, rev: bool) -> J {
        let mut out = vec![];
        for _ in 0..cnt {
            let item = if rev { self.it.next_back() } else { self.it.next() };
            match item {
                None => break,
                Some(x) => {
                    let (k, v) = tr!(x);
                    out.push(json!([
                        cx.key_index(&self.kt, K::as_bytes(&k.value()).as_ref()),
                        cx.val_index(&self.vt, V::as_bytes(&v.value()).as_ref())
                    ]));
                }
            }
        }
        ok(J::Array(out))
    }
}

fn dump_ro<K: Key + 'static, V: Value + 'static>(
    rt: &ReadTransaction, cx: &Ctx, n: &str, kt: &str, vt: &str,
) -> Result<Vec<J>, redb::Error> {
    let def: TableDefinition<K, V> = TableDefinition::new(n);
    let t = rt.open_table(def)?;
    dump_table::<K, V, _>(&t, cx, kt, vt)
}

fn dump_rom<K: Key + 'static, V: Key + 'static>(
    rt: &ReadTransaction, cx: &Ctx, n: &str, kt: &str, vt: &str,
) -> Result<Vec<J>, redb::Error> {
    let def: MultimapTableDefinition<K, V> = MultimapTableDefinition::new(n);
    let t = rt.open_multimap_table(def)?;
    dump_mtable::<K, V, _>(&t, cx, kt, vt)
}

/// Full dump of the tables visible to a read transaction: discovers the types of each table by
/// trying the supported combinations (a mismatch is reported by redb, never reinterpreted).
pub fn dump_tables(rt: &ReadTransaction, cx: &Ctx) -> Result<Vec<J>, redb::Error> {
    use redb::TableHandle;
    use redb::MultimapTableHandle;
    let mut tables = vec![];
    let mut names: Vec<String> = rt.list_tables()?.map(|h| h.name().to_string()).collect();
    names.sort();
    for n in names {
        let mut found = false;
        for (kt, vt) in TABLE_TYPES {
            match dispatch_t!(kt, vt, dump_ro(rt, cx, &n, kt, vt)) {
                Ok(c) => {
                    tables.push(json!({"name": n, "kind": "t", "kt": kt, "vt": vt, "c": c}));
                    found = true;
                    break;
                }
                Err(redb::Error::TableTypeMismatch { .. }) | Err(redb::Error::TypeDefinitionChanged { .. }) => {}
                Err(e) => return Err(e),
            }
        }
        if !found {
            tables.push(json!({"name": n, "kind": "t", "kt": "?", "vt": "?", "c": []}));
        }
    }
    let mut names: Vec<String> = rt.list_multimap_tables()?.map(|h| h.name().to_string()).collect();
    names.sort();
    for n in names {
        let mut found = false;
        for (kt, vt) in MULTIMAP_TYPES {
            match dispatch_m!(kt, vt, dump_rom(rt, cx, &n, kt, vt)) {
                Ok(c) => {
                    tables.push(json!({"name": n, "kind": "m", "kt": kt, "vt": vt, "c": c}));
                    found = true;
                    break;
                }
                Err(redb::Error::TableTypeMismatch { .. }) | Err(redb::Error::TypeDefinitionChanged { .. }) => {}
                Err(e) => return Err(e),
            }
        }
        if !found {
            tables.push(json!({"name": n, "kind": "m", "kt": "?", "vt": "?", "c": []}));
        }
    }
    Ok(tables)
}

/// Observation of an opened database: tables with contents, persistent savepoint ids
pub fn observe(db: &Database, cx: &Ctx) -> Result<J, redb::Error> {
    let wt = db.begin_write()?;
    let mut psp: Vec<u64> = wt.list_persistent_savepoints()?.collect();
    psp.sort_unstable();
    wt.abort()?;
    let rt = db.begin_read()?;
    let tables = dump_tables(&rt, cx)?;
    Ok(json!({"tables": tables, "psp": psp}))
}

// ---------------------------------------------------------------------------------------------

pub struct Exec {
    pub cfg: Config,
    pub cx: Ctx,
    pub store: Arc<Store>,
    pub db: Option<Database>,
    wtx: Option<*mut WriteTransaction>,
    wtables: BTreeMap<String, Box<dyn WHandle>>,
    readers: HashMap<String, ReadTransaction>,
    sps: HashMap<String, Savepoint>,
    its: HashMap<String, Box<dyn HeldIter>>,
    /// untyped table handles kept beyond their read transaction, with what they answered first
    uts: HashMap<String, (UntypedHandle, J)>,
    pub panics: u64,
    /// fault-injection runs replay a script recorded without faults: steps whose handle does not
    /// exist (because an earlier step failed) are skipped instead of being a script error
    pub tolerant: bool,
}

pub fn builder(cfg: &Config) -> Builder {
    let mut b = Builder::new();
    b.verif_set_page_size(cfg.page_size);
    if let Some(r) = cfg.region_size {
        b.verif_set_region_size(r);
    }
    b.set_cache_size(cfg.cache_size);
    b
}

impl Exec {
    pub fn new(cfg: Config) -> Exec {
        let store = Store::new();
        Self::with_store(cfg, store)
    }

    pub fn with_store(cfg: Config, store: Arc<Store>) -> Exec {
        let cx = cfg.ctx();
        let db = builder(&cfg).create_with_backend(store.backend()).expect("create");
        Exec {
            cfg,
            cx,
            store,
            db: Some(db),
            wtx: None,
            wtables: BTreeMap::new(),
            readers: HashMap::new(),
            sps: HashMap::new(),
            its: HashMap::new(),
            uts: HashMap::new(),
            panics: 0,
            tolerant: false,
        }
    }

    fn txn(&self) -> &'static WriteTransaction {
        unsafe { &*self.wtx.expect("HARNESS: no write transaction") }
    }

    fn txn_mut(&mut self) -> &'static mut WriteTransaction {
        unsafe { &mut *self.wtx.expect("HARNESS: no write transaction") }
    }

    fn take_txn(&mut self) -> Box<WriteTransaction> {
        assert!(self.wtables.is_empty(), "HARNESS: table handles must be closed first");
        unsafe { Box::from_raw(self.wtx.take().expect("HARNESS: no write transaction")) }
    }

    pub fn has_wtx(&self) -> bool {
        self.wtx.is_some()
    }

    /// Drop everything that refers to the database (in a safe order), then the database
    pub fn teardown(&mut self) {
        self.wtables.clear();
        if self.wtx.is_some() {
            drop(self.take_txn());
        }
        self.its.clear();
        self.uts.clear();
        self.readers.clear();
        self.sps.clear();
        if self.db.take().is_some() {
            self.store.mark_done();
        }
    }

    /// Execute one step; returns the events it produced
    /// In tolerant mode: can this step be executed at all?
    fn applicable(&self, op: &J) -> bool {
        let e = op["e"].as_str().unwrap_or("");
        let s = |k: &str| op.get(k).and_then(|x| x.as_str()).unwrap_or("");
        match e {
            "bw" => self.wtx.is_none() && self.db.is_some(),
            "dur" | "2pc" | "qr" | "commit" | "compactw" | "abort" | "dropw" | "dropwp" | "rename" | "delete" | "spe" | "spp" | "spdel" | "splist" | "sprestp" => self.wtx.is_some(),
            "spreste" => self.wtx.is_some() && self.sps.contains_key(s("s")) && self.wtables.is_empty(),
            "open" => self.wtx.is_some() && !self.wtables.contains_key(s("n")),
            "close" | "ins" | "insr" | "getmut" | "entry" | "rem" | "pop" | "retain" | "extract" | "mins" | "mrem" | "mremall" | "cursor" => {
                self.wtables.contains_key(s("n"))
            }
            "get" | "len" | "edge" | "range" | "mget" | "mrange" | "ropen" | "list" | "rcursor" => {
                let src = if s("src").is_empty() { s("h") } else { s("src") };
                if src == "w" {
                    if e == "list" { self.wtx.is_some() } else { self.wtables.contains_key(s("n")) }
                } else {
                    self.readers.contains_key(src)
                }
            }
            "br" => self.db.is_some() && !self.readers.contains_key(s("h")),
            "dr" => self.readers.contains_key(s("h")),
            "dump" | "hold" | "uhold" | "mhold" => self.readers.contains_key(s("src")),
            "itnext" | "mitnext" => self.its.contains_key(s("it")),
            "itdrop" => self.its.contains_key(s("it")) || self.uts.contains_key(s("it")),
            "ustats" => self.uts.contains_key(s("it")),
            "spdrop" => self.sps.contains_key(s("s")),
            "compact" | "integrity" | "acct" => self.wtx.is_none() && self.db.is_some(),
            _ => true,
        }
    }

    pub fn step(&mut self, op: &J) -> Vec<J> {
        // the database is gone (a reopen failed or panicked - the trace already says so): nothing can be executed but another reopen
        if self.db.is_none() && op["e"].as_str() != Some("reopen") {
            return vec![json!({"e": "note", "what": "skipped: no database", "step": op["e"]})];
        }
        if self.tolerant {
            if !self.applicable(op) {
                return vec![json!({"e": "note", "what": "skipped", "step": op["e"]})];
            }
            if matches!(op["e"].as_str(), Some("commit" | "compactw" | "abort" | "dropw" | "dropwp")) && !self.wtables.is_empty() {
                // handles that the recorded script closed through steps that were skipped
                let names: Vec<String> = self.wtables.keys().cloned().collect();
                let mut evs = vec![];
                for n in names {
                    evs.extend(self.step(&json!({"e": "close", "n": n})));
                }
                evs.extend(self.step_exec(op));
                return evs;
            }
        }
        self.step_exec(op)
    }

    fn step_exec(&mut self, op: &J) -> Vec<J> {
        let b0 = self.store.log_len();
        let res = catch_unwind(AssertUnwindSafe(|| self.step_inner(op)));
        let mut evs = match res {
            Ok(evs) => evs,
            Err(p) => {
                let msg = p.downcast_ref::<String>().cloned().or_else(|| p.downcast_ref::<&str>().map(|s| s.to_string())).unwrap_or_default();
                if msg.starts_with("HARNESS:") {
                    // a defect of the script or the harness, never data about redb
                    eprintln!("{msg} at step {op}");
                    std::process::exit(3);
                }
                self.panics += 1;
                // a panic inside commit/abort has consumed the transaction: keep the event shape
                match op["e"].as_str() {
                    Some("commit") => vec![json!({"e": "cbegin"}), json!({"e": "cend", "r": {"panic": msg}})],
                    Some("abort" | "dropw" | "dropwp") => vec![json!({"e": "abort", "r": {"panic": msg}})],
                    _ => {
                        let mut ev = op.clone();
                        ev["r"] = json!({"panic": msg});
                        vec![ev]
                    }
                }
            }
        };
        let b1 = self.store.log_len();
        for ev in &mut evs {
            ev["bk"] = json!([b0, b1]);
        }
        evs
    }

    fn with_r(op: &J, r: J) -> Vec<J> {
        let mut ev = op.clone();
        ev["r"] = r;
        vec![ev]
    }

    fn step_inner(&mut self, op: &J) -> Vec<J> {
        let e = op["e"].as_str().expect("step without e");
        match e {
            "bw" => {
                assert!(self.wtx.is_none(), "HARNESS: script error: begin_write while a write transaction is live would block forever");
                let r = match self.db.as_ref().unwrap().begin_write() {
                    Ok(t) => {
                        self.wtx = Some(Box::into_raw(Box::new(t)));
                        ok(json!(0))
                    }
                    Err(e) => er(e),
                };
                Self::with_r(op, r)
            }
            "dur" => {
                let d = match op["d"].as_str().unwrap() {
                    "none" => Durability::None,
                    _ => Durability::Immediate,
                };
                let r = match self.txn_mut().set_durability(d) {
                    Ok(()) => ok(json!(0)),
                    Err(e) => er(e),
                };
                Self::with_r(op, r)
            }
            "2pc" => {
                self.txn_mut().set_two_phase_commit(op["on"].as_bool().unwrap());
                vec![json!({"e": "note", "what": "2pc", "on": op["on"]})]
            }
            "qr" => {
                self.txn_mut().set_quick_repair(op["on"].as_bool().unwrap());
                vec![json!({"e": "note", "what": "qr", "on": op["on"]})]
            }
            "commit" => {
                let t = self.take_txn();
                let r = match t.commit() {
                    Ok(()) => ok(json!(0)),
                    Err(e) => er(e),
                };
                vec![json!({"e": "cbegin"}), json!({"e": "cend", "r": r})]
            }
            "abort" => {
                let t = self.take_txn();
                let r = match t.abort() {
                    Ok(()) => ok(json!(0)),
                    Err(e) => er(e),
                };
                vec![json!({"e": "abort", "r": r})]
            }
            "dropw" => {
                drop(self.take_txn());
                vec![json!({"e": "abort", "how": "drop", "r": {"ok": 0}})]
            }
            "dropwp" => {
                // the write transaction is dropped while a panic unwinds through it (caught by the application): redb skips
                // the rollback, the transaction's pages leak until the database is reopened, and no clean shutdown or
                // allocator snapshot may be recorded meanwhile
                let t = self.take_txn();
                let _ = std::panic::catch_unwind(std::panic::AssertUnwindSafe(move || {
                    let _t = t;
                    panic!("injected by the harness: a panic unwinds through a live write transaction");
                }));
                vec![json!({"e": "abort", "how": "drop-unwinding", "r": {"ok": 0}})]
            }
            "br" => {
                let h = op["h"].as_str().unwrap().to_string();
                let r = match self.db.as_ref().unwrap().begin_read() {
                    Ok(t) => {
                        self.readers.insert(h, t);
                        ok(json!(0))
                    }
                    Err(e) => er(e),
                };
                Self::with_r(op, r)
            }
            "dr" => {
                let h = op["h"].as_str().unwrap();
                self.readers.remove(h).expect("HARNESS: unknown reader");
                vec![op.clone()]
            }
            "open" => {
                let n = op["n"].as_str().unwrap();
                let (kind, kt, vt) = (op["kind"].as_str().unwrap(), op["kt"].as_str().unwrap(), op["vt"].as_str().unwrap());
                let txn = self.txn();
                let r = if kind == "t" {
                    dispatch_t!(kt, vt, open_w(txn, n, kt, vt))
                } else {
                    dispatch_m!(kt, vt, open_wm(txn, n, kt, vt))
                };
                let r = match r {
                    Ok(h) => {
                        self.wtables.insert(n.to_string(), h);
                        ok(json!(0))
                    }
                    Err(e) => er(e),
                };
                Self::with_r(op, r)
            }
            "close" => {
                let n = op["n"].as_str().unwrap();
                self.wtables.remove(n).expect("HARNESS: table not open");
                vec![op.clone()]
            }
            "rename" => {
                let (a, b) = (op["a"].as_str().unwrap(), op["b"].as_str().unwrap());
                let txn = self.txn();
                let r = if op["kind"].as_str().unwrap() == "t" {
                    let d: TableDefinition<u64, u64> = TableDefinition::new(a);
                    let d2: TableDefinition<u64, u64> = TableDefinition::new(b);
                    txn.rename_table(d, d2)
                } else {
                    let d: MultimapTableDefinition<u64, u64> = MultimapTableDefinition::new(a);
                    let d2: MultimapTableDefinition<u64, u64> = MultimapTableDefinition::new(b);
                    txn.rename_multimap_table(d, d2)
                };
                Self::with_r(op, match r {
                    Ok(()) => ok(json!(0)),
                    Err(e) => er(e),
                })
            }
            "delete" => {
                let a = op["a"].as_str().unwrap();
                let txn = self.txn();
                let r = if op["kind"].as_str().unwrap() == "t" {
                    let d: TableDefinition<u64, u64> = TableDefinition::new(a);
                    txn.delete_table(d)
                } else {
                    let d: MultimapTableDefinition<u64, u64> = MultimapTableDefinition::new(a);
                    txn.delete_multimap_table(d)
                };
                Self::with_r(op, match r {
                    Ok(b) => ok(json!(b)),
                    Err(e) => er(e),
                })
            }
            "list" => {
                use redb::MultimapTableHandle;
                use redb::TableHandle;
                let src = op["src"].as_str().unwrap();
                let kind = op["kind"].as_str().unwrap();
                let r: Result<Vec<String>, redb::StorageError> = if src == "w" {
                    let txn = self.txn();
                    if kind == "t" {
                        txn.list_tables().map(|i| i.map(|h| h.name().to_string()).collect())
                    } else {
                        txn.list_multimap_tables().map(|i| i.map(|h| h.name().to_string()).collect())
                    }
                } else {
                    let rt = &self.readers[src];
                    if kind == "t" {
                        rt.list_tables().map(|i| i.map(|h| h.name().to_string()).collect())
                    } else {
                        rt.list_multimap_tables().map(|i| i.map(|h| h.name().to_string()).collect())
                    }
                };
                Self::with_r(op, match r {
                    Ok(v) => ok(json!(v)),
                    Err(e) => er(e),
                })
            }
            // table operations through a write handle
            "ins" | "insr" | "getmut" | "entry" | "rem" | "pop" | "retain" | "extract" | "mins" | "mrem" | "mremall" | "cursor" => {
                let n = op["n"].as_str().unwrap();
                let h = self.wtables.get_mut(n).expect("HARNESS: table not open");
                let r = h.op(&self.cx, op);
                if let Some(multi) = r.get("multi") {
                    return multi.as_array().unwrap().clone();
                }
                if r.get("predpanic").is_some() {
                    // the predicate panicked inside retain / extract_if: the transaction is poisoned
                    return vec![json!({"e": "predpanic", "n": n, "op": e})];
                }
                let mut evs = Self::with_r(op, r);
                if matches!(e, "mins" | "mrem" | "mremall") {
                    // len() after every multimap mutation (it is maintained incrementally)
                    let lop = json!({"e": "len", "src": "w", "n": n});
                    let lr = h.op(&self.cx, &lop);
                    evs.extend(Self::with_r(&lop, lr));
                }
                evs
            }
            "get" | "len" | "edge" | "range" | "mget" | "mrange" | "ropen" | "rcursor" => {
                let n = op["n"].as_str().unwrap();
                let src = op.get("src").and_then(|s| s.as_str()).or_else(|| op.get("h").and_then(|s| s.as_str())).unwrap();
                let r = if src == "w" {
                    let h = self.wtables.get_mut(n).expect("HARNESS: table not open");
                    h.op(&self.cx, op)
                } else {
                    let rt = &self.readers[src];
                    let (kind, kt, vt) = (op["kind"].as_str().unwrap(), op["kt"].as_str().unwrap(), op["vt"].as_str().unwrap());
                    if kind == "t" {
                        dispatch_t!(kt, vt, ro_op(rt, &self.cx, n, kt, vt, op))
                    } else {
                        dispatch_m!(kt, vt, ro_mop(rt, &self.cx, n, kt, vt, op))
                    }
                };
                Self::with_r(op, r)
            }
            "hold" => {
                let n = op["n"].as_str().unwrap();
                let src = op["src"].as_str().unwrap();
                let (kt, vt) = (op["kt"].as_str().unwrap(), op["vt"].as_str().unwrap());
                let owned = op.get("owned").and_then(|b| b.as_bool()).unwrap_or(false);
                let rt = &self.readers[src];
                let r = match dispatch_t!(kt, vt, hold_iter(rt, &self.cx, n, kt, vt, op, owned)) {
                    Ok(it) => {
                        self.its.insert(op["it"].as_str().unwrap().to_string(), it);
                        ok(json!(0))
                    }
                    Err(e) => er(e),
                };
                Self::with_r(op, r)
            }
            "mhold" => {
                let n = op["n"].as_str().unwrap();
                let src = op["src"].as_str().unwrap();
                let (kt, vt) = (op["kt"].as_str().unwrap(), op["vt"].as_str().unwrap());
                let owned = op.get("owned").and_then(|b| b.as_bool()).unwrap_or(false);
                let rt = &self.readers[src];
                let r = match dispatch_m!(kt, vt, hold_mvalues(rt, &self.cx, n, kt, vt, op, owned)) {
                    Ok(it) => {
                        self.its.insert(op["it"].as_str().unwrap().to_string(), it);
                        ok(json!(0))
                    }
                    Err(e) => er(e),
                };
                Self::with_r(op, r)
            }
            "mitnext" => {
                let it = self.its.get_mut(op["it"].as_str().unwrap()).expect("HARNESS: unknown iterator");
                let r = it.next_n(&self.cx, op["cnt"].as_u64().unwrap(), op["rev"].as_bool().unwrap());
                Self::with_r(op, r)
            }
            "itnext" => {
                let it = self.its.get_mut(op["it"].as_str().unwrap()).expect("HARNESS: unknown iterator");
                let r = it.next_n(&self.cx, op["cnt"].as_u64().unwrap(), op["rev"].as_bool().unwrap());
                Self::with_r(op, r)
            }
            "itdrop" => {
                let it = op["it"].as_str().unwrap();
                if self.its.remove(it).is_none() {
                    self.uts.remove(it).expect("HARNESS: unknown iterator");
                }
                vec![op.clone()]
            }
            "uhold" => {
                use redb::{MultimapTableHandle, TableHandle};
                let (src, n, kind) = (op["src"].as_str().unwrap(), op["n"].as_str().unwrap(), op["kind"].as_str().unwrap());
                let rt = &self.readers[src];
                let r = (|| -> Result<Option<UntypedHandle>, redb::Error> {
                    if kind == "t" {
                        match rt.list_tables()?.find(|h| h.name() == n) {
                            Some(h) => Ok(Some(UntypedHandle::T(rt.open_untyped_table(h)?))),
                            None => Ok(None),
                        }
                    } else {
                        match rt.list_multimap_tables()?.find(|h| h.name() == n) {
                            Some(h) => Ok(Some(UntypedHandle::M(rt.open_untyped_multimap_table(h)?))),
                            None => Ok(None),
                        }
                    }
                })();
                match r {
                    Ok(Some(u)) => {
                        let first = u.answers();
                        self.uts.insert(op["it"].as_str().unwrap().to_string(), (u, first));
                        Self::with_r(op, ok(json!(0)))
                    }
                    Ok(None) => vec![json!({"e": "note", "what": "table not in the reader's list", "step": "uhold"})],
                    Err(e) => Self::with_r(op, er(e)),
                }
            }
            "ustats" => {
                let (u, first) = &self.uts[op["it"].as_str().unwrap()];
                let mut evs = Self::with_r(op, u.answers());
                evs[0]["first"] = first.clone();
                evs
            }
            "spe" => {
                let r = match self.txn().ephemeral_savepoint() {
                    Ok(sp) => {
                        self.sps.insert(op["s"].as_str().unwrap().to_string(), sp);
                        ok(json!(0))
                    }
                    Err(e) => er(e),
                };
                Self::with_r(op, r)
            }
            // C16: the tables of this write transaction are opened and used from several threads at once, while another
            // thread creates and drops ephemeral savepoints.  Every call is stamped with a global sequence number at its
            // start and at its end; the events are returned in an order that is a linearization if one exists (see below)
            "par" => {
                use std::sync::atomic::{AtomicU64, Ordering};
                let txn = self.txn();
                let cx = &self.cx;
                let seq = AtomicU64::new(1);
                let streams = op["streams"].as_array().unwrap().clone();
                let sp_names: Vec<String> = op["sp"]["names"].as_array().map(|a| a.iter().map(|x| x.as_str().unwrap().to_string()).collect()).unwrap_or_default();
                let sp_drop: Vec<bool> = op["sp"]["drop"].as_array().map(|a| a.iter().map(|x| x.as_bool().unwrap()).collect()).unwrap_or_default();
                let barrier = std::sync::Barrier::new(streams.len() + 1);
                type Stamped = (u64, u64, J);
                // forced schedules through the pause points of redb (cfg(redb_verif)):
                //   hold = "sp":   the savepoint call is stopped after its dirty check; the workers open their tables meanwhile
                //   hold = "open": the first worker is stopped inside set_dirty; the savepoint thread calls meanwhile
                let hold = op.get("hold").and_then(|h| h.as_str()).unwrap_or("").to_string();
                let ctl = if hold.is_empty() { None } else { Some(crate::sched::Controller::install()) };
                let go = std::sync::atomic::AtomicBool::new(hold.is_empty());
                let progress = AtomicU64::new(0); // opens finished (hold = sp) / savepoint calls finished (hold = open)
                const P_SP: &str = "ephemeral_savepoint.checked";
                const P_OPEN: &str = "set_dirty.after_store";
                if let Some(c) = &ctl {
                    if hold == "sp" { c.arm("SP", P_SP) } else { c.arm("W0", P_OPEN) }
                }
                let mut held = false;
                let (mut all, made): (Vec<Stamped>, Vec<(String, Savepoint)>) = std::thread::scope(|sc| {
                    let mut hs = vec![];
                    for (wi, st) in streams.iter().enumerate() {
                        let (seq, barrier, go, progress, hold) = (&seq, &barrier, &go, &progress, hold.as_str());
                        hs.push(sc.spawn(move || {
                            crate::sched::set_actor(&format!("W{wi}"));
                            let mut out: Vec<Stamped> = vec![];
                            let n = st["n"].as_str().unwrap();
                            let (kind, kt, vt) = (st["kind"].as_str().unwrap(), st["kt"].as_str().unwrap(), st["vt"].as_str().unwrap());
                            barrier.wait();
                            for _ in 0..st["delay"].as_u64().unwrap_or(0) {
                                std::hint::spin_loop();
                            }
                            while !(go.load(Ordering::SeqCst) || (hold == "open" && wi == 0)) {
                                std::thread::yield_now();
                            }
                            let a = seq.fetch_add(1, Ordering::SeqCst);
                            let opened = catch_unwind(AssertUnwindSafe(|| {
                                if kind == "t" { dispatch_t!(kt, vt, open_w(txn, n, kt, vt)) } else { dispatch_m!(kt, vt, open_wm(txn, n, kt, vt)) }
                            }));
                            let b = seq.fetch_add(1, Ordering::SeqCst);
                            if hold == "sp" {
                                progress.fetch_add(1, Ordering::SeqCst);
                            }
                            let oev = |r: J| json!({"e": "open", "n": n, "kind": kind, "kt": kt, "vt": vt, "r": r});
                            let mut h = match opened {
                                Ok(Ok(h)) => {
                                    out.push((a, b, oev(ok(json!(0)))));
                                    h
                                }
                                Ok(Err(e)) => {
                                    out.push((a, b, oev(er(e))));
                                    return out;
                                }
                                Err(_) => {
                                    out.push((a, b, oev(json!({"panic": "open"}))));
                                    return out;
                                }
                            };
                            for o in st["ops"].as_array().unwrap() {
                                let a = seq.fetch_add(1, Ordering::SeqCst);
                                let r = catch_unwind(AssertUnwindSafe(|| h.op(cx, o)));
                                let b = seq.fetch_add(1, Ordering::SeqCst);
                                let mut ev = o.clone();
                                match r {
                                    Ok(r) => {
                                        ev["r"] = r;
                                        out.push((a, b, ev));
                                    }
                                    Err(p) => {
                                        let msg = p.downcast_ref::<String>().cloned().or_else(|| p.downcast_ref::<&str>().map(|s| s.to_string())).unwrap_or_default();
                                        ev["r"] = json!({"panic": msg});
                                        out.push((a, b, ev));
                                        break;
                                    }
                                }
                            }
                            let a = seq.fetch_add(1, Ordering::SeqCst);
                            drop(h);
                            let b = seq.fetch_add(1, Ordering::SeqCst);
                            out.push((a, b, json!({"e": "close", "n": n})));
                            out
                        }));
                    }
                    // the coordinator of a forced schedule
                    let coord = ctl.as_ref().map(|c| {
                        let (c, go, progress, hold, n) = (c.clone(), &go, &progress, hold.as_str(), streams.len() as u64);
                        sc.spawn(move || {
                            let (actor, point, target) = if hold == "sp" { ("SP", P_SP, n) } else { ("W0", P_OPEN, 1) };
                            let reached = c.wait_reached(actor, point, std::time::Duration::from_secs(2));
                            go.store(true, Ordering::SeqCst);
                            let t0 = std::time::Instant::now();
                            while progress.load(Ordering::SeqCst) < target && t0.elapsed() < std::time::Duration::from_millis(100) {
                                std::thread::sleep(std::time::Duration::from_millis(1));
                            }
                            c.release(actor, point);
                            reached
                        })
                    });
                    // the savepoint thread (this one)
                    crate::sched::set_actor("SP");
                    let mut out: Vec<Stamped> = vec![];
                    let mut made: Vec<(String, Savepoint)> = vec![];
                    barrier.wait();
                    while hold == "open" && !go.load(Ordering::SeqCst) {
                        std::thread::yield_now();
                    }
                    for (i, name) in sp_names.iter().enumerate() {
                        for _ in 0..op["sp"]["gap"].as_u64().unwrap_or(0) {
                            std::hint::spin_loop();
                        }
                        let a = seq.fetch_add(1, Ordering::SeqCst);
                        let r = txn.ephemeral_savepoint();
                        let b = seq.fetch_add(1, Ordering::SeqCst);
                        if hold == "open" {
                            progress.fetch_add(1, Ordering::SeqCst);
                        }
                        match r {
                            Ok(sp) => {
                                out.push((a, b, json!({"e": "spe", "s": name, "r": ok(json!(0))})));
                                if sp_drop.get(i).copied().unwrap_or(false) {
                                    let a = seq.fetch_add(1, Ordering::SeqCst);
                                    drop(sp);
                                    let b = seq.fetch_add(1, Ordering::SeqCst);
                                    out.push((a, b, json!({"e": "spdrop", "s": name})));
                                } else {
                                    made.push((name.clone(), sp));
                                }
                            }
                            Err(e) => out.push((a, b, json!({"e": "spe", "s": name, "r": er(e)}))),
                        }
                    }
                    if hold == "sp" && sp_names.is_empty() {
                        go.store(true, Ordering::SeqCst);
                    }
                    for h in hs {
                        out.extend(h.join().expect("HARNESS: worker thread died outside the code under test"));
                    }
                    if let Some(c) = coord {
                        held = c.join().unwrap();
                    }
                    crate::sched::set_actor("main");
                    (out, made)
                });
                if ctl.is_some() {
                    crate::sched::Controller::uninstall();
                }
                for (name, sp) in made {
                    self.sps.insert(name, sp);
                }
                // Linearization.  Only the moment D at which the transaction turns dirty (inside the first open) orders
                // things across threads: a savepoint call succeeds iff it is linearized before D.  D lies in the interval of
                // the open that is linearized first, and not after the end of any open.  If
                //   max(start of successful savepoint calls) < D < min(end of refused ones)   is satisfiable,
                // the order [successful savepoints, that open, everything else by end stamp] is a linearization;
                // otherwise everything is emitted by end stamp and the specification rejects the first call that is wrong.
                let is_open = |e: &Stamped| e.2["e"] == "open" && e.2["r"].get("ok").is_some();
                let spe_ok = |e: &Stamped| e.2["e"] == "spe" && e.2["r"].get("ok").is_some();
                let spe_no = |e: &Stamped| e.2["e"] == "spe" && e.2["r"].get("ok").is_none();
                let first_open = all.iter().filter(|e| is_open(e)).min_by_key(|e| e.0).cloned();
                let lo = all.iter().filter(|e| spe_ok(e)).map(|e| e.0).max().unwrap_or(0);
                let hi = all.iter().filter(|e| spe_no(e)).map(|e| e.1).min().unwrap_or(u64::MAX);
                let feasible = match &first_open {
                    Some(fo) => {
                        let min_end = all.iter().filter(|e| is_open(e)).map(|e| e.1).min().unwrap();
                        lo.max(fo.0) < hi.min(min_end)
                    }
                    None => true,
                };
                all.sort_by_key(|e| e.1);
                let mut evs: Vec<J> = vec![json!({"e": "note", "what": "par", "threads": streams.len() + 1, "feasible": feasible, "hold": hold, "held": held})];
                if feasible {
                    let fo_key = first_open.as_ref().map(|e| e.0);
                    evs.extend(all.iter().filter(|e| spe_ok(e)).map(|e| e.2.clone()));
                    evs.extend(all.iter().filter(|e| is_open(e) && Some(e.0) == fo_key).map(|e| e.2.clone()));
                    evs.extend(all.iter().filter(|e| !spe_ok(e) && !(is_open(e) && Some(e.0) == fo_key)).map(|e| e.2.clone()));
                } else {
                    evs.extend(all.iter().map(|e| e.2.clone()));
                }
                evs
            }
            "spdrop" => {
                self.sps.remove(op["s"].as_str().unwrap()).expect("HARNESS: unknown savepoint");
                vec![op.clone()]
            }
            "spp" => {
                let r = match self.txn().persistent_savepoint() {
                    Ok(id) => ok(json!(id)),
                    Err(e) => er(e),
                };
                Self::with_r(op, r)
            }
            "spdel" => {
                let r = match self.txn().delete_persistent_savepoint(op["id"].as_u64().unwrap()) {
                    Ok(b) => ok(json!(b)),
                    Err(e) => er(e),
                };
                Self::with_r(op, r)
            }
            "splist" => {
                let r = match self.txn().list_persistent_savepoints() {
                    Ok(it) => ok(json!(it.collect::<Vec<u64>>())),
                    Err(e) => er(e),
                };
                Self::with_r(op, r)
            }
            "spreste" => {
                let s = op["s"].as_str().unwrap().to_string();
                let sp = self.sps.remove(&s).expect("HARNESS: unknown savepoint");
                let r = match self.txn_mut().restore_savepoint(&sp) {
                    Ok(()) => ok(json!(0)),
                    Err(e) => er(e),
                };
                self.sps.insert(s, sp);
                Self::with_r(op, r)
            }
            "sprestp" => {
                let id = op["id"].as_u64().unwrap();
                let r = match self.txn().get_persistent_savepoint(id) {
                    Ok(sp) => match self.txn_mut().restore_savepoint(&sp) {
                        Ok(()) => ok(json!(0)),
                        Err(e) => er(e),
                    },
                    Err(e) => er(e),
                };
                Self::with_r(op, r)
            }
            // compact() is called while this write transaction is live on another thread (a WriteTransaction is not
            // lifetime-bound to the Database): it passes its first checks, waits for the write lock, and meanwhile the
            // transaction creates a savepoint (sp = "p" | "e" | "none") and commits.  The events are returned in the order
            // savepoint, commit, compact - compact()'s decision is taken after it got the lock, i.e. after the commit -
            // so Kv!Compact demands the refusal that the state after the commit calls for (same answer if compact() was
            // slow and saw the savepoint in its first checks already)
            "compactw" => {
                let t = self.take_txn();
                let kind = op["sp"].as_str().unwrap().to_string();
                let helper = std::thread::spawn(move || {
                    std::thread::sleep(std::time::Duration::from_millis(120));
                    let mut evs: Vec<J> = vec![];
                    let mut kept = None;
                    match kind.as_str() {
                        "p" => evs.push(json!({"e": "spp", "r": match t.persistent_savepoint() { Ok(id) => ok(json!(id)), Err(e) => er(e) }})),
                        "e" => {
                            let r = match t.ephemeral_savepoint() {
                                Ok(sp) => {
                                    kept = Some(sp);
                                    ok(json!(0))
                                }
                                Err(e) => er(e),
                            };
                            evs.push(json!({"e": "spe", "r": r}));
                        }
                        _ => {}
                    }
                    let r = match t.commit() {
                        Ok(()) => ok(json!(0)),
                        Err(e) => er(e),
                    };
                    evs.push(json!({"e": "cbegin"}));
                    evs.push(json!({"e": "cend", "r": r}));
                    (evs, kept)
                });
                let done = std::sync::Arc::new(std::sync::atomic::AtomicBool::new(false));
                let watchdog = {
                    let done = done.clone();
                    std::thread::spawn(move || {
                        let t0 = std::time::Instant::now();
                        while !done.load(std::sync::atomic::Ordering::Acquire) {
                            std::thread::sleep(std::time::Duration::from_millis(20));
                            if t0.elapsed() > std::time::Duration::from_secs(40) && !done.load(std::sync::atomic::Ordering::Acquire) {
                                eprintln!("WATCHDOG: compact() called while a write transaction was live has not returned after {:?}: it does not finish", t0.elapsed());
                                std::process::abort();
                            }
                        }
                    })
                };
                let r = match self.db.as_mut().unwrap().compact() {
                    Ok(b) => ok(json!(b)),
                    Err(e) => er(e),
                };
                done.store(true, std::sync::atomic::Ordering::Release);
                let _ = watchdog.join();
                let (mut evs, kept) = helper.join().expect("HARNESS: the committing thread of compactw panicked");
                if let Some(sp) = kept {
                    self.sps.insert(op["s"].as_str().unwrap().to_string(), sp);
                }
                for ev in &mut evs {
                    if ev["e"] == "spe" {
                        ev["s"] = op["s"].clone();
                    }
                }
                // (no length rule here: the commit of the other thread may have grown the file meanwhile)
                evs.push(json!({"e": "compact", "r": r, "how": "waited for a live write transaction"}));
                evs
            }
            "compact" => {
                assert!(self.wtx.is_none(), "HARNESS: script error: compact with a live write transaction");
                let (len0, syncs0) = (self.store.len(), self.store.syncs());
                // compact() must finish in a bounded number of passes: a watchdog ends the process (status 134; the journal
                // names this step) if it is still committing far beyond the bound the specification allows, or does not return
                let done = std::sync::Arc::new(std::sync::atomic::AtomicBool::new(false));
                let watchdog = {
                    let (done, store) = (done.clone(), self.store.clone());
                    let bound = 16 * (len0 as u64 / self.cfg.page_size as u64 + 8) + 200;
                    std::thread::spawn(move || {
                        let t0 = std::time::Instant::now();
                        while !done.load(std::sync::atomic::Ordering::Acquire) {
                            std::thread::sleep(std::time::Duration::from_millis(20));
                            if store.syncs() - syncs0 > bound || t0.elapsed() > std::time::Duration::from_secs(120) {
                                if done.load(std::sync::atomic::Ordering::Acquire) {
                                    return;
                                }
                                eprintln!("WATCHDOG: compact() has not returned after {} syncs / {:?} (bound {bound} syncs): it does not finish", store.syncs() - syncs0, t0.elapsed());
                                std::process::abort();
                            }
                        }
                    })
                };
                let r = match self.db.as_mut().unwrap().compact() {
                    Ok(b) => ok(json!(b)),
                    Err(e) => er(e),
                };
                // compact() ends when a pass moves nothing: called again at once it has nothing to do (Compact.tla: the end
                // state is a fixpoint)
                let (len1, syncs1) = (self.store.len(), self.store.syncs());
                // (not in runs with injected storage failures: one step of the script is one call there)
                let again = if r.get("ok").is_some() && !self.store.fault_configured() {
                    Some(match self.db.as_mut().unwrap().compact() {
                        Ok(b) => ok(json!(b)),
                        Err(e) => er(e),
                    })
                } else {
                    None
                };
                done.store(true, std::sync::atomic::Ordering::Release);
                let _ = watchdog.join();
                let mut evs = Self::with_r(op, r);
                evs[0]["len0"] = json!(len0);
                evs[0]["len1"] = json!(len1);
                if let Some(a) = again {
                    evs[0]["again"] = a;
                    evs[0]["len2"] = json!(self.store.len());
                }
                evs[0]["syncs"] = json!(syncs1 - syncs0);
                evs[0]["pages0"] = json!(len0 / self.cfg.page_size);
                evs
            }
            "integrity" => {
                // is the layout in memory ahead of the one in the on-disk header?
                let hdr = self.db.as_ref().unwrap().verif_header();
                let bytes = self.store.prefix(64);
                let rd = |o: usize| u32::from_le_bytes(bytes[o..o + 4].try_into().unwrap());
                let stale = bytes.len() >= 32 && (rd(24), rd(28)) != (hdr.full_regions, hdr.trailing_region_pages);
                let r = match self.db.as_mut().unwrap().check_integrity() {
                    Ok(b) => ok(json!(b)),
                    Err(e) => er(e),
                };
                let mut evs = Self::with_r(op, r);
                evs[0]["stale"] = json!(stale);
                evs
            }
            "reopen" => {
                // a database that needs repair (a write transaction was dropped while a panic unwound through it) records no
                // clean shutdown when it is closed: what the next open finds is what a crash would have left - the last
                // durable commit or a later one, pending non-durable commits possibly lost (Kv!Crash instead of Kv!Reopen)
                let unclean = self.db.as_ref().is_some_and(|d| d.verif_header().needs_repair);
                let name = if unclean { "crash" } else { "reopen" };
                self.teardown();
                let db = builder(&self.cfg).create_with_backend(self.store.backend());
                match db {
                    Ok(db) => {
                        let obs = observe(&db, &self.cx);
                        self.db = Some(db);
                        match obs {
                            Ok(obs) => vec![json!({"e": name, "obs": obs})],
                            Err(e) => vec![json!({"e": name, "obs": {"error": er(e)}})],
                        }
                    }
                    Err(e) => vec![json!({"e": name, "obs": {"error": er(e)}})],
                }
            }
            "dump" => {
                let src = op["src"].as_str().unwrap();
                let rt = &self.readers[src];
                match dump_tables(rt, &self.cx) {
                    Ok(tables) => vec![json!({"e": "dump", "src": src, "obs": {"tables": tables, "psp": []}})],
                    Err(e) => vec![json!({"e": "dump", "src": src, "obs": {"error": er(e)}})],
                }
            }
            "fault" => {
                let mode = if op["mode"].as_str() == Some("once") { FaultMode::Once } else { FaultMode::Permanent };
                let at = op["at"].as_u64().map(|k| (k, mode));
                self.store.set_fault(at);
                vec![json!({"e": "fault", "at": op["at"].as_i64().unwrap_or(-1), "mode": op["mode"].as_str().unwrap_or("off")})]
            }
            "acct" => vec![self.acct(op)],
            "note" => vec![op.clone()],
            other => panic!("unknown step {other}"),
        }
    }
}

fn pid(r: u32, i: u32) -> u64 {
    (u64::from(r) << 20) | u64::from(i)
}

/// order-0 expansion of a page list, as ids
fn expand(pages: &[redb::verif::Page]) -> Vec<u64> {
    let mut out = vec![];
    for &(r, i, o) in pages {
        let n = 1u32 << o;
        for j in 0..n {
            out.push(pid(r, i * n + j));
        }
    }
    out
}

fn expand_map(m: &[(u64, Vec<redb::verif::Page>)]) -> Vec<J> {
    m.iter().map(|(t, p)| json!([t, expand(p)])).collect()
}

/// Page accounting of a database at a transaction boundary (no write transaction live): what the
/// allocator holds, who owns it, tracker and header.  Uses a probe write transaction that is aborted.
pub fn account(db: &Database, backend_len: usize) -> J {
    let mut ev = json!({"e": "acct"});
    let tracker = db.verif_tracker();
    let hdr = db.verif_header();
    let wt = match db.begin_write() {
        Ok(wt) => wt,
        Err(e) => {
            ev["unavailable"] = er(e);
            return ev;
        }
    };
    let probe_id = wt.verif_id();
    let acc = wt.verif_accounting();
    let _ = wt.abort();
    let acc = match acc {
        Ok(a) => a,
        Err(e) => {
            ev["unavailable"] = er(e);
            return ev;
        }
    };
    let Some(allocated) = acc.allocated.as_ref() else {
        ev["unavailable"] = json!({"err": "NoAllocatorState"});
        return ev;
    };
    ev["alloc"] = json!(allocated.iter().map(|(r, i)| pid(*r, *i)).collect::<Vec<u64>>());
    ev["region_lens"] = json!(acc.region_lens);
    // per region: [highest free order of the allocator or -1, orders the region tracker marks full]
    ev["regions"] = json!(acc
        .region_tracker
        .iter()
        .map(|(hfo, full)| json!([hfo.map_or(-1, i64::from), full.iter().enumerate().filter(|(_, b)| **b).map(|(o, _)| o).collect::<Vec<usize>>()]))
        .collect::<Vec<J>>());
    ev["data"] = json!(expand(&acc.data_tree));
    ev["sys"] = json!(expand(&acc.system_tree));
    ev["dfreed"] = json!(expand_map(&acc.data_freed));
    ev["sfreed"] = json!(expand_map(&acc.system_freed));
    ev["atbl"] = json!(expand_map(&acc.data_allocated));
    ev["unp_pages"] = json!(expand(&acc.unpersisted_pages));
    ev["unp_allocs"] = json!(expand_map(&acc.unpersisted_allocations));
    ev["unp_freed"] = json!(expand_map(&acc.unpersisted_data_freed));
    ev["post"] = json!(expand(&acc.post_commit_allocations));
    ev["needs_repair"] = json!(acc.needs_repair);
    ev["probe_id"] = json!(probe_id);
    let (dd, ds) = db.verif_durable_pages().unwrap_or_default();
    ev["durable_data"] = json!(expand(&dd));
    ev["durable_sys"] = json!(expand(&ds));
    ev["readers"] = json!([]);
    ev["sps"] = json!([]);
    ev["settled"] = json!(false);
    ev["tracker"] = json!({
        "next_sp": tracker.next_savepoint_id, "next_txn": tracker.next_transaction_id,
        "live_reads": tracker.live_read_transactions.iter().map(|(a, b)| json!([a, b])).collect::<Vec<J>>(),
        "valid_sps": tracker.valid_savepoints.iter().map(|(a, b)| json!([a, b])).collect::<Vec<J>>(),
        "pers_sps": tracker.persistent_savepoints,
        "pending_nd": tracker.pending_non_durable_commits.iter().map(|(a, b)| json!([a, b])).collect::<Vec<J>>(),
        "unprocessed": tracker.unprocessed_freed_non_durable_commits,
    });
    ev["hdr"] = json!({
        "primary": hdr.primary_slot, "recovery": hdr.recovery_required, "tpc": hdr.two_phase_commit, "from_sec": hdr.read_from_secondary,
        "txn": [hdr.slots[0].transaction_id, hdr.slots[1].transaction_id],
        "full_regions": hdr.full_regions, "trailing": hdr.trailing_region_pages, "region_pages": hdr.region_max_data_pages,
        "backend_len": backend_len, "layout_len": hdr.layout_len,
    });
    ev
}

impl Exec {
    /// Page accounting at a transaction boundary, including what live readers and savepoints pin
    fn acct(&mut self, op: &J) -> J {
        assert!(self.wtx.is_none(), "HARNESS: acct needs a transaction boundary");
        let db = self.db.as_ref().unwrap();
        let mut ev = account(db, self.store.len());
        ev["settled"] = json!(op.get("settled").and_then(|b| b.as_bool()).unwrap_or(false));
        if ev.get("alloc").is_none() {
            return ev;
        }
        let mut readers = vec![];
        let mut names: Vec<&String> = self.readers.keys().collect();
        names.sort();
        for h in names {
            let rt = &self.readers[h];
            readers.push(json!({"h": h, "id": rt.verif_id(), "pages": expand(&rt.verif_pages().unwrap_or_default())}));
        }
        ev["readers"] = json!(readers);
        let mut sps = vec![];
        let mut names: Vec<&String> = self.sps.keys().collect();
        names.sort();
        for s in names {
            sps.push(json!({"s": s, "pages": expand(&db.verif_savepoint_pages(&self.sps[s]).unwrap_or_default())}));
        }
        ev["sps"] = json!(sps);
        ev["nits"] = json!(self.its.len());
        ev
    }
}

impl Drop for Exec {
    fn drop(&mut self) {
        self.teardown();
    }
}
