pub mod backend;
pub mod codec;
pub mod crash;
pub mod exec;
pub mod r#gen;
pub mod sched;
pub mod util;
pub mod v3;
