//! Specification -> implementation: behaviours TLC generated from Kv.tla (MC_KvPaths.tla, one
//! `<<"PATH", json>>` line each) are executed on the real code; every call must return the result
//! the specification demands, and after every commit the committed catalog must be the one the
//! specification holds.
//!
//!   paths --in tlc_output.txt --seed 1 --fail-out fail.json

use redb_verif_harness::exec::{Config, Exec, default_vlens};
use redb_verif_harness::util::{Args, quiet_panics};
use serde_json::{Value as J, json};
use std::collections::{BTreeMap, BTreeSet, HashMap};

fn as_set(v: &J) -> BTreeSet<String> {
    v.as_array().map(|a| a.iter().map(|x| x.to_string()).collect()).unwrap_or_default()
}

/// does the real result match the specified one?
fn matches(e: &str, want: &J, got: &J, ids: &HashMap<u64, u64>) -> bool {
    if let Some(err) = want.get("err") {
        return got.get("err") == Some(err);
    }
    let (Some(w), Some(g)) = (want.get("ok"), got.get("ok")) else { return false };
    match e {
        "list" => as_set(w) == as_set(g),
        "splist" => {
            let mapped: BTreeSet<String> = w.as_array().unwrap().iter().map(|x| ids.get(&x.as_u64().unwrap()).map_or("?".to_string(), |r| r.to_string())).collect();
            mapped == as_set(g)
        }
        "spp" => g.is_u64(),
        "cend" | "bw" | "br" | "dur" | "open" | "rename" | "spe" | "spreste" | "sprestp" | "abort" => true,
        _ => w == g,
    }
}

fn main() {
    let args = Args::parse();
    quiet_panics();
    let input = args.str("in", "paths.txt");
    let seed = args.u64("seed", 1);
    let mut seen = BTreeSet::new();
    let mut paths: Vec<Vec<J>> = vec![];
    for line in std::fs::read_to_string(&input).unwrap().lines() {
        let Some(rest) = line.strip_prefix("<<\"PATH\", ") else { continue };
        let lit = rest.strip_suffix(">>").unwrap();
        if !seen.insert(lit.to_string()) {
            continue;
        }
        let s: String = serde_json::from_str(lit).unwrap();
        paths.push(serde_json::from_str::<J>(&s).unwrap().as_array().unwrap().clone());
    }
    assert!(!paths.is_empty(), "HARNESS: no behaviours in {input}");
    let (mut calls, mut commits, mut errors_expected, mut catalog_checks) = (0u64, 0u64, 0u64, 0u64);
    let mut kinds: BTreeMap<String, u64> = BTreeMap::new();
    let mut failure: Option<J> = None;
    'paths: for (pi, path) in paths.iter().enumerate() {
        let page_size = [512usize, 4096, 1024][pi % 3];
        let cfg = Config { seed: seed + pi as u64, page_size, region_size: None, cache_size: [1 << 20, 0][pi % 2], nkeys: 64, vlens: default_vlens(page_size), sel: None };
        let mut ex = Exec::new(cfg.clone());
        let mut ids: HashMap<u64, u64> = HashMap::new(); // the specification's savepoint ids -> the real ones
        let mut done: Vec<J> = vec![];
        for step in path {
            let e = step["e"].as_str().unwrap();
            *kinds.entry(e.to_string()).or_default() += 1;
            if e == "cbegin" {
                continue;
            }
            let mut call = step.clone();
            call.as_object_mut().unwrap().remove("r");
            call.as_object_mut().unwrap().remove("after");
            if e == "cend" {
                call = json!({"e": "commit"});
            }
            if matches!(e, "spdel" | "sprestp") {
                let spec_id = step["id"].as_u64().unwrap();
                call["id"] = json!(ids.get(&spec_id).copied().unwrap_or(1_000_000 + spec_id));
            }
            let evs = ex.step(&call);
            calls += 1;
            let got = evs.iter().find_map(|ev| ev.get("r").cloned()).unwrap_or(json!({"ok": 0}));
            done.push(json!({"call": call, "want": step.get("r"), "got": got}));
            let Some(want) = step.get("r") else { continue };
            if want.get("err").is_some() {
                errors_expected += 1;
            }
            if !matches(e, want, &got, &ids) {
                failure = Some(json!({"path": pi, "cfg": cfg.to_json(), "what": format!("{e}: the specification demands {want}, the code returned {got}"), "calls": done, "behaviour": path}));
                break 'paths;
            }
            if e == "spp" && want.get("ok").is_some() {
                ids.insert(want["ok"].as_u64().unwrap(), got["ok"].as_u64().unwrap());
            }
            if e == "cend" {
                commits += 1;
                // the committed catalog: names, kinds, types, keys; persistent savepoints
                let after = &step["after"];
                let obs = redb_verif_harness::exec::observe(ex.db.as_ref().unwrap(), &ex.cx).unwrap_or(json!({"error": 1}));
                let mut real: BTreeMap<String, J> = BTreeMap::new();
                for t in obs["tables"].as_array().cloned().unwrap_or_default() {
                    let keys: Vec<J> = t["c"].as_array().unwrap().iter().map(|p| p[0].clone()).collect();
                    real.insert(t["name"].as_str().unwrap().to_string(), json!({"kind": t["kind"], "kt": t["kt"], "vt": t["vt"], "keys": keys}));
                }
                // an empty record is a JSON array in TLC's output
                let want_tables: BTreeMap<String, J> = after["tables"].as_object().map(|o| o.iter().map(|(k, v)| (k.clone(), v.clone())).collect()).unwrap_or_default();
                let want_psp: BTreeSet<String> = after["psp"].as_array().unwrap().iter().map(|x| ids.get(&x.as_u64().unwrap()).map_or("?".to_string(), |r| r.to_string())).collect();
                catalog_checks += 1;
                if want.get("ok").is_some() && (json!(real) != json!(want_tables) || want_psp != as_set(&obs["psp"])) {
                    failure = Some(json!({"path": pi, "cfg": cfg.to_json(),
                        "what": format!("after commit the specification holds {} / savepoints {:?}, the database shows {} / {}", json!(want_tables), want_psp, json!(real), obs["psp"]),
                        "calls": done, "behaviour": path}));
                    break 'paths;
                }
            }
        }
        ex.teardown();
    }
    if let Some(f) = &failure {
        std::fs::write(args.str("fail-out", "paths_fail.json"), serde_json::to_string_pretty(f).unwrap()).unwrap();
    }
    println!("{}", json!({"behaviours": paths.len(), "calls": calls, "commits": commits, "error_results_specified": errors_expected, "catalog_checks": catalog_checks,
                          "kinds": kinds, "failed": failure.is_some(), "what": failure.as_ref().map(|f| f["what"].clone())}));
}
