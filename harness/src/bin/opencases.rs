//! Specification -> implementation, for the decisions taken when a file is opened (RecoverOps.tla):
//! every combination of the inputs Recover.tla quantifies over is REALISED as a concrete file -
//! god-byte flags, which slot is primary, each slot's own checksum good or bad, the order of the
//! two transaction ids, each slot's trees verifying or not, a current allocator-state table or
//! none, the length of the file against the stored region counts - the real code opens it, and
//! the header before (as the independent decoder sees it) and after is recorded for
//! RecoverTrace.tla.
//!
//!   opencases --out recover.ndjson [--page-size 512]

use redb::{Database, ReadableDatabase, TableDefinition};
use redb_decoder::{Options, decode_header, xxh3_128};
use redb_verif_harness::backend::Store;
use redb_verif_harness::exec::{Config, builder, default_vlens, err_name};
use redb_verif_harness::recover::{post_of, pre_of};
use redb_verif_harness::util::{Args, TraceWriter, quiet_panics};
use serde_json::{Value as J, json};
use std::collections::HashMap;
use std::panic::{AssertUnwindSafe, catch_unwind};

const T: TableDefinition<u64, &[u8]> = TableDefinition::new("t");
const HDR: usize = 64;
const SLOT: usize = 128;

/// a database with two commit points on the storage, both intact; `quick`: the last commit is two-phase with the
/// allocator state saved (what a quick repair needs)
fn base_image(cfg: &Config, quick: bool, commits: u64) -> Vec<u8> {
    let store = Store::new();
    let db: Database = builder(cfg).create_with_backend(store.backend()).unwrap();
    for c in 0..commits {
        let mut w = db.begin_write().unwrap();
        if quick && c + 1 == commits {
            w.set_quick_repair(true);
        }
        {
            let mut t = w.open_table(T).unwrap();
            for k in 0..40u64 {
                t.insert(k * 7 % 64, vec![(c as u8) ^ (k as u8); 20 + (c as usize * 13 + k as usize) % 90].as_slice()).unwrap();
            }
            if c % 2 == 1 {
                t.remove(c % 64).unwrap();
            }
        }
        w.commit().unwrap();
    }
    let image = store.bytes();
    std::mem::forget(db); // as if the process died: nothing more reaches the storage
    image
}

fn slot_range(i: usize) -> std::ops::Range<usize> {
    HDR + i * SLOT..HDR + (i + 1) * SLOT
}

fn set_txn(image: &mut [u8], slot: usize, txn: u64) {
    let r = slot_range(slot);
    image[r.start + 104..r.start + 112].copy_from_slice(&txn.to_le_bytes());
    let sum = xxh3_128(&image[r.start..r.end - 16]);
    image[r.end - 16..r.end].copy_from_slice(&sum.to_le_bytes());
}

fn txn_of(image: &[u8], slot: usize) -> u64 {
    let r = slot_range(slot);
    u64::from_le_bytes(image[r.start + 104..r.start + 112].try_into().unwrap())
}

/// byte offset of a page [region, index, order]
fn page_offset(h: &J, page: &J) -> usize {
    let p = h["page_size"].as_u64().unwrap();
    let l = &h["layout"];
    let region_len = (l["region_header_pages"].as_u64().unwrap() + l["region_max_data_pages"].as_u64().unwrap()) * p;
    (p + page[0].as_u64().unwrap() * region_len + l["region_header_pages"].as_u64().unwrap() * p + page[1].as_u64().unwrap() * (p << page[2].as_u64().unwrap())) as usize
}

fn main() {
    let args = Args::parse();
    quiet_panics();
    let page_size = args.u64("page-size", 512) as usize;
    let mut tw = TraceWriter::create(&args.str("out", "opencases.ndjson"));
    let cfg = Config { seed: 1, page_size, region_size: None, cache_size: 1 << 20, nkeys: 64, vlens: default_vlens(page_size), sel: None };
    let mut seen: HashMap<String, (J, u64)> = HashMap::new();
    let (mut images, mut skipped, mut panics) = (0u64, 0u64, 0u64);
    for quick in [false, true] {
        for commits in [3u64, 4] {
            let base = base_image(&cfg, quick, commits);
            let h = decode_header(&base, &Options { page_size: 0 }).expect("HARNESS: base header");
            let prim = h["god"]["primary"].as_u64().unwrap() as usize;
            assert!(h["slots"][0]["user_root"]["page"] != h["slots"][1]["user_root"]["page"], "HARNESS: the two commit points share their root page");
            let p = page_size;
            for god in 0..8u8 {
                // bit 0: which slot is primary, bit 1: recovery required, bit 2: two-phase
                for bad_sum in 0..4usize {
                    for order in 0..5usize {
                        for damaged in 0..4usize {
                            for length in 0..7usize {
                                let mut img = base.clone();
                                img[9] = god;
                                // the order of the two ids: as written / equal / the other way round (changing either slot)
                                let (a, b) = (txn_of(&img, prim), txn_of(&img, 1 - prim));
                                match order {
                                    1 => set_txn(&mut img, 1 - prim, a),
                                    2 => set_txn(&mut img, 1 - prim, a + 3),
                                    3 => set_txn(&mut img, prim, b),
                                    4 => set_txn(&mut img, prim, b.saturating_sub(1)),
                                    _ => {}
                                }
                                // trees that do not verify: one byte of the slot's own root page
                                for s in 0..2 {
                                    if damaged >> s & 1 == 1 {
                                        let off = page_offset(&h, &h["slots"][s]["user_root"]["page"]);
                                        img[off + 5] ^= 0x40;
                                    }
                                }
                                // a slot whose own checksum does not verify (the stored sum is altered: the fields stay readable)
                                for s in 0..2 {
                                    if bad_sum >> s & 1 == 1 {
                                        let r = slot_range(s);
                                        img[r.end - 3] ^= 0x11;
                                    }
                                }
                                // the length of the file against the stored region counts
                                match length {
                                    1 => img.extend(std::iter::repeat_n(0u8, p)),       // one more page: a layout with a longer trailing region
                                    2 => img.extend(std::iter::repeat_n(0u8, 100)),     // no layout has this length
                                    3 => img.truncate(img.len() - p),                   // cut by a page
                                    4 => img[28..32].copy_from_slice(&((h["layout"]["trailing_pages"].as_u64().unwrap() as u32) - 8).to_le_bytes()), // counts say less
                                    5 => img[28..32].copy_from_slice(&((h["layout"]["trailing_pages"].as_u64().unwrap() as u32) + 8).to_le_bytes()), // counts say more
                                    6 => img[24..28].copy_from_slice(&7u32.to_le_bytes()), // counts name regions that are not there
                                    _ => {}
                                }
                                let Some((pre, pre_h)) = pre_of(&img) else {
                                    skipped += 1;
                                    continue;
                                };
                                images += 1;
                                let store = Store::from_bytes(img);
                                let res = catch_unwind(AssertUnwindSafe(|| match builder(&cfg).create_with_backend(store.backend()) {
                                    Ok(db) => {
                                        let post = post_of(Ok(&store.bytes()), &pre_h);
                                        // (reading on is not part of the decision: a slot that was trusted without verification may hold anything)
                                        let n = catch_unwind(AssertUnwindSafe(|| {
                                            db.begin_read().ok().and_then(|r| r.open_table(T).ok()).and_then(|t| redb::ReadableTableMetadata::len(&t).ok())
                                        }))
                                        .unwrap_or(None);
                                        std::mem::forget(db);
                                        (post, n)
                                    }
                                    Err(e) => {
                                        let e: redb::Error = e.into();
                                        let mut post = post_of(Err(err_name(&e).to_string()), &pre_h);
                                        post["msg"] = json!(e.to_string());
                                        (post, None)
                                    }
                                }));
                                let (post, n) = res.unwrap_or_else(|p| {
                                    panics += 1;
                                    let msg = p.downcast_ref::<String>().cloned().or_else(|| p.downcast_ref::<&str>().map(|s| s.to_string())).unwrap_or_default();
                                    (json!({"err": "panic", "msg": msg}), None)
                                });
                                let rec = json!({"e": "recover", "src": "built", "pre": pre, "post": post, "len_read": n.map_or(-1, |x| x as i64)});
                                let case = json!({"quick": quick, "commits": commits, "god": god, "bad_sum": bad_sum, "order": order, "damaged": damaged, "length": length});
                                seen.entry(rec.to_string()).and_modify(|e| e.1 += 1).or_insert((json!({"rec": rec, "case": case}), 1));
                            }
                        }
                    }
                }
            }
        }
    }
    let mut all: Vec<(String, (J, u64))> = seen.into_iter().collect();
    all.sort_by(|a, b| a.0.cmp(&b.0));
    let distinct = all.len();
    for (_, (j, n)) in all {
        let mut rec = j["rec"].clone();
        rec["n"] = json!(n);
        rec["case"] = j["case"].clone();
        rec["run"] = json!(0);
        rec["at"] = json!(0);
        tw.write(&rec);
    }
    tw.finish();
    println!("{}", json!({"images": images, "distinct": distinct, "undecodable_headers": skipped, "panics": panics}));
}
