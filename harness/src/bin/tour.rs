//! Transition tour: replays every transition TLC generated from MC_Kv (source state, step with
//! the result the specification computes, target state) against the real redb, under a sweep of
//! page sizes, key/value types and value-length classes.
//!
//!   tour --in tour_table.txt --mode table --tier quick --seed 1 --fail-trace fail.ndjson

use rand::rngs::StdRng;
use rand::seq::SliceRandom;
use rand::{RngExt, SeedableRng};
use redb_verif_harness::codec::{Ctx, VBASE};
use redb_verif_harness::exec::{Config, Exec, MULTIMAP_TYPES, TABLE_TYPES, default_vlens};
use redb_verif_harness::util::{Args, TraceWriter, quiet_panics};
use serde_json::{Value as J, json};
use std::collections::BTreeMap;
use std::sync::Mutex;
use std::sync::atomic::{AtomicU64, Ordering};

#[derive(Clone)]
struct Tr {
    step: J,
    dst: J,
}

#[derive(Clone, Debug)]
struct TourCfg {
    page_size: usize,
    cache: usize,
    kt: &'static str,
    vt: &'static str,
    key_sel: Vec<u32>,
    val_sel: Vec<u32>, // abstract value -> vid (bytes values only)
    restore: &'static str, // "abort" | "rebuild" | "commit"
}

fn is_mutation(e: &str) -> bool {
    !matches!(e, "get" | "len" | "edge" | "range" | "mget" | "mrange")
}

struct Runner<'a> {
    mode: &'a str,
    tc: &'a TourCfg,
    ex: Exec,
    log: Vec<J>, // events so far (for the failure trace)
}

impl Runner<'_> {
    fn step(&mut self, s: J) -> J {
        let evs = self.ex.step(&s);
        let r = evs.iter().find_map(|e| e.get("r").cloned()).unwrap_or(json!({"ok": 0}));
        self.log.extend(evs);
        r
    }

    fn open(&mut self) {
        let kind = if self.mode == "table" { "t" } else { "m" };
        let r = self.step(json!({"e": "open", "n": "a", "kind": kind, "kt": self.tc.kt, "vt": self.tc.vt}));
        assert!(r.get("ok").is_some(), "open failed: {r}");
    }

    fn put_src(&mut self, src: &J, rng: &mut StdRng) {
        let mut pairs: Vec<J> = src.as_array().unwrap().clone();
        pairs.shuffle(rng);
        for p in pairs {
            if self.mode == "table" {
                self.step(json!({"e": "ins", "n": "a", "k": p[0], "v": p[1]}));
            } else {
                let mut vals = p[1].as_array().unwrap().clone();
                vals.shuffle(rng);
                for v in vals {
                    self.step(json!({"e": "mins", "n": "a", "k": p[0], "v": v}));
                }
            }
        }
    }

    fn clear(&mut self, nkeys: u64) {
        for k in 0..nkeys {
            if self.mode == "table" {
                self.step(json!({"e": "rem", "n": "a", "k": k}));
            } else {
                self.step(json!({"e": "mremall", "n": "a", "k": k}));
            }
        }
    }

    fn dump(&mut self) -> J {
        let r = if self.mode == "table" {
            self.step(json!({"e": "range", "src": "w", "n": "a", "lo": {"t": "u"}, "hi": {"t": "u"}, "cnt": 100000, "rev": false, "alt": false}))
        } else {
            self.step(json!({"e": "mrange", "src": "w", "n": "a", "lo": {"t": "u"}, "hi": {"t": "u"}, "rev": false}))
        };
        r.get("ok").cloned().unwrap_or(r)
    }
}

fn main() {
    let args = Args::parse();
    quiet_panics();
    let mode = args.str("mode", "table");
    let tier = args.str("tier", "quick");
    let seed = args.u64("seed", 1);
    let input = args.str("in", "tour.txt");
    let fail_trace = args.str("fail-trace", "tour_fail.ndjson");
    let threads = args.u64("threads", 12) as usize;

    // parse the TLC output
    let mut groups: BTreeMap<String, (J, Vec<Tr>)> = BTreeMap::new();
    let mut ntr = 0u64;
    let mut nkeys = 0u64;
    let mut nvals = 0u64;
    for line in std::fs::read_to_string(&input).unwrap().lines() {
        let Some(rest) = line.strip_prefix("<<\"TR\", ") else { continue };
        let lit = rest.strip_suffix(">>").unwrap();
        let s: String = serde_json::from_str(lit).unwrap();
        let j: J = serde_json::from_str(&s).unwrap();
        if j["mode"].as_str() != Some(mode.as_str()) {
            continue;
        }
        if let Some(k) = j["step"].get("k").and_then(|k| k.as_u64()) {
            nkeys = nkeys.max(k + 1);
        }
        if let Some(v) = j["step"].get("v").and_then(|v| v.as_u64()) {
            nvals = nvals.max(v + 1);
        }
        let key = j["src"].to_string();
        groups.entry(key).or_insert_with(|| (j["src"].clone(), vec![])).1.push(Tr { step: j["step"].clone(), dst: j["dst"].clone() });
        ntr += 1;
    }
    assert!(ntr > 0, "no transitions in {input}");
    let nsel = nkeys.max(nvals) as usize;

    // the configuration sweep
    let mut rng = StdRng::seed_from_u64(seed);
    let page_sizes: Vec<usize> = if tier == "quick" { vec![512, 4096] } else { vec![512, 1024, 2048, 4096, 8192, 16384] };
    let types: Vec<(&'static str, &'static str)> = if mode == "table" { TABLE_TYPES.to_vec() } else { MULTIMAP_TYPES.to_vec() };
    let nvar = if tier == "quick" { 2 } else { 6 };
    let mut cfgs = vec![];
    for &p in &page_sizes {
        let nclasses = default_vlens(p).len() as u32;
        for &(kt, vt) in &types {
            for var in 0..nvar {
                // key selection: nsel increasing corpus indices out of 64; always try the extremes
                let mut sel: Vec<u32> = (0..64).collect();
                sel.shuffle(&mut rng);
                sel.truncate(nsel);
                if var == 0 {
                    sel[0] = 0; // the empty key
                }
                if var % 2 == 1 {
                    // long keys / multimap values (quarter page and more): inline vs subtree storage
                    let probe = Ctx::new(seed + cfgs.len() as u64, p, 64, default_vlens(p));
                    let ty = if mode == "multimap" { vt } else { kt };
                    let long = probe.long_keys(ty);
                    for (i, l) in long.iter().take(2).enumerate() {
                        if i + 1 < sel.len() {
                            sel[i + 1] = *l;
                        }
                    }
                }
                sel.sort_unstable();
                sel.dedup();
                while sel.len() < nsel {
                    let x = rng.random_range(0..64);
                    if !sel.contains(&x) {
                        sel.push(x);
                        sel.sort_unstable();
                    }
                }
                // value classes: distinct classes per abstract value; variants lean to big values
                let mut vs = vec![];
                let mut used = vec![];
                for v in 0..nvals.max(3) {
                    let mut c;
                    loop {
                        c = if var % 2 == 0 { rng.random_range(0..nclasses) } else { rng.random_range(5.min(nclasses - 1)..nclasses) };
                        if !used.contains(&c) {
                            break;
                        }
                    }
                    used.push(c);
                    // a class of zero-length values has one value only
                    let idx = if default_vlens(p)[c as usize] == 0 { 0 } else { (v as u32 + 1) % 2 };
                    vs.push(c * VBASE + idx);
                }
                let restore = ["abort", "rebuild", "commit"][var % 3];
                let cache = if var % 4 == 3 { 0 } else { 1 << 20 };
                cfgs.push(TourCfg { page_size: p, cache, kt, vt, key_sel: sel, val_sel: vs, restore });
            }
        }
    }

    let work: Vec<(usize, &String)> = cfgs.iter().enumerate().flat_map(|(i, _)| groups.keys().map(move |g| (i, g))).collect();
    let next = AtomicU64::new(0);
    let executed = AtomicU64::new(0);
    let mutations = AtomicU64::new(0);
    let panics = AtomicU64::new(0);
    let failures: Mutex<Vec<J>> = Mutex::new(vec![]);
    let samples: Mutex<Vec<J>> = Mutex::new(vec![]);
    let distinct: Mutex<std::collections::HashSet<String>> = Mutex::new(Default::default());

    std::thread::scope(|sc| {
        for _ in 0..threads {
            sc.spawn(|| {
                loop {
                    let w = next.fetch_add(1, Ordering::Relaxed) as usize;
                    if w >= work.len() {
                        break;
                    }
                    let (ci, gkey) = work[w];
                    let tc = &cfgs[ci];
                    let (src, trs) = &groups[gkey];
                    let mut rng = StdRng::seed_from_u64(seed ^ (w as u64).wrapping_mul(0x9e37_79b9));
                    let cfg = Config { seed: seed + ci as u64, page_size: tc.page_size, region_size: None, cache_size: tc.cache, nkeys: 64, vlens: default_vlens(tc.page_size),
                                       sel: Some((tc.key_sel.clone(), tc.val_sel.clone())) };
                    let ex = Exec::new(cfg.clone());
                    let mut r = Runner { mode: &mode, tc, ex, log: vec![json!({"e": "reset", "cfg": cfg.to_json()})] };
                    r.step(json!({"e": "bw"}));
                    r.open();
                    r.put_src(src, &mut rng);
                    if tc.restore != "rebuild" {
                        r.step(json!({"e": "close", "n": "a"}));
                        r.step(json!({"e": "commit"}));
                        r.step(json!({"e": "bw"}));
                        r.open();
                    }
                    let mut local_distinct = vec![];
                    for tr in trs {
                        let e = tr.step["e"].as_str().unwrap();
                        let mut step = tr.step.clone();
                        let expected = step.as_object_mut().unwrap().remove("r").unwrap();
                        let mark = r.log.len();
                        let actual = r.step(step.clone());
                        executed.fetch_add(1, Ordering::Relaxed);
                        let mut bad = actual.get("ok") != expected.get("ok");
                        let mut dst_actual = J::Null;
                        if is_mutation(e) {
                            mutations.fetch_add(1, Ordering::Relaxed);
                            dst_actual = r.dump();
                            if dst_actual != tr.dst {
                                bad = true;
                            }
                            // len() must count the entries (pairs) of the target state
                            let want_len: u64 = if mode == "table" {
                                tr.dst.as_array().unwrap().len() as u64
                            } else {
                                tr.dst.as_array().unwrap().iter().map(|p| p[1].as_array().unwrap().len() as u64).sum()
                            };
                            let got_len = r.step(json!({"e": "len", "src": "w", "n": "a"}));
                            if got_len.get("ok").and_then(|x| x.as_u64()) != Some(want_len) {
                                bad = true;
                            }
                            if tc.restore == "commit" && !bad {
                                // commit the transition and look at it through a reader
                                r.step(json!({"e": "close", "n": "a"}));
                                r.step(json!({"e": "commit"}));
                                r.step(json!({"e": "br", "h": "r"}));
                                let d = r.step(json!({"e": "dump", "src": "r"}));
                                let _ = d;
                                let seen = r.log.last().unwrap()["obs"]["tables"][0]["c"].clone();
                                if seen != tr.dst {
                                    bad = true;
                                    dst_actual = seen;
                                }
                                r.step(json!({"e": "dr", "h": "r"}));
                                r.step(json!({"e": "bw"}));
                                r.open();
                            }
                        }
                        if bad {
                            let mut f = failures.lock().unwrap();
                            if f.len() < 20 {
                                f.push(json!({"cfg": format!("{tc:?}"), "src": src, "step": step, "expected": expected, "actual": actual,
                                              "dst_expected": tr.dst, "dst_actual": dst_actual, "trace": r.log.clone()}));
                            }
                            break; // the state is no longer the one the next transition expects
                        }
                        local_distinct.push(format!("{}|{}|{}|{}", tc.page_size, tc.kt, gkey, step));
                        if is_mutation(e) {
                            match tc.restore {
                                "abort" => {
                                    r.step(json!({"e": "close", "n": "a"}));
                                    r.step(json!({"e": if rng.random_range(0..2) == 0 { "abort" } else { "dropw" }}));
                                    r.step(json!({"e": "bw"}));
                                    r.open();
                                }
                                _ => {
                                    r.clear(nkeys);
                                    r.put_src(src, &mut rng);
                                }
                            }
                        }
                        // keep the failure trace short: forget steps of finished transitions
                        if r.log.len() > 4000 {
                            r.log.truncate(mark.min(1));
                            r.log.push(json!({"e": "note", "what": "log truncated"}));
                        }
                    }
                    panics.fetch_add(r.ex.panics, Ordering::Relaxed);
                    distinct.lock().unwrap().extend(local_distinct);
                    let mut s = samples.lock().unwrap();
                    if s.len() < 3 {
                        s.push(json!({"cfg": format!("{tc:?}"), "src": src, "step": trs[trs.len() / 2].step}));
                    }
                }
            });
        }
    });

    let failures = failures.into_inner().unwrap();
    if let Some(f) = failures.first() {
        let mut tw = TraceWriter::create(&fail_trace);
        for ev in f["trace"].as_array().unwrap() {
            tw.write(ev);
        }
        tw.finish();
    }
    let brief: Vec<J> = failures
        .iter()
        .map(|f| {
            let mut f = f.clone();
            f.as_object_mut().unwrap().remove("trace");
            f
        })
        .collect();
    println!(
        "{}",
        json!({"mode": mode, "transitions": ntr, "states": groups.len(), "configs": cfgs.len(), "executed": executed.load(Ordering::Relaxed),
               "mutations": mutations.load(Ordering::Relaxed), "distinct": distinct.lock().unwrap().len(),
               "panics": panics.load(Ordering::Relaxed), "failures": brief, "samples": *samples.lock().unwrap()})
    );
}
