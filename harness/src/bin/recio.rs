//! The recovery as the storage backend sees it (the R* actions of Commit.tla, judged by
//! CommitTrace.tla): crash images of random histories are opened on a recording backend; every
//! backend call of the open becomes one trace line (header writes decoded), framed by what the
//! image held before (header, do the trees of each slot verify - by the independent decoder)
//! and the header in memory when the open returned.
//!
//!   recio --seed 1 --runs 4 --steps 80 --every 5 --out trace.ndjson

use rand::SeedableRng;
use rand::rngs::StdRng;
use redb_verif_harness::backend::{Op, Store};
use redb_verif_harness::crash::{build_image, enumerate_cases, for_each_crash_point};
use redb_verif_harness::exec::{Config, Exec, builder, default_vlens};
use redb_verif_harness::r#gen::{Gen, Profile};
use redb_verif_harness::recover::pre_of;
use redb_verif_harness::util::{Args, TraceWriter, quiet_panics};
use serde_json::{Value as J, json};
use std::collections::BTreeMap;
use std::panic::{AssertUnwindSafe, catch_unwind};

fn le64(b: &[u8]) -> u64 {
    u64::from_le_bytes(b[..8].try_into().unwrap())
}

fn decode_header(d: &[u8]) -> Option<J> {
    if d.len() < 320 {
        return None;
    }
    let god = d[9];
    let slot = |i: usize| {
        let s = &d[64 + 128 * i..64 + 128 * (i + 1)];
        json!({"txn": le64(&s[104..112])})
    };
    Some(json!({"primary": (god & 1) + 1, "rec": god & 2 != 0, "tpc": god & 4 != 0, "slots": [slot(0), slot(1)]}))
}

fn main() {
    let args = Args::parse();
    quiet_panics();
    let seed = args.u64("seed", 1);
    let runs = args.u64("runs", 4);
    let steps = args.u64("steps", 80);
    let every = args.u64("every", 5);
    let profile = args.str("profile", "crash");
    let mut tw = TraceWriter::create(&args.str("out", "recio.ndjson"));
    let (mut opened, mut skipped, mut failed, mut nlines) = (0u64, 0u64, 0u64, 0u64);
    let mut shapes: BTreeMap<String, u64> = BTreeMap::new();
    for run in 0..runs {
        let rseed = seed.wrapping_mul(104_729).wrapping_add(run);
        let page_size = [512usize, 1024, 4096][(run % 3) as usize];
        let cfg = Config { seed: rseed, page_size, region_size: if run % 4 == 3 { Some(1 << 16) } else { None },
                           cache_size: [1 << 20, 0, 8 * page_size][(run % 3) as usize], nkeys: 64, vlens: default_vlens(page_size), sel: None };
        let mut rng = StdRng::seed_from_u64(rseed);
        let mut ex = Exec::new(cfg.clone());
        ex.step(&json!({"e": "reopen"}));
        let base = ex.store.bytes();
        ex.store.start_recording();
        let mut g = Gen::new(Profile::by_name(&profile), &ex.cx);
        for _ in 0..steps {
            let step = g.next(&mut rng);
            let evs = ex.step(&step);
            g.observe(&evs);
        }
        while let Some(step) = g.drain_one() {
            let evs = ex.step(&step);
            g.observe(&evs);
        }
        let log = ex.store.take_log();
        drop(ex);
        let mut seen: BTreeMap<String, (Vec<J>, u64)> = BTreeMap::new();
        let mut w = 0u64;
        for_each_crash_point(&base, &log, |c, durable, pending| {
            for case in enumerate_cases(pending, &mut rng, 5, 4) {
                w += 1;
                if w % every != 0 {
                    continue;
                }
                let image = build_image(durable, pending, &case);
                let Some((pre, _)) = pre_of(&image) else {
                    skipped += 1;
                    continue;
                };
                if pre["rec"] != json!(true) || pre["slots"][0]["hok"] != json!(true) || pre["slots"][1]["hok"] != json!(true) {
                    // (Commit.tla writes a slot whole; torn slots are RecoverTrace's business)
                    skipped += 1;
                    continue;
                }
                let store = Store::from_bytes(image.clone());
                store.start_recording();
                let res = catch_unwind(AssertUnwindSafe(|| builder(&cfg).create_with_backend(store.backend())));
                let mut lines = vec![json!({"e": "rreset", "disk": decode_header(&image), "serv": [pre["slots"][0]["serv"], pre["slots"][1]["serv"]]})];
                for op in store.take_log() {
                    lines.push(match op {
                        Op::Write { off: 0, data } => match decode_header(&data) {
                            Some(h) => json!({"e": "hdr", "h": h, "len": data.len()}),
                            None => json!({"e": "page", "off": 0, "len": data.len()}),
                        },
                        Op::Write { off, data } => json!({"e": "page", "off": off, "len": data.len()}),
                        Op::SetLen(n) => json!({"e": "setlen", "len": n}),
                        Op::Sync => json!({"e": "sync"}),
                        Op::Close => json!({"e": "bclose"}),
                    });
                }
                match res {
                    Ok(Ok(db)) => {
                        let h = db.verif_header();
                        lines.push(json!({"e": "ropen", "hdr": {"primary": h.primary_slot + 1, "rec": h.recovery_required, "tpc": h.two_phase_commit,
                                                                "txn": [h.slots[0].transaction_id, h.slots[1].transaction_id]}}));
                        std::mem::forget(db);
                        opened += 1;
                    }
                    _ => {
                        // a refused or panicking open of a crash image is judged by the crash driver (Kv!CrashAtomic)
                        failed += 1;
                        continue;
                    }
                }
                let shape: String = lines.iter().map(|l| l["e"].as_str().unwrap().chars().next().unwrap()).collect();
                *shapes.entry(shape).or_default() += 1;
                let key = J::Array(lines.clone()).to_string();
                seen.entry(key).and_modify(|e| e.1 += 1).or_insert((lines, 1));
                let _ = c;
            }
        });
        for (i, (_, (lines, n))) in seen.into_iter().enumerate() {
            for (j, mut l) in lines.into_iter().enumerate() {
                l["run"] = json!(run);
                l["i"] = json!(i * 100 + j);
                if j == 0 {
                    l["n"] = json!(n);
                }
                tw.write(&l);
                nlines += 1;
            }
        }
    }
    tw.finish();
    println!("{}", json!({"runs": runs, "opens": opened, "skipped": skipped, "opens_that_failed": failed, "lines": nlines, "io_shapes": shapes}));
}
