//! The durability protocol as the storage backend sees it (Commit.tla / CommitTrace.tla): random
//! histories on a recording backend; every backend call becomes one trace line (page write, header
//! write with the god byte and the two slots decoded, sync, set_len), interleaved with markers for
//! the API calls that caused them (commit begin/end with the kind of commit and the header in memory
//! afterwards, open, close, compaction, integrity check).
//!
//!   commitio --seed 1 --runs 6 --steps 200 --out trace.ndjson

use rand::SeedableRng;
use rand::rngs::StdRng;
use redb_verif_harness::backend::Op;
use redb_verif_harness::exec::{Config, Exec, default_vlens};
use redb_verif_harness::r#gen::{Gen, Profile};
use redb_verif_harness::util::{Args, TraceWriter, quiet_panics};
use serde_json::{Value as J, json};

fn le64(b: &[u8]) -> u64 {
    u64::from_le_bytes(b[..8].try_into().unwrap())
}

/// god byte and the transaction ids of the two commit slots of a header image
fn decode_header(d: &[u8]) -> Option<J> {
    if d.len() < 320 {
        return None;
    }
    let god = d[9];
    let slot = |i: usize| {
        let s = &d[64 + 128 * i..64 + 128 * (i + 1)];
        json!({"txn": le64(&s[104..112]), "data": s[1] != 0, "sys": s[2] != 0, "root": le64(&s[8..16]) & 0xff_ffff_ffff})
    };
    Some(json!({"primary": (god & 1) + 1, "rec": god & 2 != 0, "tpc": god & 4 != 0, "magic": d[0] == b'r', "slots": [slot(0), slot(1)],
                "regions": [u32::from_le_bytes(d[24..28].try_into().unwrap()), u32::from_le_bytes(d[28..32].try_into().unwrap())],
                "geom": [u32::from_le_bytes(d[16..20].try_into().unwrap()), u32::from_le_bytes(d[20..24].try_into().unwrap())]}))
}

fn mem_header(ex: &Exec) -> J {
    match ex.db.as_ref() {
        Some(db) => {
            let h = db.verif_header();
            json!({"primary": h.primary_slot + 1, "rec": h.recovery_required, "tpc": h.two_phase_commit, "from_sec": h.read_from_secondary,
                   "txn": [h.slots[0].transaction_id, h.slots[1].transaction_id]})
        }
        None => json!(0),
    }
}

fn main() {
    let args = Args::parse();
    quiet_panics();
    let seed = args.u64("seed", 1);
    let runs = args.u64("runs", 4);
    let steps = args.u64("steps", 150);
    let profile = args.str("profile", "crash");
    let mut tw = TraceWriter::create(&args.str("out", "commitio.ndjson"));
    let (mut nops, mut nhdr, mut ncommits, mut nlines) = (0u64, 0u64, 0u64, 0u64);
    let mut kinds = std::collections::BTreeMap::<String, u64>::new();
    for run in 0..runs {
        let rseed = seed.wrapping_mul(6_700_417).wrapping_add(run);
        let page_size = [512usize, 1024, 4096][(run % 3) as usize];
        let cfg = Config { seed: rseed, page_size, region_size: if run % 4 == 3 { Some(1 << 16) } else { None },
                           cache_size: [1 << 20, 0, 8 * page_size][(run % 3) as usize], nkeys: 64, vlens: default_vlens(page_size), sel: None };
        let mut rng = StdRng::seed_from_u64(rseed);
        let mut ex = Exec::new(cfg.clone());
        ex.step(&json!({"e": "reopen"}));
        ex.store.start_recording();
        let mut g = Gen::new(Profile::by_name(&profile), &ex.cx);
        let mut lines: Vec<J> = vec![json!({"e": "reset", "cfg": cfg.to_json(), "hdr": mem_header(&ex), "disk": decode_header(&ex.store.bytes()), "len": ex.store.len()})];
        // kind of the commit the open write transaction will make
        let (mut nd, mut tp, mut sp) = (false, false, false);
        let mut consumed = 0usize;
        let mut emit_ops = |ex: &Exec, lines: &mut Vec<J>, upto: usize, consumed: &mut usize| {
            let log: Vec<Op> = {
                let g = ex.store.inner.lock().unwrap();
                g.log[*consumed..upto.min(g.log.len())].to_vec()
            };
            for op in log {
                *consumed += 1;
                lines.push(match op {
                    Op::Write { off: 0, data } => match decode_header(&data) {
                        Some(h) => json!({"e": "hdr", "h": h, "len": data.len()}),
                        None => json!({"e": "page", "off": 0, "len": data.len()}),
                    },
                    Op::Write { off, data } => json!({"e": "page", "off": off, "len": data.len()}),
                    Op::SetLen(n) => json!({"e": "setlen", "len": n}),
                    Op::Sync => json!({"e": "sync"}),
                    Op::Close => json!({"e": "bclose"}),
                });
            }
        };
        let mut run_step = |ex: &mut Exec, g: &mut Gen, step: J, lines: &mut Vec<J>, nd: &mut bool, tp: &mut bool, sp: &mut bool, consumed: &mut usize| {
            let e = step["e"].as_str().unwrap().to_string();
            match e.as_str() {
                "bw" => {
                    *nd = false;
                    *tp = false;
                    *sp = false;
                }
                "dur" => *nd = step["d"] == "none",
                "2pc" | "qr" => *tp = *tp || step["on"].as_bool().unwrap(),
                _ => {}
            }
            let before = ex.store.log_len();
            if e == "commit" {
                emit_ops(ex, lines, before, consumed);
                lines.push(json!({"e": "cbegin", "kind": if *nd { "nd" } else if *tp { "2pc" } else { "1pc" }, "sp": *sp}));
            } else if matches!(e.as_str(), "reopen" | "compact" | "integrity" | "abort" | "dropw") {
                emit_ops(ex, lines, before, consumed);
                lines.push(json!({"e": "mbegin", "what": e}));
            }
            let evs = ex.step(&step);
            g.observe(&evs);
            let after = ex.store.log_len();
            // a transaction that created a persistent savepoint writes everything out before its commit slot (fix
            // recorded in known_findings.txt)
            if e == "spp" && evs.iter().any(|x| x["e"] == "spp" && x["r"].get("ok").is_some()) {
                *sp = true;
            }
            emit_ops(ex, lines, after, consumed);
            if e == "commit" {
                let r = evs.iter().find(|x| x["e"] == "cend").map(|x| x["r"].clone()).unwrap_or(json!(0));
                lines.push(json!({"e": "cend", "ok": r.get("ok").is_some(), "hdr": mem_header(ex), "disk": decode_header(&ex.store.prefix(320))}));
            } else if matches!(e.as_str(), "reopen" | "compact" | "integrity" | "abort" | "dropw") {
                lines.push(json!({"e": "mend", "what": e, "hdr": mem_header(ex)}));
            }
        };
        let mut i = 0;
        while i < steps {
            let step = g.next(&mut rng);
            run_step(&mut ex, &mut g, step, &mut lines, &mut nd, &mut tp, &mut sp, &mut consumed);
            i += 1;
        }
        while let Some(step) = g.drain_one() {
            run_step(&mut ex, &mut g, step, &mut lines, &mut nd, &mut tp, &mut sp, &mut consumed);
        }
        for step in g.final_steps() {
            run_step(&mut ex, &mut g, step, &mut lines, &mut nd, &mut tp, &mut sp, &mut consumed);
        }
        lines.push(json!({"e": "mbegin", "what": "close"}));
        ex.teardown();
        let total = ex.store.log_len();
        emit_ops(&ex, &mut lines, total, &mut consumed);
        lines.push(json!({"e": "mend", "what": "close", "hdr": 0}));
        for (i, mut l) in lines.into_iter().enumerate() {
            *kinds.entry(l["e"].as_str().unwrap().to_string()).or_default() += 1;
            match l["e"].as_str().unwrap() {
                "hdr" => nhdr += 1,
                "cend" => ncommits += 1,
                _ => {}
            }
            if matches!(l["e"].as_str().unwrap(), "hdr" | "page" | "sync" | "setlen") {
                nops += 1;
            }
            l["run"] = json!(run);
            l["i"] = json!(i);
            tw.write(&l);
            nlines += 1;
        }
    }
    tw.finish();
    println!("{}", json!({"runs": runs, "lines": nlines, "backend_ops": nops, "header_writes": nhdr, "commits": ncommits, "kinds": kinds}));
}
