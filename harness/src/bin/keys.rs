//! C15: for every built-in key type, a corpus of native values; logs for every ordered pair the
//! native order and redb's `Key::compare` on the encodings, for every a < b the separator's
//! contract data, and the encode/decode round trip.  KeyOrderTrace.tla judges the records.
//!
//!   keys --seed 1 --size 40 --out trace.ndjson

use rand::rngs::StdRng;
use rand::{RngExt, SeedableRng};
use redb::{Key, Value};
use redb_verif_harness::util::{Args, TraceWriter, quiet_panics};
use serde_json::json;
use std::cmp::Ordering;

fn to_vec<B: AsRef<[u8]>>(b: B) -> Vec<u8> {
    b.as_ref().to_vec()
}

fn code(o: Ordering) -> u8 {
    match o {
        Ordering::Less => 0,
        Ordering::Equal => 1,
        Ordering::Greater => 2,
    }
}

struct Stats {
    pairs: u64,
    seps: u64,
    shorter: u64,
    rts: u64,
}

/// `enc` encodes a native value with the type's `Value::as_bytes`; `rt` decodes bytes and says
/// whether they decode to the given native value and re-encode to themselves
fn run<K: Key + 'static, N: Ord + Clone + std::fmt::Debug>(
    tw: &mut TraceWriter, st: &mut Stats, name: &str, corpus: &[N], enc: &dyn Fn(&N) -> Vec<u8>, rt: &dyn Fn(&[u8], &N) -> bool, valid: &dyn Fn(&[u8]) -> bool,
) {
    let encs: Vec<Vec<u8>> = corpus.iter().map(|v| enc(v)).collect();
    for (i, v) in corpus.iter().enumerate() {
        let ok = std::panic::catch_unwind(std::panic::AssertUnwindSafe(|| rt(&encs[i], v))).unwrap_or(false);
        tw.write(&json!({"e": "rt", "t": name, "ok": ok, "v": format!("{v:?}").chars().take(60).collect::<String>()}));
        st.rts += 1;
    }
    for i in 0..corpus.len() {
        for j in 0..corpus.len() {
            let ord = corpus[i].cmp(&corpus[j]);
            let cmp = K::compare(&encs[i], &encs[j]);
            let rev = K::compare(&encs[j], &encs[i]);
            tw.write(&json!({"e": "pair", "t": name, "ord": code(ord), "cmp": code(cmp), "rev": code(rev), "a": i, "b": j}));
            st.pairs += 1;
            if ord == Ordering::Less {
                let r = std::panic::catch_unwind(std::panic::AssertUnwindSafe(|| {
                    let s = K::separator(&encs[i], &encs[j]).into_owned();
                    let ok = valid(&s);
                    (s.len(), code(K::compare(&encs[i], &s)), code(K::compare(&s, &encs[j])), ok)
                }));
                let (ls, cas, csb, ok) = r.unwrap_or((usize::MAX >> 40, 2, 2, false));
                if ls < encs[i].len() {
                    st.shorter += 1;
                }
                tw.write(&json!({"e": "sep", "t": name, "la": encs[i].len(), "ls": ls, "cas": cas, "csb": csb, "valid": ok, "a": i, "b": j}));
                st.seps += 1;
            }
        }
    }
}

macro_rules! ints {
    ($tw:expr, $st:expr, $rng:expr, $size:expr, $($t:ty),*) => {$({
        let mut c: Vec<$t> = vec![<$t>::MIN, <$t>::MAX, 0 as $t, 1 as $t, (<$t>::MAX / 2), (<$t>::MIN / 2)];
        if <$t>::MIN != 0 { c.push((0 as $t).wrapping_sub(1)); }
        if std::mem::size_of::<$t>() == 1 {
            c = (<$t>::MIN..=<$t>::MAX).step_by(5).collect();
            c.push(<$t>::MAX);
        } else {
            // values that differ in exactly one byte position, and random ones
            for sh in (0..(8 * std::mem::size_of::<$t>())).step_by(8) { c.push((1 as $t) << sh); c.push(((1 as $t) << sh).wrapping_add(1)); }
            // both sides of every byte / half-word / word / double-word boundary (where a comparison that works on parts of
            // the value changes parts, and where a part's top bit flips), with their negations
            for b in [7usize, 8, 15, 16, 31, 32, 63, 64] {
                if b < 8 * std::mem::size_of::<$t>() {
                    let p = (1 as $t) << b;
                    for v in [p.wrapping_sub(1), p, p.wrapping_add(1)] {
                        c.push(v);
                        c.push((0 as $t).wrapping_sub(v));
                        // the same low part under a non-zero high part
                        c.push(v ^ (<$t>::MAX / 3).wrapping_shl((b + 1) as u32 % (8 * std::mem::size_of::<$t>() as u32)));
                    }
                }
            }
            while c.len() < $size { c.push($rng.random::<$t>()); }
        }
        c.sort(); c.dedup();
        run::<$t, $t>($tw, $st, stringify!($t), &c, &|v| to_vec(<$t as Value>::as_bytes(v)),
            &|b, v| <$t as Value>::from_bytes(b) == *v && <$t as Value>::as_bytes(&<$t as Value>::from_bytes(b)).as_ref() == b,
            &|b| b.len() == std::mem::size_of::<$t>());
    })*};
}

fn strings(rng: &mut StdRng, n: usize) -> Vec<String> {
    let alphabet = ['\u{0}', 'a', 'b', '\u{7f}', '\u{80}', 'é', '\u{7ff}', '\u{800}', '€', '\u{ffff}', '\u{10000}', '😀', '\u{10ffff}'];
    let mut c: Vec<String> = vec![String::new(), "a".into(), "aa".into(), "ab".into(), "a\u{0}".into(), "é".into(), "éa".into(), "€".into(), "€€".into(), "😀".into(), "😀a".into()];
    while c.len() < n {
        let len = rng.random_range(0..6);
        let base = c[rng.random_range(0..c.len())].clone();
        let mut s = if rng.random_range(0..2) == 0 { base } else { String::new() };
        for _ in 0..len {
            s.push(alphabet[rng.random_range(0..alphabet.len())]);
        }
        c.push(s);
    }
    c.sort();
    c.dedup();
    c
}

fn byte_strings(rng: &mut StdRng, n: usize) -> Vec<Vec<u8>> {
    let alphabet = [0u8, 1, 0x61, 0x7f, 0x80, 0xfe, 0xff];
    let mut c: Vec<Vec<u8>> = vec![vec![], vec![0], vec![0, 0], vec![0xff], vec![0xff, 0xff], vec![0x61], vec![0x61, 0], vec![0x61, 0x61]];
    while c.len() < n {
        let len = rng.random_range(0..6);
        let base = c[rng.random_range(0..c.len())].clone();
        let mut s = if rng.random_range(0..2) == 0 { base } else { vec![] };
        for _ in 0..len {
            s.push(alphabet[rng.random_range(0..alphabet.len())]);
        }
        c.push(s);
    }
    c.sort();
    c.dedup();
    c
}

fn main() {
    let args = Args::parse();
    quiet_panics();
    let seed = args.u64("seed", 1);
    let size = args.u64("size", 36) as usize;
    let mut rng = StdRng::seed_from_u64(seed);
    let mut tw = TraceWriter::create(&args.str("out", "keys.ndjson"));
    let mut st = Stats { pairs: 0, seps: 0, shorter: 0, rts: 0 };
    let tw = &mut tw;
    let st = &mut st;

    ints!(tw, st, rng, size, u8, u16, u32, u64, u128, i8, i16, i32, i64, i128);

    run::<bool, bool>(tw, st, "bool", &[false, true], &|v| to_vec(<bool as Value>::as_bytes(v)), &|b, v| <bool as Value>::from_bytes(b) == *v, &|b| b.len() == 1);
    run::<(), ()>(tw, st, "()", &[()], &|_| vec![], &|_, _| true, &|b| b.is_empty());

    let mut chars: Vec<char> = vec!['\u{0}', 'a', '\u{7f}', '\u{80}', '\u{7ff}', '\u{800}', '\u{d7ff}', '\u{e000}', '\u{ffff}', '\u{10000}', '\u{10ffff}', 'é', '€', '😀'];
    while chars.len() < size {
        if let Some(c) = char::from_u32(rng.random_range(0..0x11_0000)) {
            chars.push(c);
        }
    }
    chars.sort();
    chars.dedup();
    run::<char, char>(tw, st, "char", &chars, &|v| to_vec(<char as Value>::as_bytes(v)), &|b, v| <char as Value>::from_bytes(b) == *v, &|b| b.len() == 3);

    let ss = strings(&mut rng, size);
    run::<&str, String>(tw, st, "&str", &ss, &|v| v.as_bytes().to_vec(),
        &|b, v| <&str as Value>::from_bytes(b) == v.as_str(), &|b| std::str::from_utf8(b).is_ok());
    run::<String, String>(tw, st, "String", &ss, &|v| <String as Value>::as_bytes(v).as_bytes().to_vec(),
        &|b, v| <String as Value>::from_bytes(b) == *v, &|b| std::str::from_utf8(b).is_ok());

    let bs = byte_strings(&mut rng, size);
    run::<&[u8], Vec<u8>>(tw, st, "&[u8]", &bs, &|v| v.clone(), &|b, v| <&[u8] as Value>::from_bytes(b) == v.as_slice(), &|_| true);

    let mut arr4: Vec<[u8; 4]> = vec![[0; 4], [0xff; 4], [0, 0, 0, 1], [1, 0, 0, 0], [0, 0xff, 0, 0]];
    while arr4.len() < size {
        arr4.push(rng.random());
    }
    arr4.sort();
    arr4.dedup();
    run::<&[u8; 4], [u8; 4]>(tw, st, "&[u8;4]", &arr4, &|v| v.to_vec(), &|b, v| <&[u8; 4] as Value>::from_bytes(b) == v, &|b| b.len() == 4);

    // Option
    let mut ou: Vec<Option<u64>> = vec![None, Some(0), Some(1), Some(u64::MAX), Some(256), Some(255)];
    while ou.len() < size / 2 {
        ou.push(Some(rng.random()));
    }
    ou.sort();
    ou.dedup();
    run::<Option<u64>, Option<u64>>(tw, st, "Option<u64>", &ou, &|v| to_vec(<Option<u64> as Value>::as_bytes(v)),
        &|b, v| <Option<u64> as Value>::from_bytes(b) == *v, &|b| b.len() == 9);
    let mut os: Vec<Option<String>> = vec![None];
    os.extend(ss.iter().take(size * 2 / 3).cloned().map(Some));
    os.sort();
    run::<Option<&str>, Option<String>>(tw, st, "Option<&str>", &os, &|v| to_vec(<Option<&str> as Value>::as_bytes(&v.as_deref())),
        &|b, v| <Option<&str> as Value>::from_bytes(b) == v.as_deref(),
        &|b| !b.is_empty() && (b[0] == 0 && b.len() == 1 || b[0] == 1 && std::str::from_utf8(&b[1..]).is_ok()));
    let mut ob: Vec<Option<Vec<u8>>> = vec![None];
    ob.extend(bs.iter().take(size * 2 / 3).cloned().map(Some));
    ob.sort();
    run::<Option<&[u8]>, Option<Vec<u8>>>(tw, st, "Option<&[u8]>", &ob, &|v| to_vec(<Option<&[u8]> as Value>::as_bytes(&v.as_deref())),
        &|b, v| <Option<&[u8]> as Value>::from_bytes(b) == v.as_deref(), &|b| !b.is_empty() && (b[0] == 0 && b.len() == 1 || b[0] == 1));

    // arrays of variable width elements and of fixed width elements
    let mut a2: Vec<[String; 2]> = vec![];
    for i in 0..ss.len().min(9) {
        for j in 0..ss.len().min(6) {
            a2.push([ss[i * ss.len() / 9].clone(), ss[j * ss.len() / 6].clone()]);
        }
    }
    a2.sort();
    a2.dedup();
    let valid_a2 = |b: &[u8]| {
        if b.len() < 8 {
            return false;
        }
        let e1 = u32::from_le_bytes(b[0..4].try_into().unwrap()) as usize;
        let e2 = u32::from_le_bytes(b[4..8].try_into().unwrap()) as usize;
        8 <= e1 && e1 <= e2 && e2 == b.len() && std::str::from_utf8(&b[8..e1]).is_ok() && std::str::from_utf8(&b[e1..e2]).is_ok()
    };
    run::<[&str; 2], [String; 2]>(tw, st, "[&str;2]", &a2, &|v| to_vec(<[&str; 2] as Value>::as_bytes(&[v[0].as_str(), v[1].as_str()])),
        &|b, v| <[&str; 2] as Value>::from_bytes(b) == [v[0].as_str(), v[1].as_str()], &valid_a2);
    let mut a3: Vec<[u16; 3]> = vec![[0; 3], [u16::MAX; 3], [0, 0, 1], [0, 1, 0], [1, 0, 0], [255, 256, 257]];
    while a3.len() < size {
        a3.push(rng.random());
    }
    a3.sort();
    a3.dedup();
    run::<[u16; 3], [u16; 3]>(tw, st, "[u16;3]", &a3, &|v| to_vec(<[u16; 3] as Value>::as_bytes(v)), &|b, v| <[u16; 3] as Value>::from_bytes(b) == *v, &|b| b.len() == 6);

    // tuples
    let mut t1: Vec<(u64, String)> = vec![];
    for u in [0u64, 1, 255, 256, u64::MAX] {
        for s in ss.iter().step_by(ss.len() / 7 + 1) {
            t1.push((u, s.clone()));
        }
    }
    t1.sort();
    run::<(u64, &str), (u64, String)>(tw, st, "(u64,&str)", &t1, &|v| to_vec(<(u64, &str) as Value>::as_bytes(&(v.0, v.1.as_str()))),
        &|b, v| <(u64, &str) as Value>::from_bytes(b) == (v.0, v.1.as_str()), &|_| true);
    let mut t2: Vec<(String, u64)> = t1.iter().map(|(u, s)| (s.clone(), *u)).collect();
    t2.sort();
    run::<(&str, u64), (String, u64)>(tw, st, "(&str,u64)", &t2, &|v| to_vec(<(&str, u64) as Value>::as_bytes(&(v.0.as_str(), v.1))),
        &|b, v| <(&str, u64) as Value>::from_bytes(b) == (v.0.as_str(), v.1), &|_| true);
    let mut t3: Vec<(String, Vec<u8>)> = vec![];
    for s in ss.iter().step_by(ss.len() / 6 + 1) {
        for b in bs.iter().step_by(bs.len() / 6 + 1) {
            t3.push((s.clone(), b.clone()));
        }
    }
    t3.sort();
    run::<(&str, &[u8]), (String, Vec<u8>)>(tw, st, "(&str,&[u8])", &t3, &|v| to_vec(<(&str, &[u8]) as Value>::as_bytes(&(v.0.as_str(), v.1.as_slice()))),
        &|b, v| <(&str, &[u8]) as Value>::from_bytes(b) == (v.0.as_str(), v.1.as_slice()), &|_| true);
    let mut t4: Vec<(u8, i8, bool)> = vec![];
    for a in [0u8, 1, 255] {
        for b in [i8::MIN, -1, 0, i8::MAX] {
            for c in [false, true] {
                t4.push((a, b, c));
            }
        }
    }
    t4.sort();
    run::<(u8, i8, bool), (u8, i8, bool)>(tw, st, "(u8,i8,bool)", &t4, &|v| to_vec(<(u8, i8, bool) as Value>::as_bytes(v)),
        &|b, v| <(u8, i8, bool) as Value>::from_bytes(b) == *v, &|b| b.len() == 3);

    let lines = std::mem::replace(tw, TraceWriter::create("/dev/null")).finish();
    println!("{}", json!({"pairs": st.pairs, "separators": st.seps, "separators_shorter_than_left": st.shorter, "round_trips": st.rts, "events": lines}));
}
