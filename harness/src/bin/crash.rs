//! Crash enumeration: runs a random history against a recording backend, then for every point
//! of the recorded operation stream builds the storage images a crash there could leave behind,
//! reopens each with the real redb, and records what it shows ("probe" events, placed in the
//! trace where the crash happened).  KvTrace.tla judges every probe (Kv!CrashAtomic).
//!
//!   crash --seed 1 --runs 8 --steps 80 --out trace.ndjson [--tier quick|thorough] [--profile crash]
//!   crash --replay FILE --out trace.ndjson       (re-run one script and one crash case)

use rand::SeedableRng;
use rand::rngs::StdRng;
use redb_verif_harness::backend::{Op, Store};
use redb_verif_harness::crash::{Case, build_image, enumerate_cases, for_each_crash_point};
use redb_verif_harness::exec::{Config, Exec, builder, default_vlens, observe};
use redb_verif_harness::r#gen::{Gen, Profile};
use redb_verif_harness::util::{Args, TraceWriter, quiet_panics};
use redb_verif_harness::v3::{self, Exec3};
use serde_json::{Value as J, json};
use std::collections::HashMap;
use std::panic::{AssertUnwindSafe, catch_unwind};
use std::sync::Mutex;
use std::sync::atomic::{AtomicU64, AtomicUsize, Ordering};

/// Open an image with the real code and report what it shows
fn probe_image(image: Vec<u8>, cfg: &Config, cx: &redb_verif_harness::codec::Ctx, record: bool) -> (J, Option<(Vec<u8>, Vec<Op>)>) {
    let (j, rec, _) = probe_image_r(image, cfg, cx, record, false);
    (j, rec)
}

/// `recover`: also report what the open decided (RecoverTrace.tla): the header before, the header after
fn probe_image_r(image: Vec<u8>, cfg: &Config, cx: &redb_verif_harness::codec::Ctx, record: bool, recover: bool) -> (J, Option<(Vec<u8>, Vec<Op>)>, Option<J>) {
    let store = Store::from_bytes(image.clone());
    if record {
        store.start_recording();
    }
    let pre = if recover { redb_verif_harness::recover::pre_of(&image) } else { None };
    let decided: Mutex<Option<J>> = Mutex::new(None);
    let res = catch_unwind(AssertUnwindSafe(|| {
        let mut db = match builder(cfg).create_with_backend(store.backend()) {
            Ok(db) => db,
            Err(e) => {
                let e: redb::Error = e.into();
                if let Some((pre, h)) = &pre {
                    *decided.lock().unwrap() = Some(json!({"e": "recover", "src": "crash", "pre": pre, "post": redb_verif_harness::recover::post_of(Err(redb_verif_harness::exec::err_name(&e).to_string()), h)}));
                }
                return json!({"obs": {"error": redb_verif_harness::exec::err_name(&e), "msg": e.to_string()}});
            }
        };
        if let Some((pre, h)) = &pre {
            *decided.lock().unwrap() = Some(json!({"e": "recover", "src": "crash", "pre": pre, "post": redb_verif_harness::recover::post_of(Ok(&store.bytes()), h)}));
        }
        let obs = match observe(&db, cx) {
            Ok(o) => o,
            Err(e) => return json!({"obs": {"error": redb_verif_harness::exec::err_name(&e), "msg": e.to_string()}}),
        };
        let integ = match db.check_integrity() {
            Ok(b) => json!({"ok": b}),
            Err(e) => {
                let e: redb::Error = e.into();
                json!({"err": redb_verif_harness::exec::err_name(&e)})
            }
        };
        let obs2 = match observe(&db, cx) {
            Ok(o) => o,
            Err(e) => json!({"error": redb_verif_harness::exec::err_name(&e)}),
        };
        let same = obs2 == obs;
        let mut out = json!({"obs": obs, "integ": integ, "same": same});
        if record {
            // C07: every persistent savepoint the recovered database lists can be restored, and restoring it (each on
            // its own copy of the image) yields exactly the state it captured
            let ids: Vec<u64> = obs["psp"].as_array().map(|a| a.iter().filter_map(|x| x.as_u64()).take(4).collect()).unwrap_or_default();
            let mut restored = vec![];
            for id in ids {
                let copy = Store::from_bytes(image.clone());
                let r = (|| -> Result<J, redb::Error> {
                    let db2 = builder(cfg).create_with_backend(copy.backend())?;
                    let mut w = db2.begin_write()?;
                    let sp = w.get_persistent_savepoint(id)?;
                    w.restore_savepoint(&sp)?;
                    w.commit()?;
                    observe(&db2, cx)
                })();
                restored.push(match r {
                    Ok(o) => json!({"id": id, "obs": o}),
                    Err(e) => json!({"id": id, "obs": {"error": redb_verif_harness::exec::err_name(&e), "msg": e.to_string()}}),
                });
            }
            if !restored.is_empty() {
                out["psp_restored"] = J::Array(restored);
            }
        }
        if record {
            // sampled images: the allocation state right after recovery must be exactly what the
            // contents require (C11), and writing must not damage what is there
            out["acct"] = redb_verif_harness::exec::account(&db, store.len());
            let write_ok = (|| -> Result<bool, redb::Error> {
                let w = db.begin_write()?;
                {
                    let mut t = w.open_table(redb::TableDefinition::<u64, u64>::new("zz_probe"))?;
                    for k in 0..50u64 {
                        t.insert(k, k)?;
                    }
                }
                w.commit()?;
                let obs3 = observe(&db, cx)?;
                let mut tables: Vec<J> = obs3["tables"].as_array().unwrap().iter().filter(|t| t["name"] != "zz_probe").cloned().collect();
                tables.sort_by_key(|t| t["name"].to_string());
                let mut before: Vec<J> = obs["tables"].as_array().unwrap().clone();
                before.sort_by_key(|t| t["name"].to_string());
                Ok(tables == before && obs3["psp"] == obs["psp"])
            })();
            out["write_ok"] = json!(write_ok.unwrap_or(false));
        }
        out
    }));
    let j = match res {
        Ok(j) => j,
        Err(p) => {
            let msg = p.downcast_ref::<String>().cloned().or_else(|| p.downcast_ref::<&str>().map(|s| s.to_string())).unwrap_or_default();
            json!({"obs": {"error": "panic", "msg": msg}})
        }
    };
    let rec = if record { Some((image, store.take_log())) } else { None };
    let mut decided = decided.into_inner().unwrap_or_else(|e| e.into_inner());
    if decided.is_none()
        && let Some((pre, _)) = &pre
    {
        // the open itself panicked
        decided = Some(json!({"e": "recover", "src": "crash", "pre": pre, "post": {"err": "panic"}}));
    }
    (j, rec, decided)
}

/// the release that writes the history (C19: the other one reads the images)
enum Writer {
    Current(Exec),
    V3(Exec3),
}

impl Writer {
    fn step(&mut self, s: &J) -> Vec<J> {
        match self {
            Writer::Current(e) => e.step(s),
            Writer::V3(e) => e.step(s),
        }
    }
    fn store(&self) -> std::sync::Arc<Store> {
        match self {
            Writer::Current(e) => e.store.clone(),
            Writer::V3(e) => e.store.clone(),
        }
    }
    fn cx(&self) -> &redb_verif_harness::codec::Ctx {
        match self {
            Writer::Current(e) => &e.cx,
            Writer::V3(e) => &e.cx,
        }
    }
}

struct Found {
    ev_idx: usize,
    after: bool,
    outcome: J,
    at: usize,
    case: J,
    depth: u8,
    inner: J,
}

fn main() {
    let args = Args::parse();
    quiet_panics();
    let out = args.str("out", "crash.ndjson");
    let tier = args.str("tier", "quick");
    let seed = args.u64("seed", 1);
    let runs = args.u64("runs", 4);
    let steps = args.u64("steps", 80);
    let threads = args.u64("threads", 14) as usize;
    let profile = args.str("profile", "crash");
    // C19: --writer 3 runs the history on redb 3.0.0 (the current code reads the images), --reader 3 the reverse
    let writer3 = args.str("writer", "current") == "3";
    let reader3 = args.str("reader", "current") == "3";
    let (exh, rnd) = if tier == "quick" { (7usize, 8usize) } else { (10usize, 48usize) };
    let second_every = args.u64("second-every", if tier == "quick" { 97 } else { 13 });
    // every n-th image: what the open decided (header before / after), judged by RecoverTrace.tla; 0 = never
    let recover_every = args.u64("recover-every", 0);
    let mut recover_out = args.map.get("recover-out").map(|p| TraceWriter::create(p));
    let mut recover_images = 0u64;
    let mut tw = TraceWriter::create(&out);
    let mut scripts = args.map.get("scripts-out").map(|p| TraceWriter::create(p));
    let mut total_images = 0u64;
    let mut total_distinct = 0u64;
    let mut total_points = 0u64;
    let mut total_second = 0u64;
    let mut total_skipped = 0u64;
    let mut total_events = 0u64;
    let mut nontrivial = 0u64;
    let mut samples: Vec<J> = vec![];

    let replay: Option<J> = args.map.get("replay").map(|p| serde_json::from_str(&std::fs::read_to_string(p).unwrap()).unwrap());
    let runs = if replay.is_some() { 1 } else { runs };

    let first_run = args.u64("first-run", 0);
    for run in first_run..runs {
        let rseed = seed.wrapping_mul(7_919).wrapping_add(run);
        let cfg = match &replay {
            Some(r) => Config::from_json(&r["cfg"]),
            None => {
                // redb 3.0.0 offers no way to choose the page size: cross-release runs use the default geometry
                let cross = writer3 || reader3;
                let page_size = if cross { 4096 } else { [512usize, 512, 1024, 4096][(run % 4) as usize] };
                Config {
                    seed: rseed,
                    page_size,
                    region_size: if run % 3 == 1 && !cross { Some(1 << 16) } else { None },
                    cache_size: [1 << 20, 0, 8 * page_size][(run % 3) as usize],
                    nkeys: 64,
                    vlens: default_vlens(page_size),
                    sel: None,
                }
            }
        };
        let mut rng = StdRng::seed_from_u64(rseed);
        let mut ex = if writer3 { Writer::V3(Exec3::new(cfg.clone())) } else { Writer::Current(Exec::new(cfg.clone())) };
        // the property quantifies over histories after a completed creation: trim, then record
        ex.step(&json!({"e": "reopen"}));
        let base = ex.store().bytes();
        eprintln!("run {run}: base image {} bytes, page size {}", base.len(), cfg.page_size);
        ex.store().start_recording();
        let mut events: Vec<J> = vec![];
        let mut script: Vec<J> = vec![];
        match &replay {
            Some(r) => {
                for step in r["steps"].as_array().unwrap() {
                    events.extend(ex.step(step));
                    script.push(step.clone());
                }
            }
            None => {
                let mut g = Gen::new(Profile::by_name(&profile), ex.cx());
                let mut i = 0;
                let run_step = |ex: &mut Writer, g: &mut Gen, step: J, events: &mut Vec<J>, script: &mut Vec<J>| {
                    let evs = ex.step(&step);
                    g.observe(&evs);
                    events.extend(evs);
                    script.push(step);
                };
                while i < steps {
                    let step = g.next(&mut rng);
                    run_step(&mut ex, &mut g, step, &mut events, &mut script);
                    i += 1;
                }
                while let Some(step) = g.drain_one() {
                    run_step(&mut ex, &mut g, step, &mut events, &mut script);
                }
                for step in g.final_steps() {
                    run_step(&mut ex, &mut g, step, &mut events, &mut script);
                }
            }
        }
        let log = ex.store().take_log();
        let cx = cfg.ctx();
        drop(ex);

        // which event does crash point c belong to?  c in (b0, b1) -> inside event; c == b1 -> after it
        // (for a commit the pair cbegin/cend shares bk: inside = between them)
        let mut owner: Vec<(usize, bool)> = vec![(0, false); log.len() + 1];
        {
            let mut last_end = 0usize;
            for (idx, ev) in events.iter().enumerate() {
                if ev["e"].as_str() == Some("cbegin") {
                    continue;
                }
                let b0 = ev["bk"][0].as_u64().unwrap() as usize;
                let b1 = ev["bk"][1].as_u64().unwrap() as usize;
                for c in (b0 + 1)..=b1 {
                    owner[c] = (idx, c == b1);
                }
                last_end = last_end.max(b1);
            }
            // c == 0: before anything
            owner[0] = (usize::MAX, true);
            let _ = last_end;
        }

        // commits of transactions that created a persistent savepoint: every image inside them gets the full probe
        // (the savepoint is restored on a copy of the image)
        let mut sp_commits: std::collections::HashSet<usize> = std::collections::HashSet::new();
        {
            let mut made = false;
            for (idx, ev) in events.iter().enumerate() {
                match ev["e"].as_str() {
                    Some("bw") => made = false,
                    Some("spp") if ev["r"].get("ok").is_some() => made = true,
                    Some("cend") if made => {
                        sp_commits.insert(idx);
                    }
                    _ => {}
                }
            }
        }
        // collect the work: (crash point, durable image index, pending ops, cases)
        struct Point {
            c: usize,
            durable: std::sync::Arc<Vec<u8>>,
            pending: Vec<Op>,
            cases: Vec<Case>,
        }
        let mut points: Vec<Point> = vec![];
        {
            let mut last_durable: Option<std::sync::Arc<Vec<u8>>> = None;
            let only_case: Option<(usize, Case)> = replay.as_ref().map(|r| (r["at"].as_u64().unwrap() as usize, Case::from_json(&r["case"])));
            for_each_crash_point(&base, &log, |c, durable, pending| {
                let d = match &last_durable {
                    Some(d) if d.as_slice() == durable => d.clone(),
                    _ => {
                        let d = std::sync::Arc::new(durable.to_vec());
                        last_durable = Some(d.clone());
                        d
                    }
                };
                let cases = match &only_case {
                    Some((at, case)) => {
                        if *at == c { vec![case.clone()] } else { vec![] }
                    }
                    None => enumerate_cases(pending, &mut rng, exh, rnd),
                };
                if !cases.is_empty() {
                    points.push(Point { c, durable: d, pending: pending.iter().map(|o| (*o).clone()).collect(), cases });
                }
            });
        }
        total_points += points.len() as u64;
        let work: Vec<(usize, usize)> = points.iter().enumerate().flat_map(|(pi, p)| (0..p.cases.len()).map(move |ci| (pi, ci))).collect();
        let next = AtomicUsize::new(0);
        let images = AtomicU64::new(0);
        let second = AtomicU64::new(0);
        let skipped = AtomicU64::new(0);
        let found: Mutex<HashMap<String, (Found, u64)>> = Mutex::new(HashMap::new());
        let decisions: Mutex<HashMap<String, (J, J, u64)>> = Mutex::new(HashMap::new());
        std::thread::scope(|sc| {
            for _ in 0..threads {
                sc.spawn(|| {
                    loop {
                        let w = next.fetch_add(1, Ordering::Relaxed);
                        if w >= work.len() {
                            break;
                        }
                        let (pi, ci) = work[w];
                        let p = &points[pi];
                        let pend: Vec<&Op> = p.pending.iter().collect();
                        let image = build_image(&p.durable, &pend, &p.cases[ci]);
                        // (a replay always runs the full probe: accounting, a write transaction after the recovery, savepoint restores)
                        let sampled = (w as u64) % second_every == 0;
                        let do_second = replay.as_ref().map_or(sampled || sp_commits.contains(&owner[p.c].0), |_| true);
                        let (outcome, rec) = if reader3 || writer3 {
                            // C19: the image is opened by the release that did not write it; what it shows must also be
                            // what the writing release itself shows for the same image ("identical contents")
                            let own = if writer3 { v3::probe(image.clone(), &cfg) } else { probe_image(image.clone(), &cfg, &cx, false).0 };
                            if writer3 && own["obs"].get("error").is_some() {
                                // 3.0.0 cannot open this crash image of its own: not a file 3.0.0 recovers, nothing to compare
                                skipped.fetch_add(1, Ordering::Relaxed);
                                continue;
                            }
                            let mut other = if reader3 { v3::probe(image, &cfg) } else { probe_image(image, &cfg, &cx, false).0 };
                            other["peer_same"] = json!(other["obs"] == own["obs"]);
                            other["reader"] = json!(if reader3 { "3.0.0" } else { "current" });
                            other["writer"] = json!(if writer3 { "3.0.0" } else { "current" });
                            (other, None)
                        } else {
                            let want_decision = recover_every > 0 && (w as u64) % recover_every == 0;
                            let (o, r, decided) = probe_image_r(image, &cfg, &cx, do_second, want_decision);
                            if let Some(d) = decided {
                                let mut m = decisions.lock().unwrap();
                                m.entry(d.to_string()).and_modify(|e| e.2 += 1).or_insert((d, json!({"at": p.c, "case": p.cases[ci].to_json()}), 1));
                            }
                            (o, r)
                        };
                        images.fetch_add(1, Ordering::Relaxed);
                        let (ev_idx, after) = owner[p.c];
                        let add = |outcome: J, depth: u8, inner: J| {
                            let key = format!("{ev_idx}|{after}|{outcome}");
                            let mut f = found.lock().unwrap();
                            f.entry(key)
                                .and_modify(|e| e.1 += 1)
                                .or_insert((Found { ev_idx, after, outcome, at: p.c, case: p.cases[ci].to_json(), depth, inner }, 1));
                        };
                        if replay.is_none() || replay.as_ref().unwrap()["depth"].as_u64() != Some(2) {
                            add(outcome, 1, json!(null));
                        }
                        // crash again during the recovery itself
                        if let Some((img, rlog)) = rec.filter(|_| sampled || replay.is_some()) {
                            let mut rng2 = StdRng::seed_from_u64(rseed ^ w as u64);
                            let only2: Option<(usize, Case)> = replay.as_ref().filter(|r| r["depth"].as_u64() == Some(2))
                                .map(|r| (r["inner"]["at"].as_u64().unwrap() as usize, Case::from_json(&r["inner"]["case"])));
                            let mut budget = 40usize;
                            for_each_crash_point(&img, &rlog, |c2, durable2, pending2| {
                                let cases2 = match &only2 {
                                    Some((at, case)) => {
                                        if *at == c2 { vec![case.clone()] } else { vec![] }
                                    }
                                    None => enumerate_cases(pending2, &mut rng2, 3, 1),
                                };
                                for case2 in cases2 {
                                    if budget == 0 && only2.is_none() {
                                        break;
                                    }
                                    budget = budget.saturating_sub(1);
                                    let image2 = build_image(durable2, pending2, &case2);
                                    // (crash images of the recovery itself: headers with the recovery flag already cleared, a repair
                                    // commit half written - their open decisions are judged by RecoverTrace.tla as well)
                                    let (outcome2, _, decided2) = probe_image_r(image2, &cfg, &cx, false, recover_every > 0);
                                    if let Some(d) = decided2 {
                                        let mut m = decisions.lock().unwrap();
                                        m.entry(d.to_string()).and_modify(|e| e.2 += 1).or_insert((d, json!({"at": p.c, "case": p.cases[ci].to_json()}), 1));
                                    }
                                    second.fetch_add(1, Ordering::Relaxed);
                                    add(outcome2, 2, json!({"at": c2, "case": case2.to_json()}));
                                }
                            });
                        }
                    }
                });
            }
        });
        total_images += images.load(Ordering::Relaxed);
        total_second += second.load(Ordering::Relaxed);
        total_skipped += skipped.load(Ordering::Relaxed);
        let found = found.into_inner().unwrap();
        total_distinct += found.len() as u64;
        if let Some(rw) = recover_out.as_mut() {
            let mut ds: Vec<(String, (J, J, u64))> = decisions.into_inner().unwrap().into_iter().collect();
            ds.sort_by(|a, b| a.0.cmp(&b.0));
            for (_, (mut d, whence, n)) in ds {
                recover_images += n;
                d["run"] = json!(run);
                d["n"] = json!(n);
                d["at"] = whence["at"].clone();
                d["case"] = whence["case"].clone();
                rw.write(&d);
            }
        }
        // group the probes by event
        let mut inside: HashMap<usize, Vec<&(Found, u64)>> = HashMap::new();
        let mut after: HashMap<usize, Vec<&(Found, u64)>> = HashMap::new();
        for v in found.values() {
            if v.0.after { after.entry(v.0.ev_idx).or_default().push(v) } else { inside.entry(v.0.ev_idx).or_default().push(v) }
        }
        let probe_event = |f: &(Found, u64)| {
            let mut ev = json!({"e": "probe", "run": run, "at": f.0.at, "case": f.0.case, "n": f.1, "depth": f.0.depth});
            if f.0.depth == 2 {
                ev["inner"] = f.0.inner.clone();
            }
            for (k, v) in f.0.outcome.as_object().unwrap() {
                ev[k] = v.clone();
            }
            ev
        };
        tw.write(&json!({"e": "reset", "run": run, "cfg": cfg.to_json(), "ops": log.len()}));
        if let Some(v) = after.get(&usize::MAX) {
            for f in v {
                let mut p = probe_event(f);
                p["i"] = json!(0);
                tw.write(&p);
            }
        }
        for (idx, ev) in events.iter().enumerate() {
            let mut ev = ev.clone();
            ev["run"] = json!(run);
            ev["i"] = json!(idx);
            if ev["e"].as_str() == Some("cend") {
                // probes inside the commit go between cbegin and cend
                if let Some(v) = inside.get(&idx) {
                    for f in v {
                        let mut p = probe_event(f);
                        p["i"] = json!(idx);
                        tw.write(&p);
                        nontrivial += 1;
                    }
                }
                tw.write(&ev);
            } else {
                if let Some(v) = inside.get(&idx) {
                    for f in v {
                        let mut p = probe_event(f);
                        p["i"] = json!(idx);
                        tw.write(&p);
                    }
                }
                tw.write(&ev);
            }
            if let Some(v) = after.get(&idx) {
                for f in v {
                    let mut p = probe_event(f);
                    p["i"] = json!(idx);
                    tw.write(&p);
                }
            }
            total_events += 1;
        }
        if samples.len() < 3
            && let Some(f) = found.values().find(|f| f.0.case["kept"].as_array().is_some_and(|k| k.len() > 1))
        {
            let mut p = probe_event(f);
            p.as_object_mut().unwrap().remove("obs");
            p.as_object_mut().unwrap().remove("acct");
            samples.push(p);
        }
        if let Some(sw) = scripts.as_mut() {
            sw.write(&json!({"run": run, "cfg": cfg.to_json(), "steps": script}));
        }
    }
    tw.finish();
    if let Some(rw) = recover_out {
        rw.finish();
    }
    if let Some(sw) = scripts {
        sw.finish();
    }
    println!(
        "{}",
        json!({"runs": runs, "events": total_events, "crash_points": total_points, "images": total_images, "second_level_images": total_second,
               "distinct_probes": total_distinct, "images_with_open_decision": recover_images, "images_the_writer_cannot_open": total_skipped, "probes_inside_commit": nontrivial, "samples": samples})
    );
}
