//! Replays the schedule the Pager model found: a reader registers (id = last durable commit),
//! a non-durable commit publishes before the reader reads its root, later non-durable commits
//! free and reuse the pages of the root the reader holds.
use redb::{Durability, ReadableDatabase, ReadableTable, TableDefinition};
use redb_verif_harness::backend::Store;
use redb_verif_harness::exec::{Config, builder};
use redb_verif_harness::sched::{Controller, set_actor};
use std::time::Duration;

const T: TableDefinition<u64, &[u8]> = TableDefinition::new("t");

fn main() {
    let atomic_variant = std::env::args().any(|a| a == "--no-race");
    let cfg = Config::small(1);
    let store = Store::new();
    let db = builder(&cfg).create_with_backend(store.backend()).unwrap();
    let ctl = Controller::install();
    set_actor("main");
    // durable base state
    let w = db.begin_write().unwrap();
    {
        let mut t = w.open_table(T).unwrap();
        t.insert(1, vec![0u8; 100].as_slice()).unwrap();
    }
    w.commit().unwrap();

    let nd = |val: u8, extra: u64| {
        let mut w = db.begin_write().unwrap();
        w.set_durability(Durability::None).unwrap();
        {
            let mut t = w.open_table(T).unwrap();
            t.insert(1, vec![val; 100].as_slice()).unwrap();
            for k in 0..extra {
                t.insert(1000 + k, vec![val; 300].as_slice()).unwrap();
            }
        }
        w.commit().unwrap();
    };

    std::thread::scope(|sc| {
        if !atomic_variant {
            ctl.arm("R", "begin_read.after_register");
        }
        let (tx, rx) = std::sync::mpsc::channel::<()>();
        let dbr = &db;
        let h = sc.spawn(move || {
            set_actor("R");
            let r = dbr.begin_read().unwrap();
            let t = r.open_table(T).unwrap();
            rx.recv().unwrap(); // wait until the writer is done
            let res = std::panic::catch_unwind(std::panic::AssertUnwindSafe(|| {
                let v = t.get(1).map(|g| g.map(|g| g.value().to_vec()));
                let all: Vec<(u64, usize, u8)> = t
                    .iter()
                    .unwrap()
                    .map(|x| {
                        let (k, v) = x.unwrap();
                        (k.value(), v.value().len(), v.value().first().copied().unwrap_or(0))
                    })
                    .collect();
                (v, all)
            }));
            (r.verif_id(), res)
        });
        if !atomic_variant {
            assert!(ctl.wait_reached("R", "begin_read.after_register", Duration::from_secs(10)));
        } else {
            std::thread::sleep(Duration::from_millis(200));
        }
        nd(0xA1, 0); // txn: publishes a root whose pages are unpersisted
        ctl.release("R", "begin_read.after_register");
        std::thread::sleep(Duration::from_millis(200)); // R reads the root and opens the table
        nd(0xB2, 0); // frees the leaf the reader holds (recorded, unpersisted)
        nd(0xC3, 0); // reclaims it: no reader is registered on a pending non-durable commit
        nd(0xD4, 6); // reuses the space
        tx.send(()).unwrap();
        let (id, res) = h.join().unwrap();
        match res {
            Ok((v, all)) => {
                let first = v.as_ref().ok().and_then(|o| o.as_ref().map(|b| (b.len(), b.first().copied())));
                println!("reader id {id}: get(1) = {first:?}; scan = {all:?}");
                let ok = matches!(first, Some((100, Some(0x00))) | Some((100, Some(0xA1)))) && all.len() == 1;
                println!("{}", if ok { "SNAPSHOT-OK" } else { "SNAPSHOT-BROKEN" });
            }
            Err(_) => println!("reader id {id}: panicked while reading\nSNAPSHOT-BROKEN"),
        }
    });
    Controller::uninstall();
}
