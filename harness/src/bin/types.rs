//! C17, type identity of the catalog: a table is created with one key / value type and opened with
//! another, for every ordered pair of a set of built-in types, user-defined types (some named
//! like a built-in, with the same width) and composites of both (tuples with the user type in
//! every position, Option, arrays).  Each type has an abstract descriptor (built-in / user-defined,
//! name, structure); TypesTrace.tla demands: the open succeeds iff the descriptors are equal, and
//! fails with TableTypeMismatch otherwise - in write and read transactions, for normal and
//! multimap tables, in key and value position.
//!
//!   types --out trace.ndjson

use redb::backends::InMemoryBackend;
use redb::{Database, Key, MultimapTableDefinition, ReadableDatabase, TableDefinition, TypeName, Value};
use redb_verif_harness::exec::err_name;
use redb_verif_harness::util::{Args, TraceWriter, quiet_panics};
use serde_json::{Value as J, json};
use std::cmp::Ordering;

/// a user-defined type that calls itself "u32" and is 4 bytes wide
#[derive(Debug)]
struct UserU32;
impl Value for UserU32 {
    type SelfType<'a> = u32;
    type AsBytes<'a> = [u8; 4];
    fn fixed_width() -> Option<usize> {
        Some(4)
    }
    fn from_bytes<'a>(data: &'a [u8]) -> u32
    where
        Self: 'a,
    {
        u32::from_le_bytes(data.try_into().unwrap())
    }
    fn as_bytes<'a, 'b: 'a>(value: &'a u32) -> [u8; 4]
    where
        Self: 'b,
    {
        value.to_le_bytes()
    }
    fn type_name() -> TypeName {
        TypeName::new("u32")
    }
}
impl Key for UserU32 {
    fn compare(a: &[u8], b: &[u8]) -> Ordering {
        u32::from_le_bytes(a.try_into().unwrap()).cmp(&u32::from_le_bytes(b.try_into().unwrap()))
    }
}

/// a user-defined type with a name of its own, 4 bytes wide
#[derive(Debug)]
struct UserOwn;
impl Value for UserOwn {
    type SelfType<'a> = u32;
    type AsBytes<'a> = [u8; 4];
    fn fixed_width() -> Option<usize> {
        Some(4)
    }
    fn from_bytes<'a>(data: &'a [u8]) -> u32
    where
        Self: 'a,
    {
        u32::from_le_bytes(data.try_into().unwrap())
    }
    fn as_bytes<'a, 'b: 'a>(value: &'a u32) -> [u8; 4]
    where
        Self: 'b,
    {
        value.to_le_bytes()
    }
    fn type_name() -> TypeName {
        TypeName::new("verif::Own")
    }
}
impl Key for UserOwn {
    fn compare(a: &[u8], b: &[u8]) -> Ordering {
        a.cmp(b)
    }
}

/// the abstract descriptor of a type: what must be equal for two types to be the same type to the catalog
trait Desc {
    fn desc() -> J;
}
macro_rules! builtin {
    ($($t:ty => $n:expr),*) => {$(impl Desc for $t { fn desc() -> J { json!({"builtin": $n}) } })*};
}
builtin!(u32 => "u32", u64 => "u64", i32 => "i32", &str => "&str", &[u8] => "&[u8]", () => "()");
impl Desc for UserU32 {
    fn desc() -> J {
        json!({"user": "u32"})
    }
}
impl Desc for UserOwn {
    fn desc() -> J {
        json!({"user": "verif::Own"})
    }
}
impl<A: Desc, B: Desc> Desc for (A, B) {
    fn desc() -> J {
        json!({"tuple": [A::desc(), B::desc()]})
    }
}
impl<A: Desc, B: Desc, C: Desc> Desc for (A, B, C) {
    fn desc() -> J {
        json!({"tuple": [A::desc(), B::desc(), C::desc()]})
    }
}
impl<A: Desc> Desc for Option<A> {
    fn desc() -> J {
        json!({"option": A::desc()})
    }
}
impl<A: Desc> Desc for [A; 2] {
    fn desc() -> J {
        json!({"array": [A::desc(), 2]})
    }
}

fn res<T, E: Into<redb::Error>>(r: Result<T, E>) -> J {
    match r {
        Ok(_) => json!({"ok": 0}),
        Err(e) => {
            let e: redb::Error = e.into();
            json!({"err": err_name(&e)})
        }
    }
}

struct Out<'a> {
    tw: &'a mut TraceWriter,
    n: u64,
}

impl Out<'_> {
    fn log(&mut self, pos: &str, kind: &str, via: &str, stored: &J, opened: &J, r: J) {
        self.tw.write(&json!({"e": "typeopen", "pos": pos, "kind": kind, "via": via, "stored": stored, "opened": opened, "r": r, "run": 0, "i": self.n}));
        self.n += 1;
    }
}

fn fresh() -> Database {
    Database::builder().create_with_backend(InMemoryBackend::new()).unwrap()
}

/// value position: (u64, S) stored, (u64, O) opened
fn value_pair<S: Key + Desc + 'static, O: Key + Desc + 'static>(out: &mut Out) {
    let (s, o) = (S::desc(), O::desc());
    for kind in ["t", "m"] {
        let r = std::panic::catch_unwind(std::panic::AssertUnwindSafe(|| {
            let db = fresh();
            let w = db.begin_write().unwrap();
            if kind == "t" {
                w.open_table(TableDefinition::<u64, S>::new("x")).map(|_| ()).unwrap();
            } else {
                w.open_multimap_table(MultimapTableDefinition::<u64, S>::new("x")).map(|_| ()).unwrap();
            }
            w.commit().unwrap();
            let w = db.begin_write().unwrap();
            let rw = if kind == "t" { res(w.open_table(TableDefinition::<u64, O>::new("x")).map(|_| ())) } else { res(w.open_multimap_table(MultimapTableDefinition::<u64, O>::new("x")).map(|_| ())) };
            w.abort().unwrap();
            let rd = db.begin_read().unwrap();
            let rr = if kind == "t" {
                res(rd.open_table(TableDefinition::<u64, O>::new("x")).map(|_| ()))
            } else {
                res(rd.open_multimap_table(MultimapTableDefinition::<u64, O>::new("x")).map(|_| ()))
            };
            (rw, rr)
        }));
        let (rw, rr) = r.unwrap_or((json!({"panic": 1}), json!({"panic": 1})));
        out.log("value", kind, "w", &s, &o, rw);
        out.log("value", kind, "r", &s, &o, rr);
    }
}

/// key position: (S, u64) stored, (O, u64) opened
fn key_pair<S: Key + Desc + 'static, O: Key + Desc + 'static>(out: &mut Out) {
    let (s, o) = (S::desc(), O::desc());
    for kind in ["t", "m"] {
        let r = std::panic::catch_unwind(std::panic::AssertUnwindSafe(|| {
            let db = fresh();
            let w = db.begin_write().unwrap();
            if kind == "t" {
                w.open_table(TableDefinition::<S, u64>::new("x")).map(|_| ()).unwrap();
            } else {
                w.open_multimap_table(MultimapTableDefinition::<S, u64>::new("x")).map(|_| ()).unwrap();
            }
            w.commit().unwrap();
            let w = db.begin_write().unwrap();
            let rw = if kind == "t" {
                res(w.open_table(TableDefinition::<O, u64>::new("x")).map(|_| ()))
            } else {
                res(w.open_multimap_table(MultimapTableDefinition::<O, u64>::new("x")).map(|_| ()))
            };
            w.abort().unwrap();
            let rd = db.begin_read().unwrap();
            let rr = if kind == "t" {
                res(rd.open_table(TableDefinition::<O, u64>::new("x")).map(|_| ()))
            } else {
                res(rd.open_multimap_table(MultimapTableDefinition::<O, u64>::new("x")).map(|_| ()))
            };
            (rw, rr)
        }));
        let (rw, rr) = r.unwrap_or((json!({"panic": 1}), json!({"panic": 1})));
        out.log("key", kind, "w", &s, &o, rw);
        out.log("key", kind, "r", &s, &o, rr);
    }
}

// every ordered pair of the list
macro_rules! types {
    ($m:ident; $($args:tt)*) => {
        $m!($($args)*;
            u32, UserU32, UserOwn, u64, i32, &str,
            (u64, u32), (u64, UserU32), (UserU32, u64), (u32, u64), (u64, UserOwn),
            (u64, u64, u32), (u64, u64, UserU32), (u64, UserU32, u64), (UserU32, u64, u64),
            Option<u32>, Option<UserU32>, [u32; 2], [UserU32; 2], (u64, Option<UserU32>), (u64, Option<u32>))
    };
}
macro_rules! inner {
    ($out:expr; $s:ty; $($o:ty),*) => { $( value_pair::<$s, $o>($out); key_pair::<$s, $o>($out); )* };
}
macro_rules! outer {
    ($out:expr; $($s:ty),*) => { $( types!(inner; $out; $s); )* };
}

fn main() {
    let args = Args::parse();
    quiet_panics();
    let mut tw = TraceWriter::create(&args.str("out", "types.ndjson"));
    let mut out = Out { tw: &mut tw, n: 0 };
    types!(outer; &mut out);
    let n = out.n;
    tw.finish();
    println!("{}", json!({"opens": n}));
}
