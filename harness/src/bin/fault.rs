//! Fault enumeration (C08): a history is recorded without faults, then re-executed with the k-th
//! backend call failing (permanently, or once) for every sampled k.  The script continues after
//! the failure (reads on live readers, new transactions, commit attempts), everything is dropped,
//! the crash states of the storage at that moment are probed, and the database is reopened.
//! KvTrace.tla judges every recorded call (FaultyStep) and every observation.
//!
//!   fault --seed 1 --histories 2 --steps 60 --stride 3 --out trace.ndjson

use rand::SeedableRng;
use rand::rngs::StdRng;
use redb_verif_harness::backend::{FaultMode, Op, Store};
use redb_verif_harness::crash::{build_image, enumerate_cases, for_each_crash_point};
use redb_verif_harness::exec::{Config, Exec, builder, default_vlens, err_name, observe};
use redb_verif_harness::r#gen::{Gen, Profile};
use redb_verif_harness::util::{Args, TraceWriter, quiet_panics};
use serde_json::{Value as J, json};
use std::panic::{AssertUnwindSafe, catch_unwind};
use std::sync::Mutex;
use std::sync::atomic::{AtomicU64, AtomicUsize, Ordering};

fn open_and_observe(image: Vec<u8>, cfg: &Config) -> J {
    let cx = cfg.ctx();
    let store = Store::from_bytes(image);
    catch_unwind(AssertUnwindSafe(|| {
        let db = match builder(cfg).create_with_backend(store.backend()) {
            Ok(db) => db,
            Err(e) => {
                let e: redb::Error = e.into();
                return json!({"error": err_name(&e), "msg": e.to_string()});
            }
        };
        match observe(&db, &cx) {
            Ok(o) => o,
            Err(e) => json!({"error": err_name(&e), "msg": e.to_string()}),
        }
    }))
    .unwrap_or_else(|_| json!({"error": "panic"}))
}

fn main() {
    let args = Args::parse();
    quiet_panics();
    let seed = args.u64("seed", 1);
    let histories = args.u64("histories", 2);
    let steps = args.u64("steps", 60);
    let stride = args.u64("stride", 3).max(1);
    let threads = args.u64("threads", 12) as usize;
    let profile = args.str("profile", "fault");
    let out = args.str("out", "fault.ndjson");
    let replay: Option<J> = args.map.get("replay").map(|p| serde_json::from_str(&std::fs::read_to_string(p).unwrap()).unwrap());
    // journal of started / finished fault points, flushed line by line: if the code under test kills the process
    // (a panic while panicking) the unfinished entries name the candidates
    let journal: Option<Mutex<std::fs::File>> = args.map.get("journal").map(|p| Mutex::new(std::fs::File::create(p).unwrap()));
    let jlog = |j: J| {
        if let Some(f) = &journal {
            use std::io::Write;
            let mut f = f.lock().unwrap();
            writeln!(f, "{j}").unwrap();
            f.flush().unwrap();
        }
    };
    let mut tw = TraceWriter::create(&out);
    let mut scripts = args.map.get("scripts-out").map(|p| TraceWriter::create(p));
    let total_runs = AtomicU64::new(0);
    let total_events = AtomicU64::new(0);
    let total_faults = AtomicU64::new(0);
    let total_probes = AtomicU64::new(0);
    let total_panics = AtomicU64::new(0);
    let errors_returned = AtomicU64::new(0);
    let mut samples: Vec<J> = vec![];
    let histories = if replay.is_some() { 1 } else { histories };

    for h in 0..histories {
        let hseed = seed.wrapping_mul(104_729).wrapping_add(h);
        let (cfg, script, n_calls, calls0) = match &replay {
            Some(r) => (Config::from_json(&r["cfg"]), r["steps"].as_array().unwrap().clone(), 0u64, r["calls0"].as_u64().unwrap()),
            None => {
                let page_size = [512usize, 1024, 4096][(h % 3) as usize];
                let cfg = Config {
                    seed: hseed,
                    page_size,
                    region_size: None,
                    cache_size: [1 << 20, 0, 4 * page_size][(h % 3) as usize],
                    nkeys: 64,
                    vlens: default_vlens(page_size),
                    sel: None,
                };
                // record the history without faults
                let mut rng = StdRng::seed_from_u64(hseed);
                let mut ex = Exec::new(cfg.clone());
                ex.step(&json!({"e": "reopen"}));
                let calls0 = ex.store.calls();
                let mut g = Gen::new(Profile::by_name(&profile), &ex.cx);
                let mut script: Vec<J> = vec![];
                let mut i = 0;
                while i < steps {
                    let step = g.next(&mut rng);
                    let evs = ex.step(&step);
                    g.observe(&evs);
                    script.push(step);
                    i += 1;
                }
                while let Some(step) = g.drain_one() {
                    let evs = ex.step(&step);
                    g.observe(&evs);
                    script.push(step);
                }
                let n_calls = ex.store.calls() - calls0;
                (cfg, script, n_calls, calls0)
            }
        };
        if let Some(sw) = scripts.as_mut() {
            sw.write(&json!({"history": h, "cfg": cfg.to_json(), "steps": script, "calls0": calls0}));
        }
        jlog(json!({"history": h, "cfg": cfg.to_json(), "steps": script, "calls0": calls0}));
        // the fault points
        let work: Vec<(u64, FaultMode)> = match &replay {
            Some(r) => vec![(r["k"].as_u64().unwrap(), if r["mode"].as_str() == Some("once") { FaultMode::Once } else { FaultMode::Permanent })],
            None => (0..n_calls).step_by(stride as usize).flat_map(|k| [(k, FaultMode::Permanent), (k + (stride / 2).min(n_calls - 1 - k.min(n_calls - 1)), FaultMode::Once)]).collect(),
        };
        let next = AtomicUsize::new(0);
        let results: Mutex<Vec<(usize, Vec<J>)>> = Mutex::new(vec![]);
        std::thread::scope(|sc| {
            for _ in 0..threads {
                sc.spawn(|| {
                    loop {
                        let w = next.fetch_add(1, Ordering::Relaxed);
                        if w >= work.len() {
                            break;
                        }
                        let (k, mode) = work[w];
                        jlog(json!({"start": w, "history": h, "k": k, "mode": if mode == FaultMode::Once { "once" } else { "permanent" }}));
                        let mut evs: Vec<J> = vec![json!({"e": "reset", "cfg": cfg.to_json(), "history": h, "k": k,
                                                          "mode": if mode == FaultMode::Once { "once" } else { "permanent" }, "calls0": calls0})];
                        let mut ex = Exec::new(cfg.clone());
                        ex.step(&json!({"e": "reopen"}));
                        assert_eq!(ex.store.calls(), calls0, "creation is deterministic");
                        ex.tolerant = true;
                        ex.store.start_recording();
                        let base = ex.store.bytes();
                        ex.store.set_fault(Some((calls0 + k, mode)));
                        evs.push(json!({"e": "fault", "at": k, "mode": if mode == FaultMode::Once { "once" } else { "permanent" }}));
                        for step in &script {
                            evs.extend(ex.step(step));
                        }
                        // afterwards: what do live readers show, are writes refused, can one still commit
                        let readers: Vec<String> = script.iter().filter(|s| s["e"] == "br").map(|s| s["h"].as_str().unwrap().to_string()).collect();
                        for r in readers {
                            evs.extend(ex.step(&json!({"e": "dump", "src": r})));
                        }
                        if ex.has_wtx() {
                            evs.extend(ex.step(&json!({"e": "commit"})));
                        }
                        evs.extend(ex.step(&json!({"e": "bw"})));
                        if ex.has_wtx() {
                            evs.extend(ex.step(&json!({"e": "open", "n": "zz", "kind": "t", "kt": "u64", "vt": "u64"})));
                            evs.extend(ex.step(&json!({"e": "ins", "n": "zz", "k": 1, "v": 1})));
                            evs.extend(ex.step(&json!({"e": "commit"})));
                        }
                        let injected = ex.store.faults_injected();
                        let store = ex.store.clone();
                        let panics = ex.panics;
                        ex.teardown(); // drops the database (its close may fail too)
                        let injected_total = store.faults_injected();
                        store.set_fault(None);
                        total_faults.fetch_add(injected_total, Ordering::Relaxed);
                        total_panics.fetch_add(panics, Ordering::Relaxed);
                        // every crash state of the storage at this moment
                        let log: Vec<Op> = store.take_log();
                        let mut rng = StdRng::seed_from_u64(hseed ^ k);
                        let mut last: Option<(Vec<u8>, Vec<Op>)> = None;
                        for_each_crash_point(&base, &log, |c, durable, pending| {
                            if c == log.len() {
                                last = Some((durable.to_vec(), pending.iter().map(|o| (*o).clone()).collect()));
                            }
                        });
                        let (durable, pending) = last.unwrap();
                        let pend: Vec<&Op> = pending.iter().collect();
                        let mut seen = std::collections::HashSet::new();
                        for case in enumerate_cases(&pend, &mut rng, 5, 4) {
                            let obs = open_and_observe(build_image(&durable, &pend, &case), &cfg);
                            total_probes.fetch_add(1, Ordering::Relaxed);
                            if seen.insert(obs.to_string()) {
                                evs.push(json!({"e": "probe", "obs": obs, "case": case.to_json(), "at": log.len()}));
                            }
                        }
                        // finally the storage as it is: a clean shutdown only if no fault was ever injected
                        let obs = open_and_observe(store.bytes(), &cfg);
                        evs.push(json!({"e": if injected_total > 0 { "crash" } else { "reopen" }, "obs": obs, "faults": injected_total, "before_teardown": injected}));
                        let nerr = evs.iter().filter(|e| e.get("r").and_then(|r| r.get("err")).is_some_and(|x| x == "Io" || x == "PreviousIo")).count() as u64;
                        errors_returned.fetch_add(nerr, Ordering::Relaxed);
                        total_runs.fetch_add(1, Ordering::Relaxed);
                        jlog(json!({"done": w, "history": h}));
                        results.lock().unwrap().push((w, evs));
                    }
                });
            }
        });
        let mut results = results.into_inner().unwrap();
        results.sort_by_key(|(w, _)| *w);
        for (w, evs) in results {
            for (i, mut ev) in evs.into_iter().enumerate() {
                ev["run"] = json!(h * 1_000_000 + w as u64);
                ev["i"] = json!(i);
                tw.write(&ev);
                total_events.fetch_add(1, Ordering::Relaxed);
            }
        }
        if samples.len() < 2 {
            samples.push(json!({"history": h, "backend_calls": n_calls, "script_steps": script.len(), "fault_points": work.len()}));
        }
    }
    tw.finish();
    if let Some(sw) = scripts {
        sw.finish();
    }
    println!(
        "{}",
        json!({"histories": histories, "runs": total_runs.load(Ordering::Relaxed), "events": total_events.load(Ordering::Relaxed),
               "faults_injected": total_faults.load(Ordering::Relaxed), "errors_returned": errors_returned.load(Ordering::Relaxed),
               "crash_probes": total_probes.load(Ordering::Relaxed), "panics": total_panics.load(Ordering::Relaxed), "samples": samples})
    );
}
