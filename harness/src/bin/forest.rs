//! C10: after every durable commit and clean close of random histories the storage bytes are
//! decoded by the independent decoder (/verif/decoder), normalised, and written as "image" records
//! for ForestTrace.tla (Forest!WellFormed).
//!
//!   forest --seed 1 --runs 6 --steps 150 --images 12 --out trace.ndjson [--selftest DIR]

use rand::SeedableRng;
use rand::rngs::StdRng;
use redb_verif_harness::exec::{Config, Exec, default_vlens};
use redb_verif_harness::r#gen::{Gen, Profile};
use redb_verif_harness::util::{Args, TraceWriter, quiet_panics};
use serde_json::{Value as J, json};

fn split31(v: u64) -> Vec<u64> {
    vec![v >> 62, (v >> 31) & 0x7fff_ffff, v & 0x7fff_ffff]
}

fn le64(b: &[u64]) -> u64 {
    let mut x = 0u64;
    for (i, v) in b.iter().take(8).enumerate() {
        x |= (*v & 0xff) << (8 * i);
    }
    x
}

/// a key as a sequence of naturals whose lexicographic order is the key type's order
fn norm_key(key_type: &str, bytes: &[u64]) -> Vec<u64> {
    match key_type {
        "u64" | "redb::SavepointId" if bytes.len() == 8 => split31(le64(bytes)),
        "redb::TransactionIdWithPagination" if bytes.len() == 16 => {
            let mut v = split31(le64(&bytes[..8]));
            v.extend(split31(le64(&bytes[8..])));
            v
        }
        "redb::AllocatorStateKey" if bytes.len() == 5 => {
            let mut v = vec![bytes[0]];
            v.extend(split31(le64(&bytes[1..])));
            v
        }
        _ => bytes.to_vec(),
    }
}

fn pid(p: &J) -> u64 {
    (p[0].as_u64().unwrap() << 24) | (p[1].as_u64().unwrap() << p[2].as_u64().unwrap())
}

/// decoder output -> the record Forest.tla talks about
fn normalise(dec: &J) -> J {
    let primary = dec["decoded_slot"].as_u64().unwrap_or(0) as usize;
    let mut trees = vec![];
    let mut npages = 0u64;
    for t in dec["trees"].as_array().unwrap() {
        let kind = t["kind"].as_str().unwrap();
        // the order of the keys stored in this tree's pages
        let key_type = match kind {
            "subtree" => t["key_type"].as_str().unwrap_or(""),
            _ => t["key_type"].as_str().unwrap_or(""),
        };
        let mut pages = vec![];
        let mut counted = 0u64;
        for p in t["pages"].as_array().unwrap() {
            npages += 1;
            let leaf = p["type"] == "leaf";
            let keys: Vec<J> = p["keys"]
                .as_array()
                .unwrap()
                .iter()
                .map(|k| json!(norm_key(key_type, &k.as_array().unwrap().iter().map(|b| b.as_u64().unwrap()).collect::<Vec<u64>>())))
                .collect();
            if leaf {
                counted += if kind == "multimap" {
                    p["multimap_counts"].as_array().map_or(keys.len() as u64, |c| c.iter().map(|x| x.as_u64().unwrap()).sum())
                } else {
                    keys.len() as u64
                };
            }
            // the value lists stored inline in a multimap leaf: ordered by the value type
            let vtype = t["value_type"].as_str().unwrap_or("");
            let inl: Vec<J> = p.get("multimap_inline").and_then(|x| x.as_array()).map_or(vec![], |entries| {
                entries.iter().map(|vals| json!(vals.as_array().unwrap().iter()
                    .map(|v| norm_key(vtype, &v.as_array().unwrap().iter().map(|b| b.as_u64().unwrap()).collect::<Vec<u64>>())).collect::<Vec<_>>())).collect()
            });
            let order = p["page"][2].as_u64().unwrap();
            pages.push(json!({
                "id": pid(&p["page"]), "t": if leaf { "l" } else { "b" }, "d": p["depth"], "keys": keys,
                "ch": p.get("children").and_then(|c| c.as_array()).map_or(vec![], |c| c.iter().map(pid).collect::<Vec<u64>>()),
                "ck": p["stored_checksum"] == p["computed_checksum"],
                "lo": pid(&p["page"]), "n": 1u64 << order, "inl": inl,
            }));
        }
        trees.push(json!({
            "name": t["name"], "kind": kind, "stored_len": t["stored_len"].as_u64().unwrap_or(0), "counted": counted,
            "root": if t["root"].is_null() { -1 } else { pid(&t["root"]["page"]) as i64 },
            "pages": pages,
        }));
    }
    json!({"e": "image", "slot_ok": dec["slots"][primary]["checksum_ok"], "trees": trees, "npages": npages})
}

fn main() {
    let args = Args::parse();
    quiet_panics();
    let seed = args.u64("seed", 1);
    let runs = args.u64("runs", 4);
    let steps = args.u64("steps", 150);
    let per_run = args.u64("images", 10);
    let mut tw = TraceWriter::create(&args.str("out", "forest.ndjson"));
    let mut images = 0u64;
    let mut pages = 0u64;
    let mut trees = 0u64;
    let mut decode_errors = 0u64;
    let mut last_image: Option<J> = None;
    let mut multilevel = 0u64;
    let mut max_depth = 0u64;
    let mut subtrees = 0u64;
    for run in 0..runs {
        let page_size = [512usize, 512, 1024, 4096][(run % 4) as usize];
        let cfg = Config { seed: seed * 31 + run, page_size, region_size: if run % 3 == 2 { Some(1 << 16) } else { None }, cache_size: 1 << 20,
                           nkeys: if run % 5 == 4 { 600 } else { 64 }, vlens: default_vlens(page_size), sel: None };
        let mut rng = StdRng::seed_from_u64(seed * 7919 + run);
        let mut ex = Exec::new(cfg.clone());
        let profile = ["table", "multimap", "savepoint", "mixed", "pages", "catalog"][(run % 6) as usize];
        let base = Profile::by_name(profile);
        let prof = Profile { w_nondurable: base.w_nondurable.min(10), ops_per_txn: base.ops_per_txn.min(12), w_acct: 0, ..base };
        let mut g = Gen::new(prof, &ex.cx);
        let mut durable_points: Vec<J> = vec![];
        let mut i = 0u64;
        let snap = |ex: &Exec, i: u64, durable_points: &mut Vec<J>, decode_errors: &mut u64| {
            // everything the database has committed durably is in the backend bytes now
            let hdr = ex.db.as_ref().map(|db| db.verif_header());
            if hdr.is_some_and(|h| h.read_from_secondary) {
                return; // a non-durable commit is pending: the bytes hold the previous durable image
            }
            let bytes = ex.store.bytes();
            match redb_decoder::decode(&bytes, &redb_decoder::Options { page_size }) {
                Ok(dec) => {
                    let mut img = normalise(&dec);
                    img["run"] = json!(run);
                    img["i"] = json!(i);
                    durable_points.push(img);
                }
                Err(e) => {
                    *decode_errors += 1;
                    durable_points.push(json!({"e": "image", "run": run, "i": i, "slot_ok": false, "trees": [], "npages": 0, "decode_error": e}));
                }
            }
        };
        while i < steps {
            let step = g.next(&mut rng);
            let evs = ex.step(&step);
            g.observe(&evs);
            if evs.iter().any(|e| (e["e"] == "cend" && e["r"].get("ok").is_some()) || e["e"] == "reopen" || e["e"] == "compact") {
                snap(&ex, i, &mut durable_points, &mut decode_errors);
            }
            i += 1;
        }
        while let Some(step) = g.drain_one() {
            let evs = ex.step(&step);
            g.observe(&evs);
        }
        for step in g.final_steps() {
            let evs = ex.step(&step);
            g.observe(&evs);
        }
        snap(&ex, i, &mut durable_points, &mut decode_errors);
        // keep an evenly spread sample (TLC evaluates the predicates on each)
        let n = durable_points.len();
        let keep: Vec<usize> = if n as u64 <= per_run { (0..n).collect() } else { (0..per_run as usize).map(|k| k * (n - 1) / (per_run as usize - 1)).collect() };
        for k in keep {
            let img = &durable_points[k];
            images += 1;
            trees += img["trees"].as_array().unwrap().len() as u64;
            pages += img["npages"].as_u64().unwrap();
            if img["trees"].as_array().unwrap().iter().any(|t| t["pages"].as_array().unwrap().iter().any(|p| p["d"].as_u64().unwrap() >= 1)) {
                multilevel += 1;
            }
            for t in img["trees"].as_array().unwrap() {
                subtrees += (t["kind"] == "subtree") as u64;
                for p in t["pages"].as_array().unwrap() {
                    max_depth = max_depth.max(p["d"].as_u64().unwrap());
                }
            }
            tw.write(img);
            if last_image.as_ref().is_none_or(|b| b["npages"].as_u64() < img["npages"].as_u64()) {
                last_image = Some(img.clone());
            }
        }
    }
    tw.finish();
    // self-test of the predicates: damaged copies of a real image, each must be rejected
    if let (Some(dir), Some(img)) = (args.map.get("selftest"), last_image) {
        std::fs::create_dir_all(dir).unwrap();
        let big = img["trees"].as_array().unwrap().iter().position(|t| t["pages"].as_array().unwrap().len() >= 2).unwrap_or(0);
        let mut variants: Vec<(&str, J)> = vec![];
        let mut v = img.clone();
        v["slot_ok"] = json!(false);
        variants.push(("slot", v));
        let mut v = img.clone();
        v["trees"][big]["stored_len"] = json!(v["trees"][big]["stored_len"].as_u64().unwrap() + 1);
        variants.push(("count", v));
        let mut v = img.clone();
        v["trees"][big]["pages"][0]["ck"] = json!(false);
        variants.push(("checksum", v));
        let mut v = img.clone();
        if let Some(p) = v["trees"][big]["pages"].as_array_mut().unwrap().iter_mut().find(|p| p["keys"].as_array().unwrap().len() >= 2) {
            let k = p["keys"].as_array_mut().unwrap();
            k.swap(0, 1);
        }
        variants.push(("order", v));
        let mut v = img.clone();
        let dup = v["trees"][big]["pages"][0].clone();
        v["trees"][0]["pages"].as_array_mut().unwrap().push(dup);
        v["npages"] = json!(v["npages"].as_u64().unwrap() + 1);
        variants.push(("shared-page", v));
        let mut v = img.clone();
        if let Some(p) = v["trees"][big]["pages"].as_array_mut().unwrap().iter_mut().find(|p| p["t"] == "l") {
            p["d"] = json!(p["d"].as_u64().unwrap() + 1);
        }
        variants.push(("depth", v));
        // a routing key below the keys of the child before it
        let mut v = img.clone();
        let mut hit = false;
        for t in v["trees"].as_array_mut().unwrap() {
            if let Some(p) = t["pages"].as_array_mut().unwrap().iter_mut().find(|p| p["t"] == "b") {
                p["keys"][0] = json!([]);
                hit = true;
                break;
            }
        }
        if hit {
            variants.push(("routing", v));
        }
        // a routing key equal to the smallest key of the child after it
        let mut v = img.clone();
        let mut hit = false;
        'outer: for t in v["trees"].as_array_mut().unwrap() {
            let pages = t["pages"].as_array().unwrap().clone();
            for (pi, p) in pages.iter().enumerate() {
                if p["t"] == "b" && p["d"] == pages.iter().map(|q| q["d"].as_u64().unwrap()).max().unwrap() - 1 {
                    let nk = p["keys"].as_array().unwrap().len();
                    let right = pages.iter().find(|q| q["id"] == p["ch"][nk]).unwrap();
                    t["pages"][pi]["keys"][nk - 1] = right["keys"][0].clone();
                    hit = true;
                    break 'outer;
                }
            }
        }
        if hit {
            variants.push(("separator-equals-next", v));
        }
        // two values of an inline multimap collection swapped
        let mut v = img.clone();
        let mut hit = false;
        'o2: for t in v["trees"].as_array_mut().unwrap() {
            for p in t["pages"].as_array_mut().unwrap() {
                for e in p["inl"].as_array_mut().unwrap() {
                    if e.as_array().unwrap().len() >= 2 {
                        e.as_array_mut().unwrap().swap(0, 1);
                        hit = true;
                        break 'o2;
                    }
                }
            }
        }
        if hit {
            variants.push(("inline-order", v));
        }
        for (name, v) in variants {
            let mut w = TraceWriter::create(&format!("{dir}/{name}.ndjson"));
            w.write(&v);
            w.finish();
        }
    }
    println!("{}", json!({"runs": runs, "images": images, "trees": trees, "pages": pages, "images_with_branch_pages": multilevel, "max_depth": max_depth, "multimap_subtrees": subtrees, "decode_errors": decode_errors}));
}
