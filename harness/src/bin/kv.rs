//! Random API-level histories, recorded as ndjson for KvTrace.tla.
//!
//!   kv --profile table --seed 1 --runs 10 --steps 400 --out trace.ndjson [--page-size 512]
//!      [--cache 1048576] [--nkeys 64] [--region-size N] [--script FILE (replay a recorded script)]

use rand::SeedableRng;
use rand::rngs::StdRng;
use redb_verif_harness::exec::{Config, Exec, default_vlens};
use redb_verif_harness::r#gen::{Gen, Profile};
use redb_verif_harness::util::{Args, TraceWriter, quiet_panics};
use serde_json::{Value as J, json};

fn main() {
    let args = Args::parse();
    quiet_panics();
    let profile = args.str("profile", "table");
    let seed = args.u64("seed", 1);
    let runs = args.u64("runs", 1);
    let steps = args.u64("steps", 200);
    let out = args.str("out", "trace.ndjson");
    let page_sizes: Vec<usize> = args.str("page-size", "512").split(',').map(|x| x.parse().unwrap()).collect();
    let caches: Vec<usize> = args.str("cache", "1048576").split(',').map(|x| x.parse().unwrap()).collect();
    let nkeys = args.u64("nkeys", 64) as usize;
    let mut tw = TraceWriter::create(&out);
    let mut scripts = args.map.get("scripts-out").map(|p| TraceWriter::create(p));
    // every step is journalled (and flushed) before it is executed, so that a process abort inside
    // redb (a panic while panicking cannot be caught) still leaves a replayable script behind
    let mut journal = args.map.get("journal").map(|p| std::io::BufWriter::new(std::fs::File::create(p).unwrap()));
    let mut stats = json!({"runs": 0, "events": 0, "panics": 0, "steps": 0});
    let mut kinds: std::collections::BTreeMap<String, u64> = Default::default();

    if let Some(path) = args.map.get("script") {
        // replay: the file holds {"cfg":..., "steps":[...]}
        let j: J = serde_json::from_str(&std::fs::read_to_string(path).unwrap()).unwrap();
        let cfg = Config::from_json(&j["cfg"]);
        let mut ex = Exec::new(cfg);
        tw.write(&json!({"e": "reset", "run": 0}));
        for (i, step) in j["steps"].as_array().unwrap().iter().enumerate() {
            for mut ev in ex.step(step) {
                ev["run"] = json!(0);
                ev["i"] = json!(i);
                tw.write(&ev);
            }
        }
        tw.finish();
        return;
    }

    for run in 0..runs {
        let rseed = seed.wrapping_mul(1_000_003).wrapping_add(run);
        let page_size = page_sizes[(run as usize) % page_sizes.len()];
        let cache = caches[(run as usize / page_sizes.len()) % caches.len()];
        let cfg = Config {
            seed: rseed,
            page_size,
            region_size: args.map.get("region-size").map(|x| x.parse().unwrap()),
            cache_size: cache,
            nkeys,
            vlens: default_vlens(page_size),
            sel: None,
        };
        let mut rng = StdRng::seed_from_u64(rseed);
        let mut ex = Exec::new(cfg.clone());
        let mut g = Gen::new(Profile::by_name(&profile), &ex.cx);
        tw.write(&json!({"e": "reset", "run": run, "cfg": cfg.to_json()}));
        if let Some(j) = journal.as_mut() {
            use std::io::Write;
            writeln!(j, "{}", json!({"run": run, "cfg": cfg.to_json()})).unwrap();
            j.flush().unwrap();
        }
        let mut script: Vec<J> = vec![];
        let mut i = 0u64;
        let mut run_step = |ex: &mut Exec, g: &mut Gen, step: J, tw: &mut TraceWriter, i: &mut u64, script: &mut Vec<J>| {
            if let Some(j) = journal.as_mut() {
                use std::io::Write;
                writeln!(j, "{step}").unwrap();
                j.flush().unwrap();
            }
            let evs = ex.step(&step);
            g.observe(&evs);
            for mut ev in evs {
                ev["run"] = json!(run);
                ev["i"] = json!(*i);
                *kinds.entry(ev["e"].as_str().unwrap().to_string()).or_default() += 1;
                tw.write(&ev);
            }
            script.push(step);
            *i += 1;
        };
        while i < steps {
            let step = g.next(&mut rng);
            run_step(&mut ex, &mut g, step, &mut tw, &mut i, &mut script);
        }
        while let Some(step) = g.drain_one() {
            run_step(&mut ex, &mut g, step, &mut tw, &mut i, &mut script);
        }
        for step in g.final_steps() {
            run_step(&mut ex, &mut g, step, &mut tw, &mut i, &mut script);
        }
        stats["panics"] = json!(stats["panics"].as_u64().unwrap() + ex.panics);
        stats["steps"] = json!(stats["steps"].as_u64().unwrap() + i);
        if let Some(sw) = scripts.as_mut() {
            sw.write(&json!({"run": run, "cfg": cfg.to_json(), "steps": script}));
        }
        // closing the database of a run in which redb panicked earlier may panic again (poisoned locks): that earlier panic
        // is in the trace already; the driver goes on with the next run
        let _ = std::panic::catch_unwind(std::panic::AssertUnwindSafe(move || drop(ex)));
    }
    stats["runs"] = json!(runs);
    stats["kinds"] = json!(kinds);
    let lines = tw.finish();
    stats["events"] = json!(lines);
    if let Some(sw) = scripts {
        sw.finish();
    }
    println!("{stats}");
}
