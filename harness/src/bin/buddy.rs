//! Drives the real buddy allocator (redb::verif::BuddyHandle) and records every operation with
//! its result and the allocator's own free-block list, for BuddyTrace.tla.
//!
//!   buddy --mode tour --cap 8 --out trace.ndjson       every (len, free set) state x every operation
//!   buddy --mode walk --cap 64 --steps 4000 --seed 1 --out trace.ndjson

use rand::rngs::StdRng;
use rand::{RngExt, SeedableRng};
use redb::verif::BuddyHandle;
use redb_verif_harness::util::{Args, TraceWriter, quiet_panics};
use serde_json::{Value as J, json};

fn obs(b: &BuddyHandle, mut ev: J) -> J {
    ev["lenr"] = json!(b.len());
    ev["blocks"] = json!(b.free_blocks().iter().map(|(i, o)| json!([i, o])).collect::<Vec<J>>());
    ev
}

// builds an allocator of length len whose free pages are exactly `free`
fn build(cap: u32, len: u32, free: u32, variant: u32) -> BuddyHandle {
    // reach the length by different routes
    let mut b = match variant % 3 {
        0 => BuddyHandle::new(len, cap),
        1 => {
            let mut b = BuddyHandle::new(cap, cap);
            b.resize(len);
            b
        }
        _ => {
            let mut b = BuddyHandle::new(1, cap);
            b.resize(len);
            b
        }
    };
    for p in 0..len {
        if free >> p & 1 == 0 {
            assert!(b.record_alloc(p, 0));
        }
    }
    b
}

fn free_list(len: u32, free: u32) -> Vec<u32> {
    (0..len).filter(|p| free >> p & 1 == 1).collect()
}

fn main() {
    let args = Args::parse();
    quiet_panics();
    let mode = args.str("mode", "tour");
    let cap = args.u64("cap", 8) as u32;
    let seed = args.u64("seed", 1);
    let mut tw = TraceWriter::create(&args.str("out", "buddy.ndjson"));
    let max_order = 31 - cap.leading_zeros();
    let mut states = 0u64;
    let mut ops = 0u64;
    let mut panics = 0u64;
    if mode == "tour" {
        assert!(cap <= 16);
        let mut variant = 0u32;
        for len in 1..=cap {
            for free in 0..(1u32 << len) {
                states += 1;
                // every operation from this state; the state is rebuilt for each mutating operation
                let mut steps: Vec<J> = vec![];
                for o in 0..=(max_order + 1) {
                    steps.push(json!({"e": "alloc", "o": o}));
                    steps.push(json!({"e": "alloc_lowest", "o": o}));
                }
                for o in 0..=max_order {
                    for i in 0..(cap >> o) {
                        let lo = i << o;
                        let hi = (i + 1) << o;
                        if hi <= len && (lo..hi).all(|p| free >> p & 1 == 0) {
                            steps.push(json!({"e": "free", "i": i, "o": o}));
                        }
                        steps.push(json!({"e": "record", "i": i, "o": o}));
                    }
                    steps.push(json!({"e": "record", "i": cap >> o, "o": o}));
                }
                steps.push(json!({"e": "record", "i": 0, "o": max_order + 1}));
                for n in 1..=cap {
                    // shrinking is only defined when the tail being cut is free
                    if n >= len || (n..len).all(|p| free >> p & 1 == 1) {
                        steps.push(json!({"e": "resize", "n": n}));
                    }
                }
                steps.push(json!({"e": "roundtrip"}));
                for step in steps {
                    variant += 1;
                    let mut b = build(cap, len, free, variant);
                    tw.write(&obs(&b, json!({"e": "state", "cap": cap, "len": len, "free": free_list(len, free)})));
                    let res = std::panic::catch_unwind(std::panic::AssertUnwindSafe(|| {
                        let mut ev = step.clone();
                        match step["e"].as_str().unwrap() {
                            "alloc" => ev["r"] = json!(b.alloc(step["o"].as_u64().unwrap() as u8).map_or(vec![], |x| vec![x])),
                            "alloc_lowest" => ev["r"] = json!(b.alloc_lowest(step["o"].as_u64().unwrap() as u8).map_or(vec![], |x| vec![x])),
                            "free" => {
                                b.free(step["i"].as_u64().unwrap() as u32, step["o"].as_u64().unwrap() as u8);
                            }
                            "record" => ev["r"] = json!(b.record_alloc(step["i"].as_u64().unwrap() as u32, step["o"].as_u64().unwrap() as u8)),
                            "resize" => b.resize(step["n"].as_u64().unwrap() as u32),
                            "roundtrip" => b.roundtrip(),
                            _ => unreachable!(),
                        }
                        obs(&b, ev)
                    }));
                    ops += 1;
                    match res {
                        Ok(ev) => tw.write(&ev),
                        Err(_) => {
                            panics += 1;
                            let mut ev = step.clone();
                            ev["panic"] = json!(true);
                            ev["lenr"] = json!(0);
                            ev["blocks"] = json!([]);
                            tw.write(&ev);
                        }
                    }
                }
            }
        }
    } else if mode == "replay" {
        // re-execute recorded operations (a "state" record followed by operations)
        let j: J = serde_json::from_str(&std::fs::read_to_string(args.str("script", "")).unwrap()).unwrap();
        let mut b = BuddyHandle::new(1, cap);
        for ev in j["events"].as_array().unwrap() {
            let mut out = ev.clone();
            match ev["e"].as_str().unwrap() {
                "state" => {
                    let len = ev["len"].as_u64().unwrap() as u32;
                    let free: Vec<u64> = ev["free"].as_array().unwrap().iter().map(|x| x.as_u64().unwrap()).collect();
                    b = BuddyHandle::new(len, cap);
                    for p in 0..len {
                        if !free.contains(&u64::from(p)) {
                            assert!(b.record_alloc(p, 0));
                        }
                    }
                }
                "alloc" => out["r"] = json!(b.alloc(ev["o"].as_u64().unwrap() as u8).map_or(vec![], |x| vec![x])),
                "alloc_lowest" => out["r"] = json!(b.alloc_lowest(ev["o"].as_u64().unwrap() as u8).map_or(vec![], |x| vec![x])),
                "free" => {
                    b.free(ev["i"].as_u64().unwrap() as u32, ev["o"].as_u64().unwrap() as u8);
                }
                "record" => out["r"] = json!(b.record_alloc(ev["i"].as_u64().unwrap() as u32, ev["o"].as_u64().unwrap() as u8)),
                "resize" => b.resize(ev["n"].as_u64().unwrap() as u32),
                "roundtrip" => b.roundtrip(),
                _ => unreachable!(),
            }
            out["cap"] = json!(cap);
            tw.write(&obs(&b, out));
            ops += 1;
        }
    } else {
        let steps = args.u64("steps", 2000);
        let mut rng = StdRng::seed_from_u64(seed);
        let len0 = rng.random_range(1..=cap);
        let mut b = BuddyHandle::new(len0, cap);
        let mut live: Vec<(u32, u8)> = vec![];
        tw.write(&obs(&b, json!({"e": "state", "cap": cap, "len": len0, "free": (0..len0).collect::<Vec<u32>>()})));
        for _ in 0..steps {
            ops += 1;
            let x = rng.random_range(0..100);
            let ev = if x < 35 {
                let o = rng.random_range(0..=(max_order + 1).min(5)) as u8;
                let lowest = rng.random_range(0..2) == 0;
                let r = if lowest { b.alloc_lowest(o) } else { b.alloc(o) };
                if let Some(i) = r {
                    live.push((i, o));
                }
                json!({"e": if lowest { "alloc_lowest" } else { "alloc" }, "o": o, "r": r.map_or(vec![], |x| vec![x])})
            } else if x < 70 && !live.is_empty() {
                let k = rng.random_range(0..live.len());
                let (i, o) = live.swap_remove(k);
                // sometimes free a block as two halves (the allocator keeps no record of boundaries)
                if o > 0 && rng.random_range(0..4) == 0 {
                    b.free(2 * i, o - 1);
                    tw.write(&obs(&b, json!({"e": "free", "i": 2 * i, "o": o - 1})));
                    b.free(2 * i + 1, o - 1);
                    json!({"e": "free", "i": 2 * i + 1, "o": o - 1})
                } else {
                    b.free(i, o);
                    json!({"e": "free", "i": i, "o": o})
                }
            } else if x < 82 {
                let o = rng.random_range(0..=max_order.min(4)) as u8;
                let i = rng.random_range(0..=(cap >> o));
                let r = b.record_alloc(i, o);
                if r {
                    live.push((i, o));
                }
                json!({"e": "record", "i": i, "o": o, "r": r})
            } else if x < 92 {
                let mut n = rng.random_range(1..=cap);
                if n < b.len() && b.len() - n > b.trailing_free_pages() {
                    n = b.len() - rng.random_range(0..=b.trailing_free_pages().min(b.len() - 1));
                }
                b.resize(n);
                live.retain(|(i, o)| ((i + 1) << o) <= n);
                // blocks straddling the new end are cut: forget them, their remaining pages stay allocated
                json!({"e": "resize", "n": n})
            } else {
                b.roundtrip();
                json!({"e": "roundtrip"})
            };
            tw.write(&obs(&b, ev));
        }
        states = 1;
    }
    let lines = tw.finish();
    println!("{}", json!({"mode": mode, "cap": cap, "states": states, "ops": ops, "events": lines, "panics": panics}));
}
