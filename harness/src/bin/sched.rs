//! Schedule replay through the pause points compiled into redb under cfg(redb_verif).
//!
//! Scenario "begin_read": a reader thread is held between registering itself with the transaction
//! tracker and the rest of begin_read() while the writer commits; afterwards the writer keeps
//! committing (freeing and reusing pages) and the reader's snapshot is dumped.  The recorded
//! trace is judged by KvTrace.tla (BeginReadStart / BeginReadEnd window).
//!
//!   sched --scenario begin_read --variants 40 --seed 1 --out trace.ndjson

use rand::rngs::StdRng;
use rand::{RngExt, SeedableRng};
use redb::{Database, ReadableDatabase};
use redb_verif_harness::exec::{Config, Exec, default_vlens, dump_tables};
use redb_verif_harness::sched::{Controller, set_actor};
use redb_verif_harness::util::{Args, TraceWriter, quiet_panics};
use serde_json::{Value as J, json};
use std::sync::mpsc::channel;
use std::time::Duration;

fn txn(ex: &mut Exec, rng: &mut StdRng, kind: &str, nops: u32, out: &mut Vec<J>, vctr: &mut u32) {
    out.extend(ex.step(&json!({"e": "bw"})));
    match kind {
        "nd" => out.extend(ex.step(&json!({"e": "dur", "d": "none"}))),
        "2pc" => out.extend(ex.step(&json!({"e": "2pc", "on": true}))),
        "qr" => out.extend(ex.step(&json!({"e": "qr", "on": true}))),
        _ => {}
    }
    out.extend(ex.step(&json!({"e": "open", "n": "a", "kind": "t", "kt": "u64", "vt": "bytes"})));
    for _ in 0..nops {
        *vctr += 1;
        let class = [3u32, 4, 5, 8, 9, 10][rng.random_range(0..6)];
        let v = class * 1_000_000 + *vctr;
        let k = rng.random_range(0..12);
        if rng.random_range(0..4) == 0 {
            out.extend(ex.step(&json!({"e": "rem", "n": "a", "k": k})));
        } else {
            out.extend(ex.step(&json!({"e": "ins", "n": "a", "k": k, "v": v})));
        }
    }
    out.extend(ex.step(&json!({"e": "close", "n": "a"})));
    out.extend(ex.step(&json!({"e": "commit"})));
}

fn main() {
    let args = Args::parse();
    quiet_panics();
    let scenario = args.str("scenario", "begin_read");
    assert_eq!(scenario, "begin_read");
    let variants = args.u64("variants", 20);
    let seed = args.u64("seed", 1);
    let mut tw = TraceWriter::create(&args.str("out", "sched.ndjson"));
    let ctl = Controller::install();
    set_actor("main");
    let mut held = 0u64;
    let mut samples = vec![];
    for variant in 0..variants {
        let mut rng = StdRng::seed_from_u64(seed.wrapping_mul(31).wrapping_add(variant));
        let page_size = [512usize, 1024][(variant % 2) as usize];
        let cfg = Config { seed: seed + variant, page_size, region_size: None, cache_size: [1 << 20, 0][(variant / 2 % 2) as usize], nkeys: 64,
                           vlens: default_vlens(page_size), sel: None };
        let mut ex = Exec::new(cfg.clone());
        let cx = cfg.ctx();
        let mut evs: Vec<J> = vec![json!({"e": "reset", "run": variant, "cfg": cfg.to_json()})];
        let mut vctr = 0u32;
        // some history first
        for _ in 0..rng.random_range(1..4) {
            let kind = ["imm", "nd", "2pc"][rng.random_range(0..3)];
            txn(&mut ex, &mut rng, kind, 4, &mut evs, &mut vctr);
        }
        let during = ["nd", "nd", "imm", "qr", "none"][rng.random_range(0..5)];
        let after: Vec<&str> = (0..rng.random_range(2..6)).map(|_| ["nd", "nd", "nd", "imm"][rng.random_range(0..4)]).collect();
        let db: &'static Database = unsafe { &*(ex.db.as_ref().unwrap() as *const Database) };
        let (to_reader, from_main) = channel::<()>();
        let (to_main, from_reader) = channel::<J>();
        ctl.arm("R", "begin_read.after_register");
        evs.push(json!({"e": "brs", "h": "R"}));
        let cxr = &cx;
        std::thread::scope(|sc| {
            sc.spawn(move || {
                set_actor("R");
                let rt = db.begin_read();
                let rt = match rt {
                    Ok(rt) => {
                        to_main.send(json!({"ok": 0})).unwrap();
                        rt
                    }
                    Err(e) => {
                        to_main.send(json!({"err": e.to_string()})).unwrap();
                        return;
                    }
                };
                from_main.recv().unwrap();
                let obs = std::panic::catch_unwind(std::panic::AssertUnwindSafe(|| match dump_tables(&rt, cxr) {
                    Ok(tables) => json!({"tables": tables, "psp": []}),
                    Err(e) => json!({"error": e.to_string()}),
                }))
                .unwrap_or_else(|_| json!({"error": "panic"}));
                to_main.send(obs).unwrap();
                from_main.recv().unwrap();
                drop(rt);
                to_main.send(json!(0)).unwrap();
            });
            let reached = ctl.wait_reached("R", "begin_read.after_register", Duration::from_secs(10));
            if reached {
                held += 1;
            }
            if during != "none" {
                txn(&mut ex, &mut rng, during, 3, &mut evs, &mut vctr);
            }
            ctl.release("R", "begin_read.after_register");
            let r = from_reader.recv().unwrap();
            evs.push(json!({"e": "bre", "h": "R", "r": r, "held": reached}));
            for k in &after {
                txn(&mut ex, &mut rng, k, 5, &mut evs, &mut vctr);
            }
            to_reader.send(()).unwrap();
            let obs = from_reader.recv().unwrap();
            evs.push(json!({"e": "dump", "src": "R", "obs": obs}));
            to_reader.send(()).unwrap();
            from_reader.recv().unwrap();
            evs.push(json!({"e": "dr", "h": "R"}));
        });
        for (i, mut ev) in evs.into_iter().enumerate() {
            ev["run"] = json!(variant);
            ev["i"] = json!(i);
            tw.write(&ev);
        }
        if samples.len() < 2 {
            samples.push(json!({"variant": variant, "during_pause": during, "after": after}));
        }
    }
    Controller::uninstall();
    let lines = tw.finish();
    println!("{}", json!({"scenario": scenario, "variants": variants, "held_at_pause_point": held, "events": lines, "samples": samples}));
}
