//! StorageBackend usage contract (C20): records every call redb makes on a monitored backend, in
//! histories with reopen, failing opens (bad magic, wrong page size, truncation, torn geometry,
//! aborted repair, I/O error at every call of the open), a Database dropped while a write
//! transaction is live, and a forced race of a reader with the close.  BackendTrace.tla judges.
//!
//!   contract --seed 1 --runs 6 --steps 300 --out trace.ndjson [--race]

use rand::SeedableRng;
use rand::rngs::StdRng;
use redb::{ReadableDatabase, ReadableTable, ReadableTableMetadata, TableDefinition};
use redb_verif_harness::backend::{FaultMode, Store};
use redb_verif_harness::exec::{Config, Exec, builder, default_vlens};
use redb_verif_harness::r#gen::{Gen, Profile};
use redb_verif_harness::sched::{Controller, set_actor};
use redb_verif_harness::util::{Args, TraceWriter, quiet_panics};
use serde_json::{Value as J, json};
use std::sync::Arc;
use std::time::Duration;

fn flush_calls(store: &Arc<Store>, tw: &mut TraceWriter, scenario: &str, n: &mut u64) {
    for (kind, a, b) in store.take_calllog() {
        let ev = match kind {
            "bopen" => json!({"e": "bopen", "len": a, "ro": b != 0, "sc": scenario}),
            k => json!({"e": k, "a": a, "b": b, "sc": scenario}),
        };
        tw.write(&ev);
        *n += 1;
    }
}

const T: TableDefinition<u64, &[u8]> = TableDefinition::new("t");

fn small_db(cfg: &Config) -> Arc<Store> {
    let store = Store::new();
    let db = builder(cfg).create_with_backend(store.backend()).unwrap();
    let w = db.begin_write().unwrap();
    {
        let mut t = w.open_table(T).unwrap();
        for k in 0..40u64 {
            t.insert(k, vec![k as u8; 200].as_slice()).unwrap();
        }
    }
    w.commit().unwrap();
    drop(db);
    store
}

fn main() {
    let args = Args::parse();
    quiet_panics();
    let seed = args.u64("seed", 1);
    let runs = args.u64("runs", 4);
    let steps = args.u64("steps", 300);
    let race = args.has("race");
    if let Some(k) = args.map.get("cut").map(|x| x.parse::<usize>().unwrap()) {
        // E. a file with a recovery pending (the process died) that was then cut short by k pages from outside
        let cfg = Config::small(seed);
        let store = Store::new();
        let db = builder(&cfg).create_with_backend(store.backend()).unwrap();
        for c in 0..3u64 {
            let w = db.begin_write().unwrap();
            {
                let mut t = w.open_table(T).unwrap();
                for i in 0..60u64 {
                    t.insert(i, vec![(c + i) as u8; 150].as_slice()).unwrap();
                }
            }
            w.commit().unwrap();
        }
        let mut image = store.bytes();
        std::mem::forget(db);
        // the highest page the two commit points use: the cut goes k pages below its end
        let opts = redb_decoder::Options { page_size: 0 };
        let mut top = 0usize;
        for slot in 0..2 {
            let dec = redb_decoder::decode_slot(&image, &opts, slot).expect("HARNESS: decode");
            for [_, index, order] in redb_decoder::allocated_pages(&dec) {
                top = top.max(cfg.page_size + ((index as usize + 1) << order) * cfg.page_size);
            }
        }
        let new_len = top - k * cfg.page_size;
        image.truncate(new_len);
        let mut tw = TraceWriter::create(&args.str("out", "contract-cut.ndjson"));
        let store = Store::from_bytes(image);
        store.enable_calllog();
        let r = std::panic::catch_unwind(std::panic::AssertUnwindSafe(|| builder(&cfg).create_with_backend(store.backend()).map(|db| drop(db))));
        let outcome = match &r {
            Ok(Ok(())) => "opened".to_string(),
            Ok(Err(e)) => format!("error: {e}"),
            Err(_) => "panic".to_string(),
        };
        let name = "dirty-file-cut";
        tw.write(&json!({"e": "note", "sc": name, "outcome": outcome, "k": k, "len": new_len}));
        store.mark_done();
        let mut calls = 0u64;
        flush_calls(&store, &mut tw, name, &mut calls);
        tw.finish();
        println!("{}", json!({"scenarios": 1, "failing_opens": 1, "backend_calls": calls, "outcome": outcome}));
        return;
    }
    let mut tw = TraceWriter::create(&args.str("out", "contract.ndjson"));
    let mut calls = 0u64;
    let mut scenarios = 0u64;
    let mut failing_opens = 0u64;

    if !race {
        // A. histories with reopen, compaction, faults absent
        for run in 0..runs {
            let page_size = [512usize, 4096][(run % 2) as usize];
            let cfg = Config { seed: seed + run, page_size, region_size: if run % 3 == 2 { Some(1 << 16) } else { None }, cache_size: [1 << 20, 0][(run % 2) as usize],
                               nkeys: 64, vlens: default_vlens(page_size), sel: None };
            let store = Store::new();
            store.enable_calllog();
            let mut ex = Exec::with_store(cfg.clone(), store.clone());
            let mut rng = StdRng::seed_from_u64(seed * 977 + run);
            let mut g = Gen::new(Profile::by_name("mixed"), &ex.cx);
            for _ in 0..steps {
                let step = g.next(&mut rng);
                let evs = ex.step(&step);
                g.observe(&evs);
            }
            while let Some(step) = g.drain_one() {
                let evs = ex.step(&step);
                g.observe(&evs);
            }
            for step in g.final_steps() {
                let evs = ex.step(&step);
                g.observe(&evs);
            }
            ex.teardown();
            flush_calls(&store, &mut tw, "history", &mut calls);
            scenarios += 1;
        }
        // B. failing opens
        let cfg = Config::small(seed);
        let good = small_db(&cfg).bytes();
        let mut variants: Vec<(String, Vec<u8>, Config, bool)> = vec![];
        let mut bad = good.clone();
        bad[0] ^= 0xff;
        variants.push(("bad-magic".into(), bad, cfg.clone(), false));
        let mut c2 = cfg.clone();
        c2.page_size = 1024;
        c2.vlens = default_vlens(1024);
        variants.push(("wrong-page-size".into(), good.clone(), c2, false));
        variants.push(("truncated-half".into(), good[..good.len() / 2].to_vec(), cfg.clone(), false));
        variants.push(("truncated-100".into(), good[..100].to_vec(), cfg.clone(), false));
        let mut bad = good.clone();
        bad[16..24].copy_from_slice(&[0xff; 8]);
        variants.push(("torn-geometry".into(), bad, cfg.clone(), false));
        let mut bad = good.clone();
        bad[9] |= 2; // recovery required
        variants.push(("needs-repair-aborted".into(), bad, cfg.clone(), true));
        let mut bad = good.clone();
        for b in &mut bad[64..320] {
            *b ^= 0x55; // both commit slots corrupted
        }
        variants.push(("both-slots-corrupt".into(), bad, cfg.clone(), false));
        for (name, image, c, abort_repair) in variants {
            let store = Store::from_bytes(image);
            store.enable_calllog();
            let mut b = builder(&c);
            if abort_repair {
                b.set_repair_callback(|s| s.abort());
            }
            let r = std::panic::catch_unwind(std::panic::AssertUnwindSafe(|| b.create_with_backend(store.backend()).map(|db| drop(db))));
            let outcome = match &r {
                Ok(Ok(())) => "opened".to_string(),
                Ok(Err(e)) => format!("error: {e}"),
                Err(_) => "panic".to_string(),
            };
            tw.write(&json!({"e": "note", "sc": name, "outcome": outcome}));
            store.mark_done();
            flush_calls(&store, &mut tw, &name, &mut calls);
            failing_opens += 1;
            scenarios += 1;
        }
        // I/O error at every call of an open (of a database that needs repair, so the open does real work)
        let mut crashed = good.clone();
        crashed[9] |= 2;
        let probe = Store::from_bytes(crashed.clone());
        drop(builder(&cfg).create_with_backend(probe.backend()));
        let n_open_calls = probe.calls();
        for k in 0..n_open_calls {
            for mode in [FaultMode::Permanent, FaultMode::Once] {
                let store = Store::from_bytes(crashed.clone());
                store.enable_calllog();
                store.set_fault(Some((k, mode)));
                let r = std::panic::catch_unwind(std::panic::AssertUnwindSafe(|| builder(&cfg).create_with_backend(store.backend()).map(|db| drop(db))));
                if r.is_err() {
                    tw.write(&json!({"e": "note", "sc": "open-fault", "outcome": "panic", "k": k}));
                }
                store.mark_done();
                flush_calls(&store, &mut tw, "open-fault", &mut calls);
                failing_opens += 1;
                scenarios += 1;
            }
        }
        // F. growth across many small regions, inside one transaction and across transactions, then shrinking and compaction:
        // every new region starts partial (the file is extended to what is needed, not to a whole region)
        for (variant, (page_size, region)) in [(512usize, 1u64 << 14), (512, 1 << 15), (1024, 1 << 15), (512, 1 << 21), (4096, 1 << 21), (1024, 1 << 21)].into_iter().enumerate() {
            // (the last three: a region larger than the initial file - the first growth turns one region into a full one
            // plus a partial one)
            let cfg = Config { seed: seed + variant as u64, page_size, region_size: Some(region), cache_size: [1 << 20, 0, 1 << 14][variant % 3], nkeys: 64,
                               vlens: default_vlens(page_size), sel: None };
            let store = Store::new();
            store.enable_calllog();
            let r = std::panic::catch_unwind(std::panic::AssertUnwindSafe(|| {
                let mut db = builder(&cfg).create_with_backend(store.backend()).unwrap();
                for round in 0..3u64 {
                    let w = db.begin_write().unwrap();
                    {
                        let mut t = w.open_table(T).unwrap();
                        for k in 0..(700 + 300 * round) * if variant >= 3 { 3 } else { 1 } {
                            t.insert(k + 10_000 * round, vec![(k + round) as u8; page_size * 2 + 100 + (k as usize % 7) * 90].as_slice()).unwrap();
                        }
                    }
                    w.commit().unwrap();
                    let w = db.begin_write().unwrap();
                    {
                        let mut t = w.open_table(T).unwrap();
                        for k in 0..(500 + 250 * round) * if variant >= 3 { 3 } else { 1 } {
                            t.remove(k + 10_000 * round).unwrap();
                        }
                    }
                    w.commit().unwrap();
                    if round == 1 {
                        db.compact().unwrap();
                    }
                }
                let n = db.begin_read().unwrap().open_table(T).unwrap().len().unwrap();
                drop(db);
                n
            }));
            let outcome = match &r {
                Ok(n) => format!("done, {n} entries"),
                Err(_) => "panic".to_string(),
            };
            tw.write(&json!({"e": "note", "sc": "regions", "outcome": outcome, "variant": variant}));
            store.mark_done();
            flush_calls(&store, &mut tw, "regions", &mut calls);
            scenarios += 1;
        }
        // C. Database dropped while a write transaction is live; readers outliving the database
        for variant in 0..6 {
            let store = Store::new();
            store.enable_calllog();
            let db = builder(&cfg).create_with_backend(store.backend()).unwrap();
            let w0 = db.begin_write().unwrap();
            {
                let mut t = w0.open_table(T).unwrap();
                t.insert(1, vec![1u8; 100].as_slice()).unwrap();
            }
            w0.commit().unwrap();
            let reader = db.begin_read().unwrap();
            let w = db.begin_write().unwrap();
            drop(db);
            {
                let mut t = w.open_table(T).unwrap();
                t.insert(2, vec![2u8; 3000].as_slice()).unwrap();
            }
            match variant % 3 {
                0 => w.commit().unwrap(),
                1 => w.abort().unwrap(),
                _ => drop(w),
            }
            // the database is closed now; the reader must get DatabaseClosed or cached data, never touch the backend
            let t = reader.open_table(T);
            if let Ok(t) = t {
                let _ = t.get(1).map(|g| g.map(|g| g.value().len()));
                if variant >= 3 {
                    let _ = t.iter().map(|i| i.count());
                }
            }
            drop(reader);
            store.mark_done();
            flush_calls(&store, &mut tw, "drop-with-live-writer", &mut calls);
            scenarios += 1;
        }
        // C'. the backend's own close() fails: it has been called, and must not be called again - neither when the
        // Database is dropped, nor when the last reader / the deferred write transaction lets go of the storage
        for variant in 0..6 {
            let store = Store::new();
            store.enable_calllog();
            let db = builder(&cfg).create_with_backend(store.backend()).unwrap();
            let w0 = db.begin_write().unwrap();
            {
                let mut t = w0.open_table(T).unwrap();
                t.insert(1, vec![1u8; 100].as_slice()).unwrap();
            }
            w0.commit().unwrap();
            store.set_fail_close(true);
            let reader = if variant % 2 == 1 { Some(db.begin_read().unwrap()) } else { None };
            let writer = if variant >= 4 { Some(db.begin_write().unwrap()) } else { None };
            drop(db);
            if let Some(w) = writer {
                if variant == 4 { let _ = w.commit(); } else { drop(w); }
            }
            if let Some(r) = reader {
                if variant == 3 {
                    let _ = r.open_table(T).map(|t| t.get(1).map(|g| g.map(|g| g.value().len())));
                }
                drop(r);
            }
            store.mark_done();
            flush_calls(&store, &mut tw, "close-fails", &mut calls);
            scenarios += 1;
        }
    } else {
        // D. a reader passes the closed-check, the Database is dropped and closed, the reader goes on
        let cfg = Config { cache_size: 0, ..Config::small(seed) };
        let store = small_db(&cfg);
        store.enable_calllog();
        let ctl = Controller::install();
        set_actor("main");
        let db = builder(&cfg).create_with_backend(store.backend()).unwrap();
        let reader = db.begin_read().unwrap();
        let (tx, rx) = std::sync::mpsc::channel::<()>();
        let ctl2 = ctl.clone();
        let h = std::thread::spawn(move || {
            set_actor("R");
            let t = reader.open_table(T).unwrap();
            ctl2.arm("R", "checked.before_call");
            tx.send(()).unwrap();
            let r = t.get(17).map(|g| g.map(|g| g.value().len()));
            format!("{r:?}")
        });
        rx.recv().unwrap();
        let reached = ctl.wait_reached("R", "checked.before_call", Duration::from_secs(10));
        drop(db); // closes the backend while R sits between the check and the call
        ctl.release("R", "checked.before_call");
        let res = h.join().unwrap();
        Controller::uninstall();
        tw.write(&json!({"e": "note", "sc": "close-race", "reached": reached, "reader_result": res}));
        store.mark_done();
        flush_calls(&store, &mut tw, "close-race", &mut calls);
        scenarios += 1;
    }
    let lines = tw.finish();
    println!("{}", json!({"scenarios": scenarios, "failing_opens": failing_opens, "backend_calls": calls, "events": lines}));
}
