//! The page cache on its own (Cache.tla / CacheTrace.tla): random calls on the real
//! PagedCachedFile through redb::verif::CacheHandle, over the harness backend with injected
//! failures.  After every call the real state is projected: which pages the write buffer and the
//! read cache hold, the committed-pages flag, what the backend holds.
//!
//!   cache --seed 1 --runs 40 --steps 300 --pages 8 --out trace.ndjson

use rand::rngs::StdRng;
use rand::{RngExt, SeedableRng};
use redb::verif::CacheHandle;
use redb_verif_harness::backend::{FaultMode, Store};
use redb_verif_harness::util::{Args, TraceWriter, quiet_panics};
use serde_json::{Value as J, json};
use std::collections::BTreeSet;

const PAGE: usize = 512;

fn page_bytes(v: u64) -> Vec<u8> {
    let mut b = vec![0u8; PAGE];
    for (i, x) in b.iter_mut().enumerate() {
        *x = if i < 8 { v.to_le_bytes()[i] } else { (v as u8).wrapping_mul(31).wrapping_add(i as u8) };
    }
    b
}

/// the value a page image carries, or -1 if it is none a write produced
fn value_of(b: &[u8]) -> i64 {
    if b.iter().all(|x| *x == 0) {
        return 0;
    }
    let v = u64::from_le_bytes(b[..8].try_into().unwrap());
    if b == page_bytes(v).as_slice() { v as i64 } else { -1 }
}

fn main() {
    let args = Args::parse();
    quiet_panics();
    let seed = args.u64("seed", 1);
    let runs = args.u64("runs", 20);
    let steps = args.u64("steps", 300);
    let npages = args.u64("pages", 8) as usize;
    let mut tw = TraceWriter::create(&args.str("out", "cache.ndjson"));
    let (mut nops, mut nfaults, mut nerr, mut evictions, mut reclaim_failures, mut panics) = (0u64, 0u64, 0u64, 0u64, 0u64, 0u64);
    let mut samples = vec![];
    for run in 0..runs {
        let mut rng = StdRng::seed_from_u64(seed.wrapping_mul(48_271).wrapping_add(run));
        // cache budget in pages: 0 (nothing may stay), tiny, half of the pages, more than all pages
        let budget_pages = [0usize, 2, 3, npages / 2, npages, 2 * npages][(run % 6) as usize];
        let store = Store::from_bytes(vec![0u8; (npages + 1) * PAGE]);
        let cache = CacheHandle::new(Box::new(store.backend()), PAGE as u64, budget_pages * PAGE).expect("HARNESS: cache");
        let mut lines: Vec<J> = vec![json!({"e": "creset", "pages": npages, "budget": budget_pages})];
        let mut next_val = 1u64;
        let mut dirty: BTreeSet<u64> = BTreeSet::new();
        let mut latched = false;
        let faulty_run = run % 3 != 0;
        let project = |store: &Store, cache: &CacheHandle, latched: bool| -> J {
            let (wb, rc, flag, rbytes, wbytes) = cache.snapshot();
            let bytes = store.bytes();
            let file: Vec<i64> = (1..=npages).map(|p| value_of(&bytes[p * PAGE..(p + 1) * PAGE])).collect();
            json!({"wb": wb.iter().map(|o| o / PAGE as u64).collect::<Vec<_>>(), "rc": rc.iter().map(|o| o / PAGE as u64).collect::<Vec<_>>(),
                   "flag": flag, "file": file, "latched": latched, "bytes": [rbytes, wbytes]})
        };
        for _ in 0..steps {
            // arm a failure of one of the next few backend calls, now and then
            let calls0 = store.calls();
            let inj0 = store.faults_injected();
            if faulty_run && !latched && rng.random_range(0..12) == 0 {
                store.set_fault(Some((calls0 + rng.random_range(0..3), FaultMode::Once)));
            }
            let o = rng.random_range(1..=npages as u64);
            let off = o * PAGE as u64;
            let (wb_now, _, _, _, _) = cache.snapshot();
            let in_wb = wb_now.contains(&off);
            let opno = rng.random_range(0..100);
            let (_, _, flag_now, _, _) = cache.snapshot();
            if faulty_run && !latched && flag_now && (38..=74).contains(&opno) && rng.random_range(0..4) == 0 {
                // a read miss first reads the backend, then may write back buffered committed pages: fail that write
                store.set_fault(Some((calls0 + 1, FaultMode::Once)));
            }
            if (95..=98).contains(&opno) {
                cache.invalidate_cache(off, PAGE);
                let mut ev = json!({"e": "cinval", "pages": [o], "failed": 0});
                for (k, v) in project(&store, &cache, latched).as_object().unwrap() {
                    ev[k] = v.clone();
                }
                lines.push(ev);
            }
            let res = std::panic::catch_unwind(std::panic::AssertUnwindSafe(|| -> J {
                match opno {
                    0..=37 => {
                        let ow = rng.random_range(0..2) == 0;
                        let r = cache.write(off, PAGE, ow, &page_bytes(next_val));
                        json!({"e": "cwrite", "o": o, "v": next_val, "ow": ow, "r": if r.is_ok() { "ok" } else { "err" }})
                    }
                    38..=74 => {
                        // a page written since the last barrier / flush is read the way its writer reads it
                        let clean = !dirty.contains(&o) && rng.random_range(0..4) != 0;
                        match cache.read(off, PAGE, clean) {
                            Ok(b) => json!({"e": "cread", "o": o, "clean": clean, "r": "ok", "v": value_of(&b)}),
                            Err(_) => json!({"e": "cread", "o": o, "clean": clean, "r": "err", "v": -1}),
                        }
                    }
                    75..=82 => {
                        let r = cache.flush();
                        json!({"e": "cflush", "r": if r.is_ok() { "ok" } else { "err" }})
                    }
                    83..=90 => {
                        cache.write_barrier();
                        json!({"e": "cbarrier"})
                    }
                    91..=94 => {
                        if rng.random_range(0..4) == 0 {
                            cache.invalidate_cache_all();
                            json!({"e": "cinval", "pages": (1..=npages as u64).collect::<Vec<_>>()})
                        } else {
                            cache.invalidate_cache(off, PAGE);
                            json!({"e": "cinval", "pages": [o]})
                        }
                    }
                    95..=98 => {
                        // free a page: invalidate (the line before this one), then cancel what is pending for it
                        cache.cancel_pending_write(off, PAGE);
                        json!({"e": "ccancel", "o": o, "was_buffered": in_wb})
                    }
                    _ => {
                        // as clear_cache_and_reload() does: both caches are dropped
                        cache.discard_write_buffer();
                        cache.invalidate_cache_all();
                        json!({"e": "cdiscard"})
                    }
                }
            }));
            store.set_fault(None);
            let injected = store.faults_injected() - inj0;
            nfaults += injected;
            let mut ev = match res {
                Ok(ev) => ev,
                Err(_) => {
                    panics += 1;
                    json!({"e": "cread", "o": o, "clean": false, "r": "panic", "v": -1})
                }
            };
            // the harness's own bookkeeping of what the contract lets it ask next
            match ev["e"].as_str().unwrap() {
                "cwrite" if ev["r"] == "ok" => {
                    next_val += 1;
                    dirty.insert(o);
                }
                "cflush" if ev["r"] == "ok" => dirty.clear(),
                "cbarrier" => dirty.clear(),
                "ccancel" => {
                    dirty.remove(&o);
                }
                "cdiscard" => dirty.clear(),
                _ => {}
            }
            if ev["r"] == "err" {
                nerr += 1;
            }
            if cache.check_io_errors().is_err() {
                latched = true;
            }
            // pages evicted from the buffer by this call; dirty ones are not dirty any more once written back
            let (wb_after, _, _, _, _) = cache.snapshot();
            for off0 in wb_now.iter().filter(|x| !wb_after.contains(x)) {
                dirty.remove(&(off0 / PAGE as u64));
                if !matches!(ev["e"].as_str().unwrap(), "cflush" | "ccancel" | "cdiscard") {
                    evictions += 1;
                }
            }
            if ev["e"] == "cread" && ev["r"] == "ok" && injected > 0 {
                reclaim_failures += 1;
            }
            ev["failed"] = json!(injected);
            let p = project(&store, &cache, latched);
            for (k, v) in p.as_object().unwrap() {
                ev[k] = v.clone();
            }
            lines.push(ev);
            nops += 1;
            if latched && rng.random_range(0..6) == 0 {
                break;
            }
        }
        if samples.len() < 2 {
            samples.push(lines[lines.len() / 2].clone());
        }
        for (i, mut l) in lines.into_iter().enumerate() {
            l["run"] = json!(run);
            l["i"] = json!(i);
            tw.write(&l);
        }
    }
    tw.finish();
    println!("{}", json!({"runs": runs, "calls": nops, "faults_injected": nfaults, "errors_returned": nerr, "pages_written_back_by_other_calls": evictions,
                          "failed_best_effort_writebacks": reclaim_failures, "panics": panics, "samples": samples}));
}
