//! C18: exhaustive gap-cursor sessions.  For every content over a few keys, every bound, both
//! entry points and EVERY sequence of cursor operations up to a given length, the session is run on
//! the real table inside a write transaction that is then abandoned (so the content is the same
//! for the next session); ended by close() or by dropping the cursor; after it the table is read
//! back.  All events are written for KvTrace.tla (CurOpen / CurOp / CurClose / RCursor of Kv.tla).
//! Needs the harness built with --features cursor.
//!
//!   curs --keys 4 --len 2 --configs 3 --chunks 8 --out-prefix /path/prefix --seed 1

use redb_verif_harness::exec::{Config, Exec, TABLE_TYPES, default_vlens};
use redb_verif_harness::util::{Args, TraceWriter, quiet_panics};
use serde_json::{Value as J, json};

fn ops_alphabet(nkeys: u64) -> Vec<J> {
    let mut v: Vec<J> = ["peek_next", "peek_prev", "next", "prev", "rem_next", "rem_prev"].iter().map(|o| json!({"op": o})).collect();
    for k in 0..nkeys {
        v.push(json!({"op": "ins_before", "k": k}));
        v.push(json!({"op": "ins_after", "k": k}));
    }
    v
}

/// "for every gap": a table deep enough for three levels; one cursor session per gap inserts one to three new keys
/// there (insert_before, insert_after, or both directions), every accepted key is then looked up by key, and the
/// table is scanned at intervals; at the end the transaction commits and a reader scans and looks everything up.
fn sweep(args: &Args) {
    let seed = args.u64("seed", 1);
    let nconf = args.u64("configs", 3);
    let nbase = args.u64("base", 700);
    let chunks = args.u64("chunks", 8) as usize;
    let prefix = args.str("out-prefix", "curs");
    let mut writers: Vec<TraceWriter> = (0..chunks).map(|c| TraceWriter::create(&format!("{prefix}-{c}.ndjson"))).collect();
    let (mut sessions, mut events, mut panics, mut accepted, mut refused, mut run) = (0u64, 0u64, 0u64, 0u64, 0u64, 0u64);
    for conf in 0..nconf {
        let page_size = [512usize, 512, 1024, 4096][(conf % 4) as usize];
        let (kt, vt) = [("u64", "bytes"), ("bytes", "bytes"), ("str", "bytes"), ("u64", "u64")][((conf + seed) % 4) as usize];
        let vlens = default_vlens(page_size);
        // value classes: about 2-3 entries per leaf (deep trees from few keys), a small one, and one larger than a page
        let classes: [u32; 3] = [[7, 4, 13], [8, 3, 12], [6, 5, 14]][(conf % 3) as usize];
        let spacing = 4u64; // base keys at multiples of 4: room for three new keys in every gap
        let nkeys = (nbase + 2) * spacing;
        for variant in 0..3u64 {
            let cfg = Config { seed: seed + conf, page_size, region_size: None, cache_size: 1 << 22, nkeys: nkeys as usize, vlens: vlens.clone(), sel: None };
            let w = &mut writers[(run as usize) % chunks];
            let mut i = 0u64;
            let mut emit = |w: &mut TraceWriter, evs: Vec<J>, events: &mut u64, panics: &mut u64, accepted: &mut u64, refused: &mut u64| {
                for mut ev in evs {
                    if ev["e"] == "cur" && ev["op"].as_str().is_some_and(|o| o.starts_with("ins")) {
                        if ev["r"].get("ok").is_some() { *accepted += 1 } else { *refused += 1 }
                    }
                    if ev.get("r").is_some_and(|r| r.get("panic").is_some()) {
                        *panics += 1;
                    }
                    ev["run"] = json!(run);
                    ev["i"] = json!(i);
                    i += 1;
                    *events += 1;
                    w.write(&ev);
                }
            };
            emit(w, vec![json!({"e": "reset", "cfg": cfg.to_json(), "sweep": variant})], &mut events, &mut panics, &mut accepted, &mut refused);
            let mut ex = Exec::new(cfg);
            let val = |j: u64, c: usize| u64::from(classes[c]) * u64::from(redb_verif_harness::codec::VBASE) + j;
            let mut steps = vec![json!({"e": "bw"}), json!({"e": "open", "n": "a", "kind": "t", "kt": kt, "vt": vt})];
            for j in 1..=nbase {
                steps.push(json!({"e": "ins", "n": "a", "k": j * spacing, "v": if vt == "u64" { j } else { val(j, 0) }}));
            }
            steps.push(json!({"e": "close", "n": "a"}));
            steps.push(json!({"e": "commit"}));
            steps.push(json!({"e": "bw"}));
            steps.push(json!({"e": "open", "n": "a", "kind": "t", "kt": kt, "vt": vt}));
            for s in steps {
                let evs = ex.step(&s);
                emit(w, evs, &mut events, &mut panics, &mut accepted, &mut refused);
            }
            // one session per gap: gap g lies before base key (g+1)*spacing
            for g in 0..=nbase {
                let lo = g * spacing; // base key before the gap (0: none)
                let v = |d: u64| if vt == "u64" { lo + d } else { val(lo + d, (d as usize + g as usize) % 3) };
                let (b, upper, ops) = match variant {
                    0 => (json!({"t": "e", "k": lo}), false, vec![json!({"op": "ins_before", "k": lo + 1, "v": v(1)})]),
                    1 => (json!({"t": "e", "k": lo + spacing}), true, vec![json!({"op": "ins_after", "k": lo + 3, "v": v(3)}), json!({"op": "ins_after", "k": lo + 2, "v": v(2)})]),
                    _ => (
                        json!({"t": "i", "k": lo + 2}),
                        g % 2 == 0,
                        vec![json!({"op": "ins_before", "k": lo + 1, "v": v(1)}), json!({"op": "ins_after", "k": lo + 3, "v": v(3)}), json!({"op": "ins_before", "k": lo + 2, "v": v(2)})],
                    ),
                };
                let evs = ex.step(&json!({"e": "cursor", "n": "a", "b": b, "upper": upper, "ops": ops, "end": if g % 5 == 0 { "drop" } else { "close" }}));
                emit(w, evs, &mut events, &mut panics, &mut accepted, &mut refused);
                sessions += 1;
                if g % 97 == 0 {
                    let evs = ex.step(&json!({"e": "range", "src": "w", "n": "a", "lo": {"t": "u"}, "hi": {"t": "u"}, "cnt": 100000, "rev": g % 2 == 1, "alt": false}));
                    emit(w, evs, &mut events, &mut panics, &mut accepted, &mut refused);
                }
            }
            let mut tail = vec![json!({"e": "len", "src": "w", "n": "a"}), json!({"e": "close", "n": "a"}), json!({"e": "commit"}), json!({"e": "br", "h": "r1"})];
            for k in (0..nkeys).step_by(3) {
                tail.push(json!({"e": "get", "src": "r1", "n": "a", "kind": "t", "kt": kt, "vt": vt, "k": k}));
            }
            tail.push(json!({"e": "range", "src": "r1", "n": "a", "kind": "t", "kt": kt, "vt": vt, "lo": {"t": "u"}, "hi": {"t": "u"}, "cnt": 100000, "rev": false, "alt": false}));
            tail.push(json!({"e": "dr", "h": "r1"}));
            for s in tail {
                let evs = ex.step(&s);
                emit(w, evs, &mut events, &mut panics, &mut accepted, &mut refused);
            }
            ex.teardown();
            run += 1;
        }
    }
    for w in writers {
        w.finish();
    }
    println!("{}", json!({"sessions": sessions, "events": events, "panics": panics, "histories": run, "inserts_accepted": accepted, "inserts_refused": refused,
                          "base_keys": nbase, "configs": nconf, "alphabet": 0, "chunks": chunks, "mode": "sweep"}));
}

fn main() {
    let args = Args::parse();
    quiet_panics();
    if args.str("mode", "enum") == "sweep" {
        return sweep(&args);
    }
    let nk = args.u64("keys", 4);
    let len = args.u64("len", 2) as usize;
    let nconf = args.u64("configs", 3);
    let chunks = args.u64("chunks", 8) as usize;
    let seed = args.u64("seed", 1);
    let prefix = args.str("out-prefix", "curs");
    let mut writers: Vec<TraceWriter> = (0..chunks).map(|c| TraceWriter::create(&format!("{prefix}-{c}.ndjson"))).collect();
    let alphabet = ops_alphabet(nk);
    let mut bounds = vec![json!({"t": "u"})];
    for k in 0..nk {
        bounds.push(json!({"t": "i", "k": k}));
        bounds.push(json!({"t": "e", "k": k}));
    }
    let (mut sessions, mut events, mut panics, mut accepted, mut refused) = (0u64, 0u64, 0u64, 0u64, 0u64);
    let mut run = 0u64;
    for conf in 0..nconf {
        // configuration: page size, key/value types, and which real keys / values stand for the abstract ones
        let page_size = [512usize, 4096, 1024][(conf % 3) as usize];
        let (kt, vt) = TABLE_TYPES[((conf + seed) % TABLE_TYPES.len() as u64) as usize];
        let vlens = default_vlens(page_size);
        // value classes: conf 0 small; others straddle a third / half of a page so that few entries fill a leaf
        let classes: [u32; 2] = match conf % 4 {
            0 => [3, 4],
            1 => [5, 8],
            2 => [7, 10],
            _ => [4, 12],
        };
        let key_sel: Vec<u32> = (0..nk as u32).map(|i| 3 + i * 7 + (seed as u32 % 5)).collect();
        let val_sel: Vec<u32> = classes.iter().map(|c| c * redb_verif_harness::codec::VBASE + 1).collect();
        for content in 0..(1u64 << nk) {
            // one history per (configuration, content): its own chunk entry, beginning with a reset
            let cfg = Config { seed: seed + conf, page_size, region_size: None, cache_size: 1 << 20, nkeys: 64, vlens: vlens.clone(),
                               sel: Some((key_sel.clone(), val_sel.clone())) };
            let w = &mut writers[(run as usize) % chunks];
            let mut i = 0u64;
            let mut emit = |w: &mut TraceWriter, evs: Vec<J>, events: &mut u64| {
                for mut ev in evs {
                    ev["run"] = json!(run);
                    ev["i"] = json!(i);
                    i += 1;
                    *events += 1;
                    w.write(&ev);
                }
            };
            emit(w, vec![json!({"e": "reset", "cfg": cfg.to_json(), "content": content})], &mut events);
            let mut ex = Exec::new(cfg);
            let mut setup = vec![json!({"e": "bw"}), json!({"e": "open", "n": "a", "kind": "t", "kt": kt, "vt": if vt == "u64" { "u64" } else { vt }})];
            for k in 0..nk {
                if content >> k & 1 == 1 {
                    setup.push(json!({"e": "ins", "n": "a", "k": k, "v": k % 2}));
                }
            }
            setup.push(json!({"e": "close", "n": "a"}));
            setup.push(json!({"e": "commit"}));
            for s in setup {
                let evs = ex.step(&s);
                emit(w, evs, &mut events);
            }
            // every operation sequence of length 1..=len
            let mut idx = vec![0usize; len];
            let total: usize = alphabet.len().pow(len as u32);
            for b in &bounds {
                for upper in [false, true] {
                    for code in 0..total {
                        let mut c = code;
                        for slot in idx.iter_mut() {
                            *slot = c % alphabet.len();
                            c /= alphabet.len();
                        }
                        let ops: Vec<J> = idx
                            .iter()
                            .enumerate()
                            .map(|(j, &a)| {
                                let mut o = alphabet[a].clone();
                                if o.get("k").is_some() {
                                    o["v"] = json!((j + code) % 2);
                                }
                                o
                            })
                            .collect();
                        let end = if (code + upper as usize) % 3 == 0 { "drop" } else { "close" };
                        let steps = [
                            json!({"e": "bw"}),
                            json!({"e": "open", "n": "a", "kind": "t", "kt": kt, "vt": vt}),
                            json!({"e": "cursor", "n": "a", "b": b, "upper": upper, "ops": ops, "end": end}),
                            json!({"e": "range", "src": "w", "n": "a", "lo": {"t": "u"}, "hi": {"t": "u"}, "cnt": 1000, "rev": false, "alt": false}),
                            json!({"e": "close", "n": "a"}),
                            json!({"e": "abort"}),
                        ];
                        for s in &steps {
                            let evs = ex.step(s);
                            for ev in &evs {
                                if ev["e"] == "cur" && ev["op"].as_str().is_some_and(|o| o.starts_with("ins")) {
                                    if ev["r"].get("ok").is_some() { accepted += 1 } else { refused += 1 }
                                }
                                if ev["r"].get("panic").is_some() {
                                    panics += 1;
                                }
                            }
                            emit(w, evs, &mut events);
                        }
                        sessions += 1;
                    }
                }
            }
            ex.teardown();
            run += 1;
        }
    }
    for w in writers {
        w.finish();
    }
    println!("{}", json!({"sessions": sessions, "events": events, "panics": panics, "histories": run, "inserts_accepted": accepted, "inserts_refused": refused,
                          "keys": nk, "len": len, "configs": nconf, "alphabet": alphabet.len(), "chunks": chunks}));
}
