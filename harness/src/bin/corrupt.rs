//! C12: alterations of a cleanly closed database image.  For each image of a recorded history:
//! every bit of the header, every byte of the file under four patterns, runs of 2-64 bytes, swapped
//! page pairs.  Each altered image is opened with the real code, check_integrity() is called, the
//! contents are read; after Ok(false) the check is repeated.  The probes are appended to the
//! history's trace and judged by KvTrace.tla (Kv!CorruptProbe).
//!
//!   corrupt --seed 1 --histories 3 --steps 120 --out trace.ndjson [--tier quick|thorough]

use rand::rngs::StdRng;
use rand::{RngExt, SeedableRng};
use redb_verif_harness::backend::Store;
use redb_verif_harness::exec::{Config, Exec, builder, default_vlens, err_name, observe};
use redb_verif_harness::r#gen::{Gen, Profile};
use redb_verif_harness::util::{Args, TraceWriter, quiet_panics};
use serde_json::{Value as J, json};
use std::collections::HashMap;
use std::panic::{AssertUnwindSafe, catch_unwind};
use std::sync::Mutex;
use std::sync::atomic::{AtomicU64, Ordering};

#[derive(Clone, Debug)]
enum Alt {
    Bit { off: usize, bit: u8 },
    Byte { off: usize, val: u8 },
    Xor { off: usize, val: u8 },
    Run { off: usize, len: usize, seed: u64 },
    Swap { a: usize, b: usize, page: usize },
}

impl Alt {
    fn apply(&self, img: &mut [u8]) -> bool {
        match *self {
            Alt::Bit { off, bit } => {
                img[off] ^= 1 << bit;
                true
            }
            Alt::Byte { off, val } => {
                if img[off] == val {
                    return false;
                }
                img[off] = val;
                true
            }
            Alt::Xor { off, val } => {
                img[off] ^= val;
                true
            }
            Alt::Run { off, len, seed } => {
                let mut rng = StdRng::seed_from_u64(seed);
                let mut changed = false;
                for b in &mut img[off..off + len] {
                    let v: u8 = rng.random();
                    changed |= *b != v;
                    *b = v;
                }
                changed
            }
            Alt::Swap { a, b, page } => {
                let (pa, pb) = (a * page, b * page);
                if img[pa..pa + page] == img[pb..pb + page] {
                    return false;
                }
                for i in 0..page {
                    img.swap(pa + i, pb + i);
                }
                true
            }
        }
    }

    fn to_json(&self) -> J {
        match *self {
            Alt::Bit { off, bit } => json!({"k": "bit", "off": off, "bit": bit}),
            Alt::Byte { off, val } => json!({"k": "byte", "off": off, "val": val}),
            Alt::Xor { off, val } => json!({"k": "xor", "off": off, "val": val}),
            Alt::Run { off, len, seed } => json!({"k": "run", "off": off, "len": len, "seed": seed}),
            Alt::Swap { a, b, page } => json!({"k": "swap", "a": a, "b": b, "page": page}),
        }
    }

    fn from_json(j: &J) -> Alt {
        let u = |k: &str| j[k].as_u64().unwrap() as usize;
        match j["k"].as_str().unwrap() {
            "bit" => Alt::Bit { off: u("off"), bit: u("bit") as u8 },
            "byte" => Alt::Byte { off: u("off"), val: u("val") as u8 },
            "xor" => Alt::Xor { off: u("off"), val: u("val") as u8 },
            "run" => Alt::Run { off: u("off"), len: u("len"), seed: j["seed"].as_u64().unwrap() },
            _ => Alt::Swap { a: u("a"), b: u("b"), page: u("page") },
        }
    }
}

fn en(e: impl Into<redb::Error>) -> J {
    let e: redb::Error = e.into();
    json!({"err": err_name(&e)})
}

fn probe(image: Vec<u8>, cfg: &Config, full: bool) -> J {
    let cx = cfg.ctx();
    let copy = if full { Some(image.clone()) } else { None };
    let store = Store::from_bytes(image);
    catch_unwind(AssertUnwindSafe(|| {
        let mut db = match builder(cfg).create_with_backend(store.backend()) {
            Ok(db) => db,
            Err(e) => return json!({"open": "err", "why": en(e)}),
        };
        let integ = match db.check_integrity() {
            Ok(b) => json!({"ok": b}),
            Err(e) => en(e),
        };
        let obs = match observe(&db, &cx) {
            Ok(o) => o,
            Err(e) => json!({"error": en(e)}),
        };
        let mut out = json!({"open": "ok", "integ": integ, "obs": obs});
        if integ == json!({"ok": false}) {
            out["integ2"] = match db.check_integrity() {
                Ok(b) => json!({"ok": b}),
                Err(e) => en(e),
            };
            let obs2 = observe(&db, &cx).unwrap_or(json!({"error": 1}));
            out["same2"] = json!(obs2 == out["obs"]);
        }
        if let Some(copy) = &copy
            && out["integ"].get("ok").is_some()
        {
            // the alteration lies in the system tree (or the header): every persistent savepoint the certified database
            // lists is restored on a copy of the altered image
            let ids: Vec<u64> = out["obs"]["psp"].as_array().map(|a| a.iter().filter_map(|x| x.as_u64()).take(4).collect()).unwrap_or_default();
            let mut restored = vec![];
            for id in ids {
                let store2 = Store::from_bytes(copy.clone());
                let r = catch_unwind(AssertUnwindSafe(|| -> Result<J, redb::Error> {
                    let db2 = builder(cfg).create_with_backend(store2.backend())?;
                    let mut w = db2.begin_write()?;
                    let sp = w.get_persistent_savepoint(id)?;
                    w.restore_savepoint(&sp)?;
                    w.commit()?;
                    observe(&db2, &cx)
                }));
                restored.push(match r {
                    Ok(Ok(o)) => json!({"id": id, "obs": o}),
                    Ok(Err(e)) => json!({"id": id, "obs": {"error": err_name(&e)}}),
                    Err(_) => json!({"id": id, "obs": {"error": "panic"}}),
                });
            }
            if !restored.is_empty() {
                out["psp_restored"] = J::Array(restored);
            }
        }
        out
    }))
    .unwrap_or_else(|_| json!({"open": "panic"}))
}

/// probes the alterations [from, to) of an image; one line per probe, announced before it starts
fn worker(args: &Args) {
    use std::io::Write;
    quiet_panics();
    let image = std::fs::read(args.str("image", "")).unwrap();
    let cfg = Config::from_json(&serde_json::from_str(&std::fs::read_to_string(args.str("cfg", "")).unwrap()).unwrap());
    let alts: Vec<Alt> = std::fs::read_to_string(args.str("alts", "")).unwrap().lines().map(|l| Alt::from_json(&serde_json::from_str(l).unwrap())).collect();
    let (from, to) = (args.u64("from", 0) as usize, args.u64("to", 0) as usize);
    // byte ranges of the pages of the system tree (and the header): alterations there get the full probe
    let sys: Vec<(usize, usize)> = serde_json::from_str::<Vec<(usize, usize)>>(&args.str("sys", "[]")).unwrap();
    let touches = |a: &Alt| -> bool {
        let spans: Vec<(usize, usize)> = match *a {
            Alt::Bit { off, .. } | Alt::Byte { off, .. } | Alt::Xor { off, .. } => vec![(off, off + 1)],
            Alt::Run { off, len, .. } => vec![(off, off + len)],
            Alt::Swap { a, b, page } => vec![(a * page, (a + 1) * page), (b * page, (b + 1) * page)],
        };
        spans.iter().any(|(lo, hi)| sys.iter().any(|(s, e)| lo < e && s < hi))
    };
    let out = std::io::stdout();
    for w in from..to.min(alts.len()) {
        let mut img = image.clone();
        if !alts[w].apply(&mut img) {
            writeln!(out.lock(), "{}", json!({"w": w, "skipped": true})).unwrap();
            continue;
        }
        writeln!(out.lock(), "{}", json!({"start": w})).unwrap();
        out.lock().flush().unwrap();
        let o = probe(img, &cfg, touches(&alts[w]));
        writeln!(out.lock(), "{}", json!({"w": w, "out": o})).unwrap();
    }
    out.lock().flush().unwrap();
}

fn main() {
    let args = Args::parse();
    quiet_panics();
    if args.has("worker") {
        return worker(&args);
    }
    let seed = args.u64("seed", 1);
    let histories = args.u64("histories", 3);
    let steps = args.u64("steps", 120);
    let tier = args.str("tier", "quick");
    let threads = args.u64("threads", 14) as usize;
    let replay: Option<J> = args.map.get("replay").map(|p| serde_json::from_str(&std::fs::read_to_string(p).unwrap()).unwrap());
    let mut tw = TraceWriter::create(&args.str("out", "corrupt.ndjson"));
    let mut scripts = args.map.get("scripts-out").map(|p| TraceWriter::create(p));
    let (mut total, mut distinct, mut certified, mut repaired, mut rejected, mut panics) = (0u64, 0u64, 0u64, 0u64, 0u64, 0u64);
    let mut total_aborts = 0u64;
    let mut samples = vec![];
    let histories = if replay.is_some() { 1 } else { histories };
    for h in 0..histories {
        let hseed = seed.wrapping_mul(15_485_863).wrapping_add(h);
        let cfg = match &replay {
            Some(r) => Config::from_json(&r["cfg"]),
            None => {
                let page_size = if tier == "quick" { 512 } else { [512usize, 1024, 4096][(h % 3) as usize] };
                Config { seed: hseed, page_size, region_size: None, cache_size: 1 << 20, nkeys: 64, vlens: default_vlens(page_size), sel: None }
            }
        };
        let mut rng = StdRng::seed_from_u64(hseed);
        let mut ex = Exec::new(cfg.clone());
        let mut events: Vec<J> = vec![json!({"e": "reset", "cfg": cfg.to_json(), "history": h})];
        let mut script: Vec<J> = vec![];
        match &replay {
            Some(r) => {
                for step in r["steps"].as_array().unwrap() {
                    events.extend(ex.step(step));
                    script.push(step.clone());
                }
            }
            None => {
                let profile = ["table", "multimap", "savepoint"][(h % 3) as usize];
                let mut g = Gen::new(Profile::by_name(profile), &ex.cx);
                let mut i = 0;
                let mut run_step = |ex: &mut Exec, g: &mut Gen, step: J, events: &mut Vec<J>, script: &mut Vec<J>| {
                    let evs = ex.step(&step);
                    g.observe(&evs);
                    events.extend(evs);
                    script.push(step);
                };
                // catalog shapes the verifier has to walk past: tables that exist but hold nothing (a normal one and a
                // multimap), sorting before and after the tables of the random history
                for step in [
                    json!({"e": "bw"}),
                    json!({"e": "open", "n": "0e", "kind": "t", "kt": "u64", "vt": "u64"}),
                    json!({"e": "close", "n": "0e"}),
                    json!({"e": "open", "n": "0m", "kind": "m", "kt": "u64", "vt": "u64"}),
                    json!({"e": "close", "n": "0m"}),
                    json!({"e": "open", "n": "zz", "kind": "t", "kt": "bytes", "vt": "bytes"}),
                    json!({"e": "ins", "n": "zz", "k": 3, "v": 4_000_001}),
                    json!({"e": "rem", "n": "zz", "k": 3}),
                    json!({"e": "close", "n": "zz"}),
                    json!({"e": "commit"}),
                ] {
                    run_step(&mut ex, &mut g, step, &mut events, &mut script);
                }
                while i < steps {
                    let step = g.next(&mut rng);
                    run_step(&mut ex, &mut g, step, &mut events, &mut script);
                    i += 1;
                }
                while let Some(step) = g.drain_one() {
                    run_step(&mut ex, &mut g, step, &mut events, &mut script);
                }
                for step in g.final_steps() {
                    run_step(&mut ex, &mut g, step, &mut events, &mut script);
                }
            }
        }
        // trim the file as far as compaction allows (smaller images, complete byte sweeps), then close cleanly
        if replay.is_none() || replay.as_ref().unwrap()["trim"].as_bool().unwrap_or(true) {
            events.extend(ex.step(&json!({"e": "compact"})));
            events.extend(ex.step(&json!({"e": "reopen"})));
        }
        // a persistent savepoint of a state that differs from the final one (after the trim: compaction refuses to run while
        // one exists): the system tree of the image holds the savepoint table
        let with_savepoint = match &replay {
            Some(r) => r["savepoint_epilogue"].as_bool().unwrap_or(false),
            None => h % 2 == 1,
        };
        if with_savepoint {
            for step in [
                json!({"e": "bw"}),
                json!({"e": "spp"}),
                json!({"e": "open", "n": "zs", "kind": "t", "kt": "u64", "vt": "u64"}),
                json!({"e": "ins", "n": "zs", "k": 1, "v": 1}),
                json!({"e": "ins", "n": "zs", "k": 2, "v": 2}),
                json!({"e": "close", "n": "zs"}),
                json!({"e": "commit"}),
                json!({"e": "bw"}),
                json!({"e": "open", "n": "zs", "kind": "t", "kt": "u64", "vt": "u64"}),
                json!({"e": "ins", "n": "zs", "k": 3, "v": 3}),
                json!({"e": "close", "n": "zs"}),
                json!({"e": "commit"}),
                json!({"e": "reopen"}),
            ] {
                events.extend(ex.step(&step));
            }
        }
        ex.teardown();
        let image = ex.store.bytes();
        let p = cfg.page_size;
        let npages = image.len() / p;
        // the alterations
        let mut alts: Vec<Alt> = vec![];
        match &replay {
            Some(r) => alts.push(Alt::from_json(&r["alt"])),
            None => {
                for off in 0..320.min(image.len()) {
                    for bit in 0..8 {
                        alts.push(Alt::Bit { off, bit });
                    }
                }
                let stride = if tier == "quick" { 1 } else { 1 };
                for off in (320..image.len()).step_by(stride) {
                    alts.push(Alt::Xor { off, val: 0x01 });
                    alts.push(Alt::Xor { off, val: 0x80 });
                    alts.push(Alt::Byte { off, val: 0x00 });
                    alts.push(Alt::Byte { off, val: 0xff });
                }
                for off in (0..image.len().saturating_sub(64)).step_by(16) {
                    for len in [2usize, 7, 16, 64] {
                        alts.push(Alt::Run { off, len, seed: hseed ^ (off as u64) << 8 ^ len as u64 });
                    }
                }
                let limit = npages.min(if tier == "quick" { 40 } else { 120 });
                for a in 1..limit {
                    for b in (a + 1)..limit {
                        alts.push(Alt::Swap { a, b, page: p });
                    }
                }
            }
        }
        // the probes run in worker processes: redb may panic while it is already unwinding from a panic on a damaged
        // image, which aborts the process; that is a loud outcome like any other and must not end the sweep
        let applied = AtomicU64::new(0);
        let found: Mutex<HashMap<String, (J, J, u64)>> = Mutex::new(HashMap::new());
        let base = args.str("out", "corrupt.ndjson");
        let (f_image, f_alts, f_cfg) = (format!("{base}.image"), format!("{base}.alts"), format!("{base}.cfg"));
        std::fs::write(&f_image, &image).unwrap();
        std::fs::write(&f_alts, alts.iter().map(|a| a.to_json().to_string()).collect::<Vec<_>>().join("\n")).unwrap();
        std::fs::write(&f_cfg, cfg.to_json().to_string()).unwrap();
        // the pages of the system tree of the image (independent decoder), and the header
        let mut sys: Vec<(usize, usize)> = vec![(0, 320)];
        if let Ok(dec) = redb_decoder::decode(&image, &redb_decoder::Options { page_size: 0 }) {
            let l = &dec["layout"];
            let (hp, mp) = (l["region_header_pages"].as_u64().unwrap() as usize, l["region_max_data_pages"].as_u64().unwrap() as usize);
            for t in dec["trees"].as_array().unwrap() {
                if t["owner"] != "system" {
                    continue;
                }
                for pg in t["pages"].as_array().unwrap() {
                    let (r, i, o) = (pg["page"][0].as_u64().unwrap() as usize, pg["page"][1].as_u64().unwrap() as usize, pg["page"][2].as_u64().unwrap());
                    let start = p + r * (hp + mp) * p + hp * p + i * (p << o);
                    sys.push((start, start + (p << o)));
                }
            }
        }
        let sys_arg = serde_json::to_string(&sys).unwrap();
        let exe = std::env::current_exe().unwrap();
        let chunk = alts.len().div_ceil(threads.max(1)).max(1);
        let aborts = AtomicU64::new(0);
        std::thread::scope(|sc| {
            for t in 0..threads {
                let (lo, hi) = (t * chunk, ((t + 1) * chunk).min(alts.len()));
                if lo >= hi {
                    continue;
                }
                let (exe, f_image, f_alts, f_cfg, found, applied, alts, aborts, sys_arg) = (&exe, &f_image, &f_alts, &f_cfg, &found, &applied, &alts, &aborts, &sys_arg);
                sc.spawn(move || {
                    let mut from = lo;
                    while from < hi {
                        let out = std::process::Command::new(exe)
                            .args(["--worker", "--image", f_image, "--alts", f_alts, "--cfg", f_cfg, "--from", &from.to_string(), "--to", &hi.to_string(), "--sys", sys_arg])
                            .stderr(std::process::Stdio::null())
                            .output()
                            .expect("HARNESS: cannot start a probe worker");
                        let mut started: Option<usize> = None;
                        let mut last_done = from;
                        for line in String::from_utf8_lossy(&out.stdout).lines() {
                            let Ok(j) = serde_json::from_str::<J>(line) else { continue };
                            if let Some(w) = j.get("start").and_then(|x| x.as_u64()) {
                                started = Some(w as usize);
                            } else if let Some(w) = j.get("w").and_then(|x| x.as_u64()) {
                                let w = w as usize;
                                started = None;
                                last_done = w + 1;
                                if j["skipped"] == true {
                                    continue;
                                }
                                applied.fetch_add(1, Ordering::Relaxed);
                                let key = j["out"].to_string();
                                let mut f = found.lock().unwrap();
                                f.entry(key).and_modify(|e| e.2 += 1).or_insert((j["out"].clone(), alts[w].to_json(), 1));
                            }
                        }
                        if out.status.success() {
                            break;
                        }
                        // the worker died inside the probe it had announced
                        match started {
                            Some(w) => {
                                aborts.fetch_add(1, Ordering::Relaxed);
                                applied.fetch_add(1, Ordering::Relaxed);
                                let o = json!({"open": "abort"});
                                let mut f = found.lock().unwrap();
                                f.entry(o.to_string()).and_modify(|e| e.2 += 1).or_insert((o, alts[w].to_json(), 1));
                                from = w + 1;
                            }
                            None => {
                                assert!(last_done > from, "HARNESS: a probe worker fails before probing anything");
                                from = last_done;
                            }
                        }
                    }
                });
            }
        });
        for f in [&f_image, &f_alts, &f_cfg] {
            let _ = std::fs::remove_file(f);
        }
        total_aborts += aborts.load(Ordering::Relaxed);
        let found = found.into_inner().unwrap();
        total += applied.load(Ordering::Relaxed);
        distinct += found.len() as u64;
        for (i, mut ev) in events.into_iter().enumerate() {
            ev["run"] = json!(h);
            ev["i"] = json!(i);
            tw.write(&ev);
        }
        let mut k = 0;
        for (out, alt, n) in found.values() {
            let mut ev = json!({"e": "cprobe", "alt": alt, "n": n, "run": h, "i": 100_000 + k, "image_len": image.len()});
            for (key, v) in out.as_object().unwrap() {
                ev[key] = v.clone();
            }
            match (out["open"].as_str(), out.get("integ").and_then(|x| x.get("ok")).and_then(|x| x.as_bool())) {
                (Some("ok"), Some(true)) => certified += n,
                (Some("ok"), Some(false)) => repaired += n,
                (Some("panic" | "abort"), _) => panics += n,
                _ => rejected += n,
            }
            if samples.len() < 3 && k % 5 == 1 {
                let mut s = ev.clone();
                s.as_object_mut().unwrap().remove("obs");
                samples.push(s);
            }
            tw.write(&ev);
            k += 1;
        }
        if let Some(sw) = scripts.as_mut() {
            sw.write(&json!({"history": h, "cfg": cfg.to_json(), "steps": script, "savepoint_epilogue": with_savepoint}));
        }
    }
    tw.finish();
    if let Some(sw) = scripts {
        sw.finish();
    }
    println!(
        "{}",
        json!({"histories": histories, "alterations": total, "distinct_outcomes": distinct, "certified_ok_true": certified, "repaired_ok_false": repaired,
               "rejected_with_error": rejected, "panics": panics, "process_aborts": total_aborts, "samples": samples})
    );
}
