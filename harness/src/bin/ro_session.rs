//! Creates a small database file (phase "create"), or opens it read-only, reads everything and
//! drops it (phase "read").  Run under strace by ./check C20 to observe the system calls a
//! read-only database issues on its file.
use redb::{Database, ReadableDatabase, ReadableTable, TableDefinition};

const T: TableDefinition<u64, &[u8]> = TableDefinition::new("t");

fn main() {
    let args: Vec<String> = std::env::args().collect();
    let (phase, path) = (args[1].as_str(), args[2].as_str());
    if phase == "create" {
        let db = Database::create(path).unwrap();
        let w = db.begin_write().unwrap();
        {
            let mut t = w.open_table(T).unwrap();
            for k in 0..200u64 {
                t.insert(k, vec![k as u8; 300].as_slice()).unwrap();
            }
        }
        w.commit().unwrap();
    } else {
        let db = Database::builder().open_read_only(path).unwrap();
        let r = db.begin_read().unwrap();
        let t = r.open_table(T).unwrap();
        let mut n = 0;
        for x in t.iter().unwrap() {
            let (_, v) = x.unwrap();
            n += v.value().len();
        }
        assert_eq!(n, 200 * 300);
        let r2 = db.begin_read().unwrap();
        drop(r);
        drop(r2);
        drop(t);
        drop(db);
        println!("read-only session ok");
    }
}
