//! scratch: does an untyped table handle that outlives its read transaction keep its snapshot?
use redb::backends::InMemoryBackend;
use redb::{Database, ReadableDatabase, ReadableTableMetadata, TableDefinition, TableHandle};
const T: TableDefinition<u64, &[u8]> = TableDefinition::new("t");
fn main() {
    let db = Database::builder().set_cache_size(0).create_with_backend(InMemoryBackend::new()).unwrap();
    let w = db.begin_write().unwrap();
    {
        let mut t = w.open_table(T).unwrap();
        for k in 0..2000u64 {
            t.insert(k, vec![k as u8; 100].as_slice()).unwrap();
        }
    }
    w.commit().unwrap();
    let r = db.begin_read().unwrap();
    let handles = r.list_tables().unwrap().collect::<Vec<_>>();
    let ut = r.open_untyped_table(handles.into_iter().next().unwrap()).unwrap();
    let s0 = ut.stats().unwrap();
    println!("before: len {} height {} leaves {} branches {} bytes {}", ut.len().unwrap(), s0.tree_height(), s0.leaf_pages(), s0.branch_pages(), s0.stored_bytes());
    drop(r);
    for round in 0..6u64 {
        let w = db.begin_write().unwrap();
        {
            let mut t = w.open_table(T).unwrap();
            for k in 0..2000u64 {
                t.remove(k).unwrap();
            }
            for k in 0..300u64 {
                t.insert(k + 10_000 * round, vec![7u8; 3000].as_slice()).unwrap();
            }
        }
        w.commit().unwrap();
    }
    let res = std::panic::catch_unwind(std::panic::AssertUnwindSafe(|| ut.stats().map(|s| (s.tree_height(), s.leaf_pages(), s.branch_pages(), s.stored_bytes()))));
    println!("after: len {:?} stats {:?} name {}", ut.len(), res.map_err(|_| "panic"), ut.name());
}
