//! C03 under real threads with an exact oracle.  Writer threads compete for the write slot; each
//! transaction rewrites a few keys of TWO tables (a normal one and a multimap) with its own unique
//! number, then commits (any durability) or aborts.  Reader threads call begin_read() at any time,
//! dump both tables, wait, dump again, drop.  Every call is stamped from one atomic clock.
//!
//! The recorded calls are put into ONE sequence for KvTrace.tla:
//!   * a writer's events at their completion stamps, its commit at the stamp taken before commit()
//!     was called: if two writers were ever live together, a begin_write appears inside another
//!     transaction and the specification rejects it;
//!   * a reader's begin_read as a window (brs ... bre, Kv!BeginReadStart/End): brs right after the
//!     last commit that had RETURNED before the call began (and not before what an earlier reader of
//!     the same thread, or any reader that had returned before, was seen to see: no going
//!     backwards), bre right after the last commit whose commit() had BEGUN before the call returned.
//!     The snapshot must be exactly one commit point in that window, in both tables, both times.
//!
//!   conc --seed 1 --runs 4 --writers 3 --readers 4 --txns 300 --out trace.ndjson

use rand::rngs::StdRng;
use rand::{RngExt, SeedableRng};
use redb::{Database, Durability, MultimapTableDefinition, ReadableDatabase, ReadableTable, TableDefinition};
use redb_verif_harness::backend::Store;
use redb_verif_harness::exec::{Config, builder, default_vlens, dump_tables};
use redb_verif_harness::util::{Args, TraceWriter, quiet_panics};
use serde_json::{Value as J, json};
use std::sync::atomic::{AtomicBool, AtomicU64, Ordering};
use std::sync::{Arc, Mutex};

const STRIDE: u64 = 1_000_003;
const A: TableDefinition<u64, u64> = TableDefinition::new("a");
const M: MultimapTableDefinition<u64, u64> = MultimapTableDefinition::new("m");

struct Txn {
    b: u64,      // begin_write returned
    c: u64,      // just before commit()/abort() was called
    d: u64,      // after it returned
    events: Vec<J>,
    committed: bool,
    tid: u64,
}

struct Read {
    s: u64,
    e: u64,
    h: String,
    dumps: Vec<J>,
    seen: Option<u64>, // the transaction number found in the snapshot (0 = the initial state)
    thread: usize,
}

fn ok(x: J) -> J {
    json!({"ok": x})
}

fn main() {
    let args = Args::parse();
    quiet_panics();
    let seed = args.u64("seed", 1);
    let runs = args.u64("runs", 3);
    let nw = args.u64("writers", 3) as usize;
    let nr = args.u64("readers", 4) as usize;
    let ntx = args.u64("txns", 200);
    let mut tw = TraceWriter::create(&args.str("out", "conc.ndjson"));
    let (mut tot_commits, mut tot_aborts, mut tot_reads, mut overlapping, mut events) = (0u64, 0u64, 0u64, 0u64, 0u64);
    let mut samples = vec![];
    for run in 0..runs {
        let page_size = [512usize, 4096, 1024][(run % 3) as usize];
        let cfg = Config { seed: seed + run, page_size, region_size: None, cache_size: [1 << 20, 0][(run % 2) as usize], nkeys: 64, vlens: default_vlens(page_size), sel: None };
        let cx = cfg.ctx();
        let store = Store::new();
        let db = builder(&cfg).create_with_backend(store.backend()).expect("HARNESS: create");
        // every other run on a storage whose sync takes time: readers then begin INSIDE the window in which a durable
        // commit has written its header but not yet published it in memory
        store.set_sync_delay([0, 150, 400][(run % 3) as usize]);
        let clock = AtomicU64::new(1);
        let tick = || clock.fetch_add(1, Ordering::SeqCst);
        let next_tid = AtomicU64::new(1);
        let remaining = AtomicU64::new(ntx);
        let done = AtomicBool::new(false);
        let txns: Mutex<Vec<Txn>> = Mutex::new(vec![]);
        let reads: Mutex<Vec<Read>> = Mutex::new(vec![]);
        let rctr = AtomicU64::new(0);
        let ncommitted = AtomicU64::new(0);
        let panics = AtomicU64::new(0);
        let dbr: &Database = &db;
        std::thread::scope(|sc| {
            for w in 0..nw {
                let (txns, next_tid, remaining, tick, panics, ncommitted) = (&txns, &next_tid, &remaining, &tick, &panics, &ncommitted);
                let mut rng = StdRng::seed_from_u64(seed * 1000 + run * 10 + w as u64);
                sc.spawn(move || {
                    loop {
                        if remaining.fetch_update(Ordering::SeqCst, Ordering::SeqCst, |x| x.checked_sub(1)).is_err() {
                            break;
                        }
                        let r = std::panic::catch_unwind(std::panic::AssertUnwindSafe(|| {
                            let mut wt = dbr.begin_write().expect("begin_write");
                            let b = tick();
                            // the number is taken inside the transaction: numbers are in serial order
                            let tid = next_tid.fetch_add(1, Ordering::SeqCst);
                            let mut evs = vec![json!({"e": "bw", "r": ok(json!(0))})];
                            let nd = rng.random_range(0..100) < 50;
                            if nd {
                                wt.set_durability(Durability::None).unwrap();
                                evs.push(json!({"e": "dur", "d": "none", "r": ok(json!(0))}));
                            } else if rng.random_range(0..3) == 0 {
                                wt.set_two_phase_commit(true);
                            }
                            {
                                let mut t = wt.open_table(A).unwrap();
                                evs.push(json!({"e": "open", "n": "a", "kind": "t", "kt": "u64", "vt": "u64", "r": ok(json!(0))}));
                                // key 0 of both tables always carries the transaction number; a few other keys too
                                let mut keys = vec![0u64];
                                for _ in 0..rng.random_range(1..5) {
                                    keys.push(rng.random_range(1..12));
                                }
                                for k in &keys {
                                    let old = t.insert(k * STRIDE, tid).unwrap().map(|g| g.value());
                                    evs.push(json!({"e": "ins", "n": "a", "k": k, "v": tid, "r": ok(match old { Some(o) => json!([o]), None => json!([]) })}));
                                }
                                if rng.random_range(0..4) == 0 {
                                    let k = rng.random_range(1..12u64);
                                    let old = t.remove(k * STRIDE).unwrap().map(|g| g.value());
                                    evs.push(json!({"e": "rem", "n": "a", "k": k, "r": ok(match old { Some(o) => json!([o]), None => json!([]) })}));
                                }
                                drop(t);
                                evs.push(json!({"e": "close", "n": "a"}));
                                let mut m = wt.open_multimap_table(M).unwrap();
                                evs.push(json!({"e": "open", "n": "m", "kind": "m", "kt": "u64", "vt": "u64", "r": ok(json!(0))}));
                                let mut old: Vec<u64> = vec![];
                                for v in m.remove_all(0).unwrap() {
                                    old.push(v.unwrap().value() / STRIDE);
                                }
                                evs.push(json!({"e": "mremall", "n": "m", "k": 0, "r": ok(json!(old))}));
                                // the multimap values are keys of the u64 corpus: only small numbers fit, so the number is
                                // stored in two digits base 64
                                for (pos, digit) in [tid % 64, tid / 64 % 64].iter().enumerate() {
                                    let v = (pos as u64) * 100 + digit;
                                    let existed = m.insert(0, v * STRIDE).unwrap();
                                    evs.push(json!({"e": "mins", "n": "m", "k": 0, "v": v, "r": ok(json!(existed))}));
                                }
                                drop(m);
                                evs.push(json!({"e": "close", "n": "m"}));
                            }
                            let commit = rng.random_range(0..100) < 85;
                            let c = tick();
                            if commit {
                                wt.commit().expect("commit");
                            } else {
                                wt.abort().expect("abort");
                            }
                            let d = tick();
                            ncommitted.fetch_add(1, Ordering::SeqCst);
                            if commit {
                                evs.push(json!({"e": "cbegin"}));
                                evs.push(json!({"e": "cend", "r": ok(json!(0))}));
                            } else {
                                evs.push(json!({"e": "abort", "r": ok(json!(0))}));
                            }
                            Txn { b, c, d, events: evs, committed: commit, tid }
                        }));
                        match r {
                            Ok(t) => txns.lock().unwrap().push(t),
                            Err(_) => {
                                panics.fetch_add(1, Ordering::SeqCst);
                            }
                        }
                    }
                });
            }
            for r in 0..nr {
                let (reads, done, tick, rctr, cx, panics, ncommitted) = (&reads, &done, &tick, &rctr, &cx, &panics, &ncommitted);
                let mut rng = StdRng::seed_from_u64(seed * 7777 + run * 10 + r as u64);
                sc.spawn(move || {
                    while !done.load(Ordering::SeqCst) {
                        let res = std::panic::catch_unwind(std::panic::AssertUnwindSafe(|| {
                            let s = tick();
                            let rt = dbr.begin_read().expect("begin_read");
                            let e = tick();
                            let h = format!("r{}", rctr.fetch_add(1, Ordering::SeqCst));
                            let mut dumps = vec![];
                            let seen = rt.open_table(A).ok().and_then(|t| t.get(0).ok().flatten().map(|g| g.value())).or(Some(0));
                            dumps.push(json!({"tables": dump_tables(&rt, cx).expect("dump"), "psp": []}));
                            for _ in 0..rng.random_range(0..2000) {
                                std::hint::spin_loop();
                            }
                            if rng.random_range(0..3) == 0 {
                                // keep the snapshot while several more transactions end (their freed pages get reused)
                                let target = ncommitted.load(Ordering::SeqCst) + rng.random_range(2..10);
                                let t0 = std::time::Instant::now();
                                while ncommitted.load(Ordering::SeqCst) < target && !done.load(Ordering::SeqCst) && t0.elapsed() < std::time::Duration::from_millis(200) {
                                    std::thread::yield_now();
                                }
                            }
                            dumps.push(json!({"tables": dump_tables(&rt, cx).expect("dump"), "psp": []}));
                            drop(rt);
                            Read { s, e, h, dumps, seen, thread: r }
                        }));
                        match res {
                            Ok(rd) => reads.lock().unwrap().push(rd),
                            Err(_) => {
                                panics.fetch_add(1, Ordering::SeqCst);
                            }
                        }
                    }
                });
            }
            // the main thread ends the readers when the writers are through
            while remaining.load(Ordering::SeqCst) > 0 || txns.lock().unwrap().len() as u64 + panics.load(Ordering::SeqCst) < ntx {
                std::thread::sleep(std::time::Duration::from_millis(2));
            }
            done.store(true, Ordering::SeqCst);
        });
        drop(db);
        // ---- one sequence ----
        let mut txns = txns.into_inner().unwrap();
        let mut reads = reads.into_inner().unwrap();
        txns.sort_by_key(|t| t.b);
        reads.sort_by_key(|r| r.s);
        // committed transactions in serial order; position k = after the k-th commit
        let commits: Vec<&Txn> = txns.iter().filter(|t| t.committed).collect();
        let index_of_tid = |tid: u64| -> Option<usize> { if tid == 0 { Some(0) } else { commits.iter().position(|t| t.tid == tid).map(|p| p + 1) } };
        let mut lower: Vec<usize> = vec![];
        let mut upper: Vec<usize> = vec![];
        for (i, r) in reads.iter().enumerate() {
            let mut lo = commits.iter().filter(|t| t.d < r.s).count();
            // no going backwards: whatever a reader that had returned before this call began was seen to see
            for r0 in reads[..i].iter().filter(|r0| r0.e < r.s) {
                if let Some(ix) = r0.seen.and_then(index_of_tid) {
                    lo = lo.max(ix);
                }
            }
            let hi = commits.iter().filter(|t| t.c < r.e).count();
            if lo < hi {
                overlapping += 1;
            }
            lower.push(lo);
            upper.push(hi.max(lo));
        }
        let mut out: Vec<J> = vec![json!({"e": "reset", "cfg": cfg.to_json(), "threads": [nw, nr]})];
        let mut emit_readers = |k: usize, out: &mut Vec<J>| {
            for (i, r) in reads.iter().enumerate() {
                if lower[i] == k {
                    out.push(json!({"e": "brs", "h": r.h, "window": [r.s, r.e], "thread": r.thread}));
                }
            }
            for (i, r) in reads.iter().enumerate() {
                if upper[i] == k {
                    out.push(json!({"e": "bre", "h": r.h, "r": ok(json!(0)), "saw": r.seen}));
                    for d in &r.dumps {
                        out.push(json!({"e": "dump", "src": r.h, "obs": d}));
                    }
                    out.push(json!({"e": "dr", "h": r.h}));
                }
            }
        };
        emit_readers(0, &mut out);
        let mut k = 0usize;
        // writer events: everything of a transaction up to its commit at completion order = serial order, since the
        // transactions are sorted by the stamp at which begin_write returned; a begin_write that returned before the
        // previous transaction called commit() is emitted where it happened
        let mut pending: Vec<(u64, J)> = vec![];
        for t in &txns {
            let n = t.events.len();
            for (j, ev) in t.events.iter().enumerate() {
                // bw at b; the data operations between b and c; the commit/abort at c
                let stamp = if j == 0 { t.b * 4 } else if ev["e"] == "cbegin" || ev["e"] == "cend" || ev["e"] == "abort" { t.c * 4 + 1 } else { t.b * 4 + 1 };
                let _ = n;
                pending.push((stamp, ev.clone()));
            }
        }
        pending.sort_by_key(|p| p.0); // stable: a transaction's own order is kept
        for (_, ev) in pending {
            let is_cend = ev["e"] == "cend";
            out.push(ev);
            if is_cend {
                k += 1;
                emit_readers(k, &mut out);
            }
        }
        tot_commits += commits.len() as u64;
        tot_aborts += (txns.len() - commits.len()) as u64;
        tot_reads += reads.len() as u64;
        if samples.len() < 2 {
            samples.push(json!({"run": run, "commits": commits.len(), "readers": reads.len(), "panics": panics.load(Ordering::SeqCst)}));
        }
        if panics.load(Ordering::SeqCst) > 0 {
            out.push(json!({"e": "get", "src": "w", "n": "a", "k": 0, "r": {"panic": "a thread panicked inside redb"}}));
        }
        for (i, mut ev) in out.into_iter().enumerate() {
            ev["run"] = json!(run);
            ev["i"] = json!(i);
            tw.write(&ev);
            events += 1;
        }
    }
    tw.finish();
    println!("{}", json!({"runs": runs, "events": events, "commits": tot_commits, "aborts": tot_aborts, "readers": tot_reads,
                          "readers_overlapping_a_commit": overlapping, "samples": samples}));
}
