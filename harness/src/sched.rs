//! Pause-point controller: lets a test run one thread up to a named point inside redb
//! (`redb::verif::point`), hold it there, and release it later.

use std::cell::RefCell;
use std::collections::HashMap;
use std::sync::{Arc, Condvar, Mutex};
use std::time::Duration;

thread_local! {
    static ACTOR: RefCell<Option<String>> = const { RefCell::new(None) };
}

#[derive(Default)]
struct Gate {
    armed: bool,
    reached: bool,
    released: bool,
}

#[derive(Default)]
struct Inner {
    gates: HashMap<String, Gate>,
    log: Vec<(String, String, Vec<(String, u64)>)>,
}

pub struct Controller {
    inner: Mutex<Inner>,
    cv: Condvar,
}

pub fn set_actor(name: &str) {
    ACTOR.with(|a| *a.borrow_mut() = Some(name.to_string()));
}

impl Controller {
    /// Installs the controller as redb's verification hook
    pub fn install() -> Arc<Controller> {
        let c = Arc::new(Controller { inner: Mutex::new(Inner::default()), cv: Condvar::new() });
        let c2 = c.clone();
        redb::verif::set_hook(Some(Arc::new(move |name: &str, fields: &[(&str, u64)]| {
            c2.on_point(name, fields);
        })));
        c
    }

    pub fn uninstall() {
        redb::verif::set_hook(None);
    }

    fn on_point(&self, name: &str, fields: &[(&str, u64)]) {
        let actor = ACTOR.with(|a| a.borrow().clone()).unwrap_or_else(|| "?".to_string());
        let key = format!("{actor}:{name}");
        let mut g = self.inner.lock().unwrap();
        g.log.push((actor, name.to_string(), fields.iter().map(|(k, v)| (k.to_string(), *v)).collect()));
        let Some(gate) = g.gates.get_mut(&key) else { return };
        if !gate.armed {
            return;
        }
        gate.armed = false;
        gate.reached = true;
        self.cv.notify_all();
        // block until released
        loop {
            if g.gates.get(&key).is_some_and(|x| x.released) {
                g.gates.remove(&key);
                return;
            }
            let (ng, timeout) = self.cv.wait_timeout(g, Duration::from_secs(30)).unwrap();
            g = ng;
            if timeout.timed_out() {
                panic!("pause point {key} was never released");
            }
        }
    }

    /// The next time `actor` reaches `point` it blocks there
    pub fn arm(&self, actor: &str, point: &str) {
        self.inner.lock().unwrap().gates.insert(format!("{actor}:{point}"), Gate { armed: true, reached: false, released: false });
    }

    /// Wait until `actor` is blocked at `point`; false on timeout
    pub fn wait_reached(&self, actor: &str, point: &str, timeout: Duration) -> bool {
        let key = format!("{actor}:{point}");
        let mut g = self.inner.lock().unwrap();
        let deadline = std::time::Instant::now() + timeout;
        loop {
            if g.gates.get(&key).is_some_and(|x| x.reached) {
                return true;
            }
            let now = std::time::Instant::now();
            if now >= deadline {
                return false;
            }
            let (ng, _) = self.cv.wait_timeout(g, deadline - now).unwrap();
            g = ng;
        }
    }

    pub fn release(&self, actor: &str, point: &str) {
        let key = format!("{actor}:{point}");
        let mut g = self.inner.lock().unwrap();
        if let Some(gate) = g.gates.get_mut(&key) {
            gate.released = true;
        }
        self.cv.notify_all();
    }

    pub fn take_log(&self) -> Vec<(String, String, Vec<(String, u64)>)> {
        std::mem::take(&mut self.inner.lock().unwrap().log)
    }
}
