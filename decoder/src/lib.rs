//! Independent decoder for the redb v3 on-disk file format.
//!
//! This crate deliberately shares no code with redb. It is written from the format description in
//! redb's `docs/design.md` (plus a handful of layout facts that the document does not spell out,
//! listed in README.md) and is meant to be used by a verification harness to check that a
//! committed database image is well formed.
//!
//! The decoder never panics on malformed input: every structural problem (out of range page,
//! offsets that run backwards or past the end of a page, unknown type bytes, cycles, ...) is
//! reported as `Err(String)`. Checksum mismatches are *not* errors; the stored and the recomputed
//! checksum are both reported so that the caller can compare them.

use serde_json::{Map, Value, json};

/// Decoder options.
#[derive(Clone, Debug)]
pub struct Options {
    /// Expected page size of the file. redb's default is 4096. If this is 0 the page size recorded
    /// in the file header is used; otherwise a mismatch with the header is an error.
    pub page_size: usize,
}

impl Default for Options {
    fn default() -> Self {
        Options { page_size: 4096 }
    }
}

const MAGIC: [u8; 9] = [b'r', b'e', b'd', b'b', 0x1A, 0x0A, 0xA9, 0x0D, 0x0A];
const HEADER_LEN: usize = 64;
const SLOT_LEN: usize = 128;
const SUPER_HEADER_LEN: usize = HEADER_LEN + 2 * SLOT_LEN;
const SLOT_CHECKSUMMED_LEN: usize = SLOT_LEN - 16;
/// page number (8) + checksum (16) + length (8)
const TREE_ROOT_LEN: usize = 32;

const PAGE_TYPE_LEAF: u8 = 1;
const PAGE_TYPE_BRANCH: u8 = 2;

const TABLE_TYPE_NORMAL: u8 = 3;
const TABLE_TYPE_MULTIMAP: u8 = 4;

const COLLECTION_INLINE: u8 = 1;
const COLLECTION_SUBTREE: u8 = 3;

const MAX_ORDER: u8 = 20;
const MAX_DEPTH: usize = 64;
const FIELD_MASK_20: u64 = 0x000F_FFFF;

// ---------------------------------------------------------------------------------------------
// small helpers
// ---------------------------------------------------------------------------------------------

pub fn xxh3_128(data: &[u8]) -> u128 {
    xxhash_rust::xxh3::xxh3_128(data)
}

fn hex(c: u128) -> String {
    format!("{c:032x}")
}

fn slice<'a>(data: &'a [u8], start: usize, len: usize, what: &str) -> Result<&'a [u8], String> {
    let end = start
        .checked_add(len)
        .ok_or_else(|| format!("{what}: offset overflow"))?;
    data.get(start..end).ok_or_else(|| {
        format!(
            "{what}: range {start}..{end} is outside of the available {} bytes",
            data.len()
        )
    })
}

fn rd_u16(data: &[u8], off: usize, what: &str) -> Result<u16, String> {
    Ok(u16::from_le_bytes(
        slice(data, off, 2, what)?.try_into().unwrap(),
    ))
}

fn rd_u32(data: &[u8], off: usize, what: &str) -> Result<u32, String> {
    Ok(u32::from_le_bytes(
        slice(data, off, 4, what)?.try_into().unwrap(),
    ))
}

fn rd_u64(data: &[u8], off: usize, what: &str) -> Result<u64, String> {
    Ok(u64::from_le_bytes(
        slice(data, off, 8, what)?.try_into().unwrap(),
    ))
}

fn rd_u128(data: &[u8], off: usize, what: &str) -> Result<u128, String> {
    Ok(u128::from_le_bytes(
        slice(data, off, 16, what)?.try_into().unwrap(),
    ))
}

fn bytes_json(b: &[u8]) -> Value {
    Value::Array(b.iter().map(|x| Value::from(*x)).collect())
}

// ---------------------------------------------------------------------------------------------
// page numbers
// ---------------------------------------------------------------------------------------------

#[derive(Clone, Copy, Debug, PartialEq, Eq, Hash, PartialOrd, Ord)]
struct PageNum {
    region: u32,
    index: u32,
    order: u8,
}

impl PageNum {
    /// 64 bit little endian word: bits 0..20 page index (in units of `page_size << order`),
    /// bits 20..40 region, bits 59..64 order. For a page of order `o` only the low `20 - o` bits
    /// of the index field are significant.
    fn parse(raw: u64) -> PageNum {
        let order = (raw >> 59) as u8;
        let index_mask = if order >= 20 {
            0
        } else {
            FIELD_MASK_20 >> order
        };
        PageNum {
            region: ((raw >> 20) & FIELD_MASK_20) as u32,
            index: (raw & index_mask) as u32,
            order,
        }
    }

    fn json(&self) -> Value {
        json!([self.region, self.index, self.order])
    }
}

impl std::fmt::Display for PageNum {
    fn fmt(&self, f: &mut std::fmt::Formatter<'_>) -> std::fmt::Result {
        write!(f, "[{},{},{}]", self.region, self.index, self.order)
    }
}

#[derive(Clone, Copy, Debug)]
struct TreeRoot {
    page: PageNum,
    checksum: u128,
    len: u64,
}

impl TreeRoot {
    fn parse(data: &[u8], off: usize, what: &str) -> Result<TreeRoot, String> {
        let raw = slice(data, off, TREE_ROOT_LEN, what)?;
        Ok(TreeRoot {
            page: PageNum::parse(rd_u64(raw, 0, what)?),
            checksum: rd_u128(raw, 8, what)?,
            len: rd_u64(raw, 24, what)?,
        })
    }

    fn slot_json(&self) -> Value {
        json!({"page": self.page.json(), "checksum": hex(self.checksum), "len": self.len})
    }

    fn tree_json(&self) -> Value {
        json!({"page": self.page.json(), "checksum": hex(self.checksum)})
    }
}

// ---------------------------------------------------------------------------------------------
// file level structures
// ---------------------------------------------------------------------------------------------

struct Image<'a> {
    bytes: &'a [u8],
    page_size: u64,
    region_header_pages: u64,
    region_max_data_pages: u64,
    /// Number of PAGE records produced so far; bounds the work done on adversarial inputs.
    emitted: std::cell::Cell<u64>,
    budget: u64,
}

impl<'a> Image<'a> {
    /// Returns the bytes of a page. File offset of page `[r, i, o]`:
    ///   page_size                               (super-header, padded to one page)
    /// + r * (region_header_pages + region_max_data_pages) * page_size
    /// + region_header_pages * page_size
    /// + i * (page_size << o)
    fn page(&self, p: PageNum) -> Result<&'a [u8], String> {
        if p.order > MAX_ORDER {
            return Err(format!("page {p}: order {} is not valid", p.order));
        }
        let order0_pages = 1u64 << p.order;
        let first = u64::from(p.index) * order0_pages;
        if first + order0_pages > self.region_max_data_pages {
            return Err(format!(
                "page {p}: extends past the {} data pages of a region",
                self.region_max_data_pages
            ));
        }
        let region_len = (self.region_header_pages + self.region_max_data_pages) * self.page_size;
        let start = self.page_size
            + u64::from(p.region) * region_len
            + self.region_header_pages * self.page_size
            + first * self.page_size;
        let len = order0_pages * self.page_size;
        let end = start + len;
        if end > self.bytes.len() as u64 {
            return Err(format!(
                "page {p}: file range {start}..{end} is beyond the end of the file ({} bytes)",
                self.bytes.len()
            ));
        }
        Ok(&self.bytes[start as usize..end as usize])
    }

    fn charge(&self) -> Result<(), String> {
        let n = self.emitted.get() + 1;
        self.emitted.set(n);
        if n > self.budget {
            return Err(format!(
                "more than {} page references were followed; the image contains heavily shared or cyclic pages",
                self.budget
            ));
        }
        Ok(())
    }
}

struct Slot {
    version: u8,
    checksum_ok: bool,
    stored_checksum: u128,
    computed_checksum: u128,
    txn: u64,
    user_root: Option<TreeRoot>,
    system_root: Option<TreeRoot>,
}

/// Slot layout (128 bytes): 0 version, 1 user root present, 2 system root present, 3 unused,
/// 4..8 padding, 8..40 user root, 40..72 system root, 72..104 unused, 104..112 transaction id,
/// 112..128 XXH3-128 of bytes 0..112.
fn parse_slot(data: &[u8], what: &str) -> Result<Slot, String> {
    let data = slice(data, 0, SLOT_LEN, what)?;
    let stored = rd_u128(data, SLOT_CHECKSUMMED_LEN, what)?;
    let computed = xxh3_128(&data[..SLOT_CHECKSUMMED_LEN]);
    let user_root = if data[1] != 0 {
        Some(TreeRoot::parse(data, 8, what)?)
    } else {
        None
    };
    let system_root = if data[2] != 0 {
        Some(TreeRoot::parse(data, 40, what)?)
    } else {
        None
    };
    Ok(Slot {
        version: data[0],
        checksum_ok: stored == computed,
        stored_checksum: stored,
        computed_checksum: computed,
        txn: rd_u64(data, 104, what)?,
        user_root,
        system_root,
    })
}

impl Slot {
    fn json(&self) -> Value {
        json!({
            "version": self.version,
            "checksum_ok": self.checksum_ok,
            "stored_checksum": hex(self.stored_checksum),
            "computed_checksum": hex(self.computed_checksum),
            "txn": self.txn,
            "user_root": self.user_root.map(|r| r.slot_json()).unwrap_or(Value::Null),
            "system_root": self.system_root.map(|r| r.slot_json()).unwrap_or(Value::Null),
        })
    }
}

// ---------------------------------------------------------------------------------------------
// b-tree pages
// ---------------------------------------------------------------------------------------------

/// A parsed leaf-formatted byte string (a real leaf page, or the inline value list of a multimap).
struct Leaf<'a> {
    keys: Vec<&'a [u8]>,
    values: Vec<&'a [u8]>,
    /// End of the last value == number of bytes covered by the checksum.
    used: usize,
}

/// Leaf layout: 0 type (1), 1 reserved, 2..4 n, then n u32 key end offsets (only if keys are not
/// fixed width), then n u32 value end offsets (only if values are not fixed width), then all keys
/// back to back, then all values back to back. Offsets are absolute within the page. No alignment
/// padding is ever written.
fn parse_leaf<'a>(
    data: &'a [u8],
    fixed_key: Option<usize>,
    fixed_value: Option<usize>,
    what: &str,
) -> Result<Leaf<'a>, String> {
    if data.len() < 4 {
        return Err(format!("{what}: leaf shorter than its 4 byte header"));
    }
    if data[0] != PAGE_TYPE_LEAF {
        return Err(format!("{what}: expected leaf type byte 1, found {}", data[0]));
    }
    let n = usize::from(rd_u16(data, 2, what)?);
    if n == 0 {
        return Err(format!("{what}: leaf with zero entries"));
    }
    let key_table = 4usize;
    let value_table = key_table + if fixed_key.is_none() { 4 * n } else { 0 };
    let key_section = value_table + if fixed_value.is_none() { 4 * n } else { 0 };
    if key_section > data.len() {
        return Err(format!(
            "{what}: offset tables of {n} entries end at {key_section}, beyond the {} byte page",
            data.len()
        ));
    }

    let mut keys = Vec::with_capacity(n);
    let mut pos = key_section;
    for i in 0..n {
        let end = match fixed_key {
            Some(w) => pos
                .checked_add(w)
                .ok_or_else(|| format!("{what}: key {i} offset overflow"))?,
            None => rd_u32(data, key_table + 4 * i, what)? as usize,
        };
        if end < pos || end > data.len() {
            return Err(format!(
                "{what}: key {i} has range {pos}..{end} in a page of {} bytes",
                data.len()
            ));
        }
        keys.push(&data[pos..end]);
        pos = end;
    }
    let mut values = Vec::with_capacity(n);
    for i in 0..n {
        let end = match fixed_value {
            Some(w) => pos
                .checked_add(w)
                .ok_or_else(|| format!("{what}: value {i} offset overflow"))?,
            None => rd_u32(data, value_table + 4 * i, what)? as usize,
        };
        if end < pos || end > data.len() {
            return Err(format!(
                "{what}: value {i} has range {pos}..{end} in a page of {} bytes",
                data.len()
            ));
        }
        values.push(&data[pos..end]);
        pos = end;
    }
    Ok(Leaf {
        keys,
        values,
        used: pos,
    })
}

struct Branch<'a> {
    keys: Vec<&'a [u8]>,
    children: Vec<PageNum>,
    child_checksums: Vec<u128>,
    /// End of the last key == number of bytes covered by the checksum.
    used: usize,
}

/// Branch layout: 0 type (2), 1 padding, 2..4 n (number of keys), 4..8 padding, then n+1 child
/// checksums (16 bytes each), then n+1 child page numbers (8 bytes each), then n u32 key end
/// offsets (only if keys are not fixed width), then the keys back to back.
fn parse_branch<'a>(
    data: &'a [u8],
    fixed_key: Option<usize>,
    what: &str,
) -> Result<Branch<'a>, String> {
    if data.len() < 8 {
        return Err(format!("{what}: branch shorter than its 8 byte header"));
    }
    if data[0] != PAGE_TYPE_BRANCH {
        return Err(format!(
            "{what}: expected branch type byte 2, found {}",
            data[0]
        ));
    }
    let n = usize::from(rd_u16(data, 2, what)?);
    if n == 0 {
        return Err(format!("{what}: branch with zero keys"));
    }
    let checksum_table = 8usize;
    let child_table = checksum_table + 16 * (n + 1);
    let key_table = child_table + 8 * (n + 1);
    let key_section = key_table + if fixed_key.is_none() { 4 * n } else { 0 };
    if key_section > data.len() {
        return Err(format!(
            "{what}: tables of a branch with {n} keys end at {key_section}, beyond the {} byte page",
            data.len()
        ));
    }
    let mut child_checksums = Vec::with_capacity(n + 1);
    let mut children = Vec::with_capacity(n + 1);
    for i in 0..=n {
        child_checksums.push(rd_u128(data, checksum_table + 16 * i, what)?);
        children.push(PageNum::parse(rd_u64(data, child_table + 8 * i, what)?));
    }
    let mut keys = Vec::with_capacity(n);
    let mut pos = key_section;
    for i in 0..n {
        let end = match fixed_key {
            Some(w) => pos
                .checked_add(w)
                .ok_or_else(|| format!("{what}: key {i} offset overflow"))?,
            None => rd_u32(data, key_table + 4 * i, what)? as usize,
        };
        if end < pos || end > data.len() {
            return Err(format!(
                "{what}: routing key {i} has range {pos}..{end} in a page of {} bytes",
                data.len()
            ));
        }
        keys.push(&data[pos..end]);
        pos = end;
    }
    Ok(Branch {
        keys,
        children,
        child_checksums,
        used: pos,
    })
}

enum Node<'a> {
    Leaf(Leaf<'a>),
    Branch(Branch<'a>),
}

struct PageRec<'a> {
    num: PageNum,
    depth: usize,
    stored: Option<u128>,
    computed: u128,
    node: Node<'a>,
}

fn walk<'a>(
    img: &Image<'a>,
    num: PageNum,
    stored: Option<u128>,
    depth: usize,
    fixed_key: Option<usize>,
    fixed_value: Option<usize>,
    path: &mut Vec<PageNum>,
    out: &mut Vec<PageRec<'a>>,
) -> Result<(), String> {
    if depth > MAX_DEPTH {
        return Err(format!("page {num}: tree is deeper than {MAX_DEPTH} levels"));
    }
    if path.contains(&num) {
        return Err(format!("page {num}: is its own ancestor (cycle)"));
    }
    img.charge()?;
    let data = img.page(num)?;
    let what = format!("page {num}");
    match data[0] {
        PAGE_TYPE_LEAF => {
            let leaf = parse_leaf(data, fixed_key, fixed_value, &what)?;
            let computed = xxh3_128(&data[..leaf.used]);
            out.push(PageRec {
                num,
                depth,
                stored,
                computed,
                node: Node::Leaf(leaf),
            });
            Ok(())
        }
        PAGE_TYPE_BRANCH => {
            let branch = parse_branch(data, fixed_key, &what)?;
            let computed = xxh3_128(&data[..branch.used]);
            let children: Vec<(PageNum, u128)> = branch
                .children
                .iter()
                .copied()
                .zip(branch.child_checksums.iter().copied())
                .collect();
            out.push(PageRec {
                num,
                depth,
                stored,
                computed,
                node: Node::Branch(branch),
            });
            path.push(num);
            for (child, checksum) in children {
                walk(
                    img,
                    child,
                    Some(checksum),
                    depth + 1,
                    fixed_key,
                    fixed_value,
                    path,
                    out,
                )?;
            }
            path.pop();
            Ok(())
        }
        other => Err(format!("{what}: unknown page type byte {other}")),
    }
}

fn walk_tree<'a>(
    img: &Image<'a>,
    root: Option<TreeRoot>,
    fixed_key: Option<usize>,
    fixed_value: Option<usize>,
) -> Result<Vec<PageRec<'a>>, String> {
    let mut out = Vec::new();
    if let Some(root) = root {
        let mut path = Vec::new();
        walk(
            img,
            root.page,
            Some(root.checksum),
            0,
            fixed_key,
            fixed_value,
            &mut path,
            &mut out,
        )?;
    }
    Ok(out)
}

fn page_json(rec: &PageRec<'_>) -> Map<String, Value> {
    let mut m = Map::new();
    m.insert("page".into(), rec.num.json());
    m.insert("depth".into(), Value::from(rec.depth));
    match &rec.node {
        Node::Leaf(leaf) => {
            m.insert("type".into(), Value::from("leaf"));
            m.insert(
                "keys".into(),
                Value::Array(leaf.keys.iter().map(|k| bytes_json(k)).collect()),
            );
            m.insert(
                "value_lens".into(),
                Value::Array(leaf.values.iter().map(|v| Value::from(v.len())).collect()),
            );
            m.insert("used_bytes".into(), Value::from(leaf.used));
        }
        Node::Branch(branch) => {
            m.insert("type".into(), Value::from("branch"));
            m.insert(
                "keys".into(),
                Value::Array(branch.keys.iter().map(|k| bytes_json(k)).collect()),
            );
            m.insert(
                "children".into(),
                Value::Array(branch.children.iter().map(|c| c.json()).collect()),
            );
            m.insert(
                "child_checksums".into(),
                Value::Array(
                    branch
                        .child_checksums
                        .iter()
                        .map(|c| Value::from(hex(*c)))
                        .collect(),
                ),
            );
            m.insert("used_bytes".into(), Value::from(branch.used));
        }
    }
    m.insert(
        "stored_checksum".into(),
        rec.stored.map(|c| Value::from(hex(c))).unwrap_or(Value::Null),
    );
    m.insert("computed_checksum".into(), Value::from(hex(rec.computed)));
    m
}

// ---------------------------------------------------------------------------------------------
// table definitions (values of the master trees)
// ---------------------------------------------------------------------------------------------

struct TableDef {
    multimap: bool,
    len: u64,
    root: Option<TreeRoot>,
    fixed_key: Option<usize>,
    fixed_value: Option<usize>,
    key_alignment: u32,
    value_alignment: u32,
    key_type_class: u8,
    key_type: String,
    value_type_class: u8,
    value_type: String,
}

/// Definition layout: 0 table type (3 normal, 4 multimap), 1..9 entry count, 9 root present,
/// 10..42 root (page, checksum, length), 42 fixed key width present, 43..47 width, 47 fixed value
/// width present, 48..52 width, 52..56 key alignment, 56..60 value alignment, 60..64 length of the
/// key type name, then the key type name, then the value type name (to the end). A type name is
/// one classification byte followed by UTF-8 text.
fn parse_table_def(data: &[u8], what: &str) -> Result<TableDef, String> {
    let kind = *data
        .first()
        .ok_or_else(|| format!("{what}: empty table definition"))?;
    let multimap = match kind {
        TABLE_TYPE_NORMAL => false,
        TABLE_TYPE_MULTIMAP => true,
        1 | 2 => {
            return Err(format!(
                "{what}: table type byte {kind} belongs to file format v1 (unsupported)"
            ));
        }
        _ => return Err(format!("{what}: unknown table type byte {kind}")),
    };
    let len = rd_u64(data, 1, what)?;
    let has_root = *slice(data, 9, 1, what)?.first().unwrap() != 0;
    let root = TreeRoot::parse(data, 10, what)?;
    let has_fixed_key = slice(data, 42, 1, what)?[0] != 0;
    let fixed_key = rd_u32(data, 43, what)? as usize;
    let has_fixed_value = slice(data, 47, 1, what)?[0] != 0;
    let fixed_value = rd_u32(data, 48, what)? as usize;
    let key_alignment = rd_u32(data, 52, what)?;
    let value_alignment = rd_u32(data, 56, what)?;
    let key_type_len = rd_u32(data, 60, what)? as usize;
    let key_type_raw = slice(data, 64, key_type_len, what)?;
    let value_type_raw = &data[64 + key_type_len..];
    let type_name = |raw: &[u8], which: &str| -> Result<(u8, String), String> {
        let class = *raw
            .first()
            .ok_or_else(|| format!("{what}: empty {which} type name"))?;
        let name = std::str::from_utf8(&raw[1..])
            .map_err(|_| format!("{what}: {which} type name is not UTF-8"))?;
        Ok((class, name.to_string()))
    };
    let (key_type_class, key_type) = type_name(key_type_raw, "key")?;
    let (value_type_class, value_type) = type_name(value_type_raw, "value")?;
    Ok(TableDef {
        multimap,
        len,
        root: has_root.then_some(root),
        fixed_key: has_fixed_key.then_some(fixed_key),
        fixed_value: has_fixed_value.then_some(fixed_value),
        key_alignment,
        value_alignment,
        key_type_class,
        key_type,
        value_type_class,
        value_type,
    })
}

fn opt_num(v: Option<usize>) -> Value {
    v.map(Value::from).unwrap_or(Value::Null)
}

fn tree_json(
    name: &str,
    owner: &str,
    kind: &str,
    stored_len: Option<u64>,
    root: Option<TreeRoot>,
    pages: Vec<Value>,
) -> Map<String, Value> {
    let mut m = Map::new();
    m.insert("name".into(), Value::from(name));
    m.insert("owner".into(), Value::from(owner));
    m.insert("kind".into(), Value::from(kind));
    m.insert("key_type".into(), Value::Null);
    m.insert("value_type".into(), Value::Null);
    m.insert("fixed_key".into(), Value::Null);
    m.insert("fixed_value".into(), Value::Null);
    m.insert(
        "stored_len".into(),
        stored_len.map(Value::from).unwrap_or(Value::Null),
    );
    m.insert(
        "root".into(),
        root.map(|r| r.tree_json()).unwrap_or(Value::Null),
    );
    m.insert("pages".into(), Value::Array(pages));
    m
}

/// Decodes one master tree and every table it defines, appending the TREEs to `trees`.
fn decode_master(
    img: &Image<'_>,
    owner: &str,
    root: Option<TreeRoot>,
    trees: &mut Vec<Value>,
) -> Result<(), String> {
    // Master trees map table names (variable width) to table definitions (variable width).
    let pages = walk_tree(img, root, None, None)?;
    let master_name = format!("<master:{owner}>");
    trees.push(Value::Object(tree_json(
        &master_name,
        owner,
        "master",
        root.map(|r| r.len),
        root,
        pages.iter().map(|p| Value::Object(page_json(p))).collect(),
    )));

    for rec in &pages {
        let Node::Leaf(leaf) = &rec.node else {
            continue;
        };
        for (name_raw, def_raw) in leaf.keys.iter().zip(leaf.values.iter()) {
            let name = String::from_utf8_lossy(name_raw).into_owned();
            let what = format!("{master_name} entry {name:?} in page {}", rec.num);
            let def = parse_table_def(def_raw, &what)?;
            decode_table(img, owner, &name, &def, trees)?;
        }
    }
    Ok(())
}

struct Subtree {
    parent_key: Vec<u8>,
    root: TreeRoot,
}

fn decode_table(
    img: &Image<'_>,
    owner: &str,
    name: &str,
    def: &TableDef,
    trees: &mut Vec<Value>,
) -> Result<(), String> {
    // The values of a multimap table are variable width "dynamic collections".
    let value_width = if def.multimap { None } else { def.fixed_value };
    let pages = walk_tree(img, def.root, def.fixed_key, value_width)
        .map_err(|e| format!("table {name:?} ({owner}): {e}"))?;

    let mut subtrees: Vec<Subtree> = Vec::new();
    let mut total_values: u64 = 0;
    let mut page_values = Vec::with_capacity(pages.len());
    for rec in &pages {
        let mut pj = page_json(rec);
        if def.multimap
            && let Node::Leaf(leaf) = &rec.node
        {
            let mut counts = Vec::with_capacity(leaf.values.len());
            let mut kinds = Vec::with_capacity(leaf.values.len());
            // the values of the inline collections, in stored order (an empty list for a subtree)
            let mut inline_values: Vec<Value> = Vec::with_capacity(leaf.values.len());
            for (i, value) in leaf.values.iter().enumerate() {
                let what = format!("table {name:?} page {} entry {i}", rec.num);
                // Collection layout: 0 type. Type 1 (inline): the remaining bytes are a
                // leaf-formatted list (own header, offsets relative to its own start) whose keys
                // are the multimap values and whose values are empty. Type 3 (subtree): 1..33 is
                // a tree root (page, checksum, number of values).
                match value.first() {
                    Some(&COLLECTION_INLINE) => {
                        let inline = parse_leaf(&value[1..], def.fixed_value, Some(0), &what)?;
                        counts.push(Value::from(inline.keys.len()));
                        kinds.push(Value::from("inline"));
                        total_values += inline.keys.len() as u64;
                        inline_values.push(Value::Array(
                            inline.keys.iter().map(|k| Value::Array(k.iter().map(|b| Value::from(*b)).collect())).collect(),
                        ));
                    }
                    Some(&COLLECTION_SUBTREE) => {
                        let root = TreeRoot::parse(value, 1, &what)?;
                        counts.push(Value::from(root.len));
                        kinds.push(Value::from("subtree"));
                        inline_values.push(Value::Array(vec![]));
                        total_values = total_values.saturating_add(root.len);
                        subtrees.push(Subtree {
                            parent_key: leaf.keys[i].to_vec(),
                            root,
                        });
                    }
                    Some(other) => {
                        return Err(format!("{what}: unknown collection type byte {other}"));
                    }
                    None => return Err(format!("{what}: empty multimap value")),
                }
            }
            pj.insert("multimap_counts".into(), Value::Array(counts));
            pj.insert("multimap_kinds".into(), Value::Array(kinds));
            pj.insert("multimap_inline".into(), Value::Array(inline_values));
        }
        page_values.push(Value::Object(pj));
    }

    let kind = if def.multimap { "multimap" } else { "table" };
    let mut tj = tree_json(name, owner, kind, Some(def.len), def.root, page_values);
    tj.insert("key_type".into(), Value::from(def.key_type.as_str()));
    tj.insert("value_type".into(), Value::from(def.value_type.as_str()));
    tj.insert("key_type_class".into(), Value::from(def.key_type_class));
    tj.insert("value_type_class".into(), Value::from(def.value_type_class));
    tj.insert("fixed_key".into(), opt_num(def.fixed_key));
    tj.insert("fixed_value".into(), opt_num(def.fixed_value));
    tj.insert("key_alignment".into(), Value::from(def.key_alignment));
    tj.insert("value_alignment".into(), Value::from(def.value_alignment));
    tj.insert(
        "root_len".into(),
        def.root.map(|r| Value::from(r.len)).unwrap_or(Value::Null),
    );
    if def.multimap {
        tj.insert("multimap_total_values".into(), Value::from(total_values));
    }
    trees.push(Value::Object(tj));

    // Subtrees: keys are the multimap values, values are empty (fixed width 0).
    let subtree_name = format!("{name}/subtree");
    for sub in subtrees {
        let pages = walk_tree(img, Some(sub.root), def.fixed_value, Some(0))
            .map_err(|e| format!("table {name:?} ({owner}) subtree: {e}"))?;
        let mut tj = tree_json(
            &subtree_name,
            owner,
            "subtree",
            Some(sub.root.len),
            Some(sub.root),
            pages.iter().map(|p| Value::Object(page_json(p))).collect(),
        );
        tj.insert("key_type".into(), Value::from(def.value_type.as_str()));
        tj.insert("key_type_class".into(), Value::from(def.value_type_class));
        tj.insert("value_type".into(), Value::from("()"));
        tj.insert("fixed_key".into(), opt_num(def.fixed_value));
        tj.insert("fixed_value".into(), Value::from(0));
        tj.insert("parent_table".into(), Value::from(name));
        tj.insert("parent_key".into(), bytes_json(&sub.parent_key));
        trees.push(Value::Object(tj));
    }
    Ok(())
}

// ---------------------------------------------------------------------------------------------
// public API
// ---------------------------------------------------------------------------------------------

/// Decode the committed image reachable from the PRIMARY commit slot of the file bytes.
pub fn decode(bytes: &[u8], opts: &Options) -> Result<Value, String> {
    decode_impl(bytes, opts, None)
}

/// Like [`decode`], but decodes the trees reachable from the given commit slot (0 or 1) instead of
/// the one selected by the god byte.
pub fn decode_slot(bytes: &[u8], opts: &Options, slot: usize) -> Result<Value, String> {
    if slot > 1 {
        return Err(format!("slot {slot} does not exist"));
    }
    decode_impl(bytes, opts, Some(slot))
}

/// Only the 320-byte header: god byte, layout fields, both commit slots (with their own checksums
/// recomputed); no tree is walked.
pub fn decode_header(bytes: &[u8], opts: &Options) -> Result<Value, String> {
    decode_impl2(bytes, opts, None, true)
}

fn decode_impl(bytes: &[u8], opts: &Options, slot: Option<usize>) -> Result<Value, String> {
    decode_impl2(bytes, opts, slot, false)
}

fn decode_impl2(bytes: &[u8], opts: &Options, slot: Option<usize>, header_only: bool) -> Result<Value, String> {
    if bytes.len() < SUPER_HEADER_LEN {
        return Err(format!(
            "file has {} bytes, less than the {SUPER_HEADER_LEN} byte super-header",
            bytes.len()
        ));
    }
    if bytes[..MAGIC.len()] != MAGIC {
        return Err("bad magic number".to_string());
    }
    // Header: 0..9 magic, 9 god byte, 10..12 padding, 12 page size, 16 region header pages,
    // 20 region max data pages, 24 full regions, 28 data pages in the trailing region.
    let god = bytes[9];
    let primary = usize::from(god & 1);
    let recovery_required = god & 2 != 0;
    let two_phase = god & 4 != 0;
    let page_size = rd_u32(bytes, 12, "header")? as usize;
    let region_header_pages = rd_u32(bytes, 16, "header")?;
    let region_max_data_pages = rd_u32(bytes, 20, "header")?;
    let full_regions = rd_u32(bytes, 24, "header")?;
    let trailing_pages = rd_u32(bytes, 28, "header")?;

    if opts.page_size != 0 && opts.page_size != page_size {
        return Err(format!(
            "header page size {page_size} does not match the expected page size {}",
            opts.page_size
        ));
    }
    if page_size < SUPER_HEADER_LEN || !page_size.is_power_of_two() || page_size > (1 << 30) {
        return Err(format!("header page size {page_size} is not valid"));
    }
    if region_max_data_pages == 0 || u64::from(region_max_data_pages) > FIELD_MASK_20 + 1 {
        return Err(format!(
            "header region max data pages {region_max_data_pages} is not valid"
        ));
    }
    if u64::from(region_header_pages) > FIELD_MASK_20 + 1 {
        return Err(format!(
            "header region header pages {region_header_pages} is not valid"
        ));
    }

    let slots = [
        parse_slot(&bytes[HEADER_LEN..], "slot 0")?,
        parse_slot(&bytes[HEADER_LEN + SLOT_LEN..], "slot 1")?,
    ];

    let ps = page_size as u64;
    let region_len = (u64::from(region_header_pages) + u64::from(region_max_data_pages)) * ps;
    // (the region counts are not checksummed: a torn header can hold anything)
    let layout_len = u64::try_from(
        u128::from(ps)
            + u128::from(full_regions) * u128::from(region_len)
            + if trailing_pages > 0 {
                (u128::from(region_header_pages) + u128::from(trailing_pages)) * u128::from(ps)
            } else {
                0
            },
    )
    .unwrap_or(u64::MAX);

    let img = Image {
        bytes,
        page_size: ps,
        region_header_pages: u64::from(region_header_pages),
        region_max_data_pages: u64::from(region_max_data_pages),
        emitted: std::cell::Cell::new(0),
        // A well formed image references every page at most once, so it can never contain more
        // references than the file has pages.
        budget: bytes.len() as u64 / ps + 16,
    };

    let chosen = slot.unwrap_or(primary);
    let s = &slots[chosen];
    if header_only {
        return Ok(json!({
            "page_size": page_size,
            "file_len": bytes.len(),
            "god": {"primary": primary, "recovery_required": recovery_required, "two_phase": two_phase},
            "layout": {
                "region_header_pages": region_header_pages,
                "region_max_data_pages": region_max_data_pages,
                "full_regions": full_regions,
                "trailing_pages": trailing_pages,
                "layout_len": layout_len,
            },
            "slots": [slots[0].json(), slots[1].json()],
        }));
    }
    if s.version != 3 {
        return Err(format!(
            "slot {chosen}: file format version {} is not supported (only v3)",
            s.version
        ));
    }
    let mut trees = Vec::new();
    decode_master(&img, "data", s.user_root, &mut trees)?;
    decode_master(&img, "system", s.system_root, &mut trees)?;

    Ok(json!({
        "page_size": page_size,
        "file_len": bytes.len(),
        "god": {"primary": primary, "recovery_required": recovery_required, "two_phase": two_phase},
        "layout": {
            "region_header_pages": region_header_pages,
            "region_max_data_pages": region_max_data_pages,
            "full_regions": full_regions,
            "trailing_pages": trailing_pages,
            "layout_len": layout_len,
        },
        "slots": [slots[0].json(), slots[1].json()],
        "decoded_slot": chosen,
        "trees": trees,
    }))
}

/// The transaction id recorded in the saved allocator state (system table "allocator_state", key
/// TransactionId = [5, 0, 0, 0, 0]) of the given commit slot; None if the slot carries no saved state.
/// redb trusts the saved state only if this id equals the slot's own transaction id.
pub fn allocator_state_txn(bytes: &[u8], opts: &Options, slot: usize) -> Result<Option<u64>, String> {
    let h = decode_header(bytes, opts)?;
    let ps = h["page_size"].as_u64().unwrap();
    let l = &h["layout"];
    let img = Image {
        bytes,
        page_size: ps,
        region_header_pages: l["region_header_pages"].as_u64().unwrap(),
        region_max_data_pages: l["region_max_data_pages"].as_u64().unwrap(),
        emitted: std::cell::Cell::new(0),
        budget: bytes.len() as u64 / ps + 16,
    };
    let s = parse_slot(&bytes[HEADER_LEN + slot * SLOT_LEN..], "slot")?;
    let master = walk_tree(&img, s.system_root, None, None)?;
    for rec in &master {
        let Node::Leaf(leaf) = &rec.node else { continue };
        for (name_raw, def_raw) in leaf.keys.iter().zip(leaf.values.iter()) {
            if name_raw.as_ref() as &[u8] != b"allocator_state" {
                continue;
            }
            let def = parse_table_def(def_raw, "allocator_state")?;
            for rec in &walk_tree(&img, def.root, def.fixed_key, def.fixed_value)? {
                let Node::Leaf(leaf) = &rec.node else { continue };
                for (k, v) in leaf.keys.iter().zip(leaf.values.iter()) {
                    if k.first() == Some(&5) && v.len() == 8 {
                        return Ok(Some(u64::from_le_bytes(v[..8].try_into().unwrap())));
                    }
                }
            }
            return Ok(None);
        }
    }
    Ok(None)
}

/// Every page referenced by any tree of a decoded image, in tree order, duplicates preserved (so
/// that a caller can detect double references). Each entry is `[region, index, order]`.
pub fn allocated_pages(decoded: &Value) -> Vec<[u64; 3]> {
    let mut out = Vec::new();
    let Some(trees) = decoded.get("trees").and_then(Value::as_array) else {
        return out;
    };
    for tree in trees {
        let Some(pages) = tree.get("pages").and_then(Value::as_array) else {
            continue;
        };
        for page in pages {
            if let Some(p) = page.get("page").and_then(Value::as_array)
                && p.len() == 3
                && let (Some(r), Some(i), Some(o)) = (p[0].as_u64(), p[1].as_u64(), p[2].as_u64())
            {
                out.push([r, i, o]);
            }
        }
    }
    out
}

/// Pairs of entries of [`allocated_pages`] whose extents intersect. A page `[r, i, o]` covers the
/// order-0 pages `i << o .. (i + 1) << o` of region `r`, so this finds plain duplicates as well as
/// pages of different orders that overlap. Empty for a well formed image.
pub fn overlapping_pages(decoded: &Value) -> Vec<([u64; 3], [u64; 3])> {
    let pages = allocated_pages(decoded);
    let mut extents: Vec<(u64, u64, u64, [u64; 3])> = pages
        .iter()
        .map(|p| {
            let shift = p[2].min(63) as u32;
            (p[0], p[1] << shift, (p[1] + 1) << shift, *p)
        })
        .collect();
    extents.sort();
    let mut out = Vec::new();
    // (region, end, page) of the extent reaching furthest so far
    let mut furthest: Option<(u64, u64, [u64; 3])> = None;
    for (region, start, end, page) in extents {
        match furthest {
            Some((r, e, prev)) if r == region => {
                if start < e {
                    out.push((prev, page));
                }
                if end > e {
                    furthest = Some((region, end, page));
                }
            }
            _ => furthest = Some((region, end, page)),
        }
    }
    out
}
