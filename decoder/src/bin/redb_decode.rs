use redb_decoder::{Options, decode};
use std::process::ExitCode;

fn main() -> ExitCode {
    let args: Vec<String> = std::env::args().collect();
    if args.len() < 2 || args.len() > 3 {
        eprintln!("usage: redb_decode <file> [page_size]");
        return ExitCode::from(2);
    }
    let page_size = match args.get(2) {
        Some(s) => match s.parse::<usize>() {
            Ok(n) => n,
            Err(e) => {
                eprintln!("bad page size {s:?}: {e}");
                return ExitCode::from(2);
            }
        },
        None => 4096,
    };
    let bytes = match std::fs::read(&args[1]) {
        Ok(b) => b,
        Err(e) => {
            eprintln!("cannot read {}: {e}", args[1]);
            return ExitCode::from(2);
        }
    };
    match decode(&bytes, &Options { page_size }) {
        Ok(v) => {
            println!("{}", serde_json::to_string(&v).unwrap());
            ExitCode::SUCCESS
        }
        Err(e) => {
            eprintln!("decode error: {e}");
            ExitCode::from(1)
        }
    }
}
