//! Decodes database files written by the real redb and checks the decoder's output against both
//! the format invariants and a model of what was written.

use redb::{
    Database, MultimapTableDefinition, ReadableDatabase, ReadableTableMetadata, TableDefinition,
};
use redb_decoder::{Options, allocated_pages, decode, decode_slot, overlapping_pages};
use serde_json::Value;
use std::collections::{BTreeMap, BTreeSet, HashMap, HashSet};
use std::path::PathBuf;

const U64_TABLE: TableDefinition<u64, &[u8]> = TableDefinition::new("u64_table");
const STR_TABLE: TableDefinition<&str, &str> = TableDefinition::new("str_table");
const BYTES_TABLE: TableDefinition<&[u8], &[u8]> = TableDefinition::new("bytes_table");
const FIXED_TABLE: TableDefinition<u64, u64> = TableDefinition::new("fixed_table");
const EMPTY_TABLE: TableDefinition<&str, u64> = TableDefinition::new("empty_table");
const MM_STR: MultimapTableDefinition<&str, u64> = MultimapTableDefinition::new("mm_str");
const MM_BYTES: MultimapTableDefinition<u64, &[u8]> = MultimapTableDefinition::new("mm_bytes");

/// Small deterministic generator, so the files are reproducible.
struct Rng(u64);

impl Rng {
    fn next(&mut self) -> u64 {
        self.0 ^= self.0 << 13;
        self.0 ^= self.0 >> 7;
        self.0 ^= self.0 << 17;
        self.0
    }

    fn below(&mut self, n: u64) -> u64 {
        self.next() % n
    }

    fn bytes(&mut self, len: usize) -> Vec<u8> {
        (0..len).map(|_| self.next() as u8).collect()
    }
}

fn value_len(rng: &mut Rng) -> usize {
    match rng.below(100) {
        0..=9 => 0,
        10..=79 => rng.below(200) as usize,
        80..=93 => 200 + rng.below(3000) as usize,
        94..=97 => 4000 + rng.below(6000) as usize,
        _ => 12_000 + rng.below(8_481) as usize, // up to 20 KiB
    }
}

#[derive(Default)]
struct Model {
    u64_table: BTreeMap<u64, Vec<u8>>,
    str_table: BTreeMap<String, String>,
    bytes_table: BTreeMap<Vec<u8>, Vec<u8>>,
    fixed_table: BTreeMap<u64, u64>,
    mm_str: BTreeMap<String, BTreeSet<u64>>,
    mm_bytes: BTreeMap<u64, BTreeSet<Vec<u8>>>,
}

fn tmp_path(name: &str) -> PathBuf {
    let dir = PathBuf::from(env!("CARGO_TARGET_TMPDIR"));
    std::fs::create_dir_all(&dir).unwrap();
    let path = dir.join(format!("{name}-{}.redb", std::process::id()));
    let _ = std::fs::remove_file(&path);
    path
}

/// Writes a database with several tables over several transactions and closes it cleanly.
fn build_database(name: &str) -> (PathBuf, Model) {
    let path = tmp_path(name);
    let mut model = Model::default();
    let mut rng = Rng(0x9E37_79B9_7F4A_7C15);
    let db = Database::create(&path).unwrap();

    // Transaction 1: bulk load
    let txn = db.begin_write().unwrap();
    {
        let mut t = txn.open_table(U64_TABLE).unwrap();
        for _ in 0..1500 {
            let k = rng.below(1_000_000);
            let len = value_len(&mut rng);
            let v = rng.bytes(len);
            t.insert(&k, v.as_slice()).unwrap();
            model.u64_table.insert(k, v);
        }
        // make sure the extremes of the value size range are present
        for (k, len) in [(2_000_001u64, 0usize), (2_000_002, 20 * 1024), (2_000_003, 4096)] {
            let v = rng.bytes(len);
            t.insert(&k, v.as_slice()).unwrap();
            model.u64_table.insert(k, v);
        }

        let mut t = txn.open_table(STR_TABLE).unwrap();
        for i in 0..4000u64 {
            let k = format!("key-{:06}-{}", rng.below(500_000), "x".repeat((i % 40) as usize));
            let v = format!("value {i} {}", "y".repeat(rng.below(60) as usize));
            t.insert(k.as_str(), v.as_str()).unwrap();
            model.str_table.insert(k, v);
        }

        let mut t = txn.open_table(BYTES_TABLE).unwrap();
        for _ in 0..800 {
            let klen = 1 + rng.below(64) as usize;
            let k = rng.bytes(klen);
            let len = value_len(&mut rng);
            let v = rng.bytes(len);
            t.insert(k.as_slice(), v.as_slice()).unwrap();
            model.bytes_table.insert(k, v);
        }
        // empty key, and keys that are prefixes of each other
        for k in [&b""[..], b"a", b"aa", b"aaa", b"aab", b"\x00", b"\x00\x00", b"\xff\xff"] {
            t.insert(k, &b"prefix"[..]).unwrap();
            model.bytes_table.insert(k.to_vec(), b"prefix".to_vec());
        }

        let mut t = txn.open_table(FIXED_TABLE).unwrap();
        for _ in 0..5000 {
            let k = rng.next();
            let v = rng.next();
            t.insert(&k, &v).unwrap();
            model.fixed_table.insert(k, v);
        }

        txn.open_table(EMPTY_TABLE).unwrap();

        let mut t = txn.open_multimap_table(MM_STR).unwrap();
        for i in 0..300u64 {
            let k = format!("mm-{i:04}");
            for _ in 0..(1 + rng.below(6)) {
                let v = rng.below(1000);
                t.insert(k.as_str(), &v).unwrap();
                model.mm_str.entry(k.clone()).or_default().insert(v);
            }
        }
        for v in 0..6000u64 {
            let v = v * 7;
            t.insert("big", &v).unwrap();
            model.mm_str.entry("big".to_string()).or_default().insert(v);
        }

        let mut t = txn.open_multimap_table(MM_BYTES).unwrap();
        for k in 0..100u64 {
            for _ in 0..(1 + rng.below(4)) {
                let len = rng.below(30) as usize;
                let v = rng.bytes(len);
                t.insert(&k, v.as_slice()).unwrap();
                model.mm_bytes.entry(k).or_default().insert(v);
            }
        }
        for _ in 0..3000 {
            let len = 1 + rng.below(40) as usize;
            let v = rng.bytes(len);
            t.insert(&1_000_000u64, v.as_slice()).unwrap();
            model.mm_bytes.entry(1_000_000).or_default().insert(v);
        }
    }
    txn.commit().unwrap();

    // Transactions 2..6: overwrites, deletes and more inserts
    for round in 0..5u64 {
        let txn = db.begin_write().unwrap();
        {
            let mut t = txn.open_table(U64_TABLE).unwrap();
            let keys: Vec<u64> = model.u64_table.keys().copied().collect();
            for _ in 0..150 {
                let k = keys[rng.below(keys.len() as u64) as usize];
                if rng.below(2) == 0 {
                    t.remove(&k).unwrap();
                    model.u64_table.remove(&k);
                } else {
                    let len = value_len(&mut rng);
                    let v = rng.bytes(len);
                    t.insert(&k, v.as_slice()).unwrap();
                    model.u64_table.insert(k, v);
                }
            }
            // keep the extremes of the value size range present in the final image
            for (k, len) in [(2_000_001u64, 0usize), (2_000_002, 20 * 1024)] {
                let v = rng.bytes(len);
                t.insert(&k, v.as_slice()).unwrap();
                model.u64_table.insert(k, v);
            }
            for _ in 0..200 {
                let k = 3_000_000 + round * 1000 + rng.below(1000);
                let len = value_len(&mut rng);
                let v = rng.bytes(len);
                t.insert(&k, v.as_slice()).unwrap();
                model.u64_table.insert(k, v);
            }

            let mut t = txn.open_table(STR_TABLE).unwrap();
            let keys: Vec<String> = model.str_table.keys().cloned().collect();
            for _ in 0..300 {
                let k = &keys[rng.below(keys.len() as u64) as usize];
                t.remove(k.as_str()).unwrap();
                model.str_table.remove(k);
            }

            let mut t = txn.open_table(BYTES_TABLE).unwrap();
            for _ in 0..100 {
                let klen = 1 + rng.below(200) as usize;
                let k = rng.bytes(klen);
                let len = value_len(&mut rng);
                let v = rng.bytes(len);
                t.insert(k.as_slice(), v.as_slice()).unwrap();
                model.bytes_table.insert(k, v);
            }

            let mut t = txn.open_multimap_table(MM_STR).unwrap();
            for v in 0..500u64 {
                let v = 1_000_000 + round * 1000 + v;
                t.insert("big", &v).unwrap();
                model.mm_str.get_mut("big").unwrap().insert(v);
            }
            let k = format!("mm-{:04}", round * 3);
            t.remove_all(k.as_str()).unwrap();
            model.mm_str.remove(&k);
        }
        txn.commit().unwrap();
    }

    // sanity check of the model against redb itself
    {
        let txn = db.begin_read().unwrap();
        assert_eq!(
            txn.open_table(U64_TABLE).unwrap().len().unwrap(),
            model.u64_table.len() as u64
        );
        assert_eq!(
            txn.open_table(STR_TABLE).unwrap().len().unwrap(),
            model.str_table.len() as u64
        );
        assert_eq!(
            txn.open_table(BYTES_TABLE).unwrap().len().unwrap(),
            model.bytes_table.len() as u64
        );
    }
    drop(db);
    (path, model)
}

// ---------------------------------------------------------------------------------------------
// accessors for the decoded JSON
// ---------------------------------------------------------------------------------------------

fn trees(decoded: &Value) -> &Vec<Value> {
    decoded["trees"].as_array().unwrap()
}

fn find_trees<'a>(decoded: &'a Value, name: &str) -> Vec<&'a Value> {
    trees(decoded)
        .iter()
        .filter(|t| t["name"].as_str() == Some(name))
        .collect()
}

fn find_tree<'a>(decoded: &'a Value, name: &str) -> &'a Value {
    let found = find_trees(decoded, name);
    assert_eq!(found.len(), 1, "expected exactly one tree named {name}");
    found[0]
}

fn pages(tree: &Value) -> &Vec<Value> {
    tree["pages"].as_array().unwrap()
}

fn key_bytes(key: &Value) -> Vec<u8> {
    key.as_array()
        .unwrap()
        .iter()
        .map(|b| u8::try_from(b.as_u64().unwrap()).unwrap())
        .collect()
}

fn page_keys(page: &Value) -> Vec<Vec<u8>> {
    page["keys"].as_array().unwrap().iter().map(key_bytes).collect()
}

fn page_id(page: &Value) -> [u64; 3] {
    let p = page.as_array().unwrap();
    [
        p[0].as_u64().unwrap(),
        p[1].as_u64().unwrap(),
        p[2].as_u64().unwrap(),
    ]
}

/// All leaf keys of a tree in page order, which must be key order.
fn leaf_keys(tree: &Value) -> Vec<Vec<u8>> {
    pages(tree)
        .iter()
        .filter(|p| p["type"] == "leaf")
        .flat_map(page_keys)
        .collect()
}

fn leaf_value_lens(tree: &Value) -> Vec<u64> {
    pages(tree)
        .iter()
        .filter(|p| p["type"] == "leaf")
        .flat_map(|p| {
            p["value_lens"]
                .as_array()
                .unwrap()
                .iter()
                .map(|v| v.as_u64().unwrap())
                .collect::<Vec<_>>()
        })
        .collect()
}

/// Compares keys the way redb does for the tree's key type.
fn key_less(tree: &Value, a: &[u8], b: &[u8]) -> bool {
    match tree["key_type"].as_str() {
        Some("u64") => {
            u64::from_le_bytes(a.try_into().unwrap()) < u64::from_le_bytes(b.try_into().unwrap())
        }
        // &str, &[u8] and table names compare as raw bytes
        _ => a < b,
    }
}

// ---------------------------------------------------------------------------------------------
// generic well-formedness checks
// ---------------------------------------------------------------------------------------------

/// Checks that every key below `page` lies in (lo, hi], and that routing keys separate children.
fn check_bounds(
    tree: &Value,
    by_id: &HashMap<[u64; 3], &Value>,
    page: &Value,
    lo: Option<&[u8]>,
    hi: Option<&[u8]>,
) {
    let keys = page_keys(page);
    for k in &keys {
        if let Some(lo) = lo {
            assert!(key_less(tree, lo, k), "key not above the lower routing key");
        }
        if let Some(hi) = hi {
            assert!(!key_less(tree, hi, k), "key above the upper routing key");
        }
    }
    if page["type"] == "branch" {
        let children = page["children"].as_array().unwrap();
        assert_eq!(children.len(), keys.len() + 1);
        for (i, child) in children.iter().enumerate() {
            let child_page = by_id[&page_id(child)];
            assert_eq!(
                child_page["depth"].as_u64().unwrap(),
                page["depth"].as_u64().unwrap() + 1
            );
            let child_lo = if i == 0 { lo } else { Some(keys[i - 1].as_slice()) };
            let child_hi = if i == keys.len() {
                hi
            } else {
                Some(keys[i].as_slice())
            };
            check_bounds(tree, by_id, child_page, child_lo, child_hi);
        }
    }
}

fn check_tree(tree: &Value) {
    let name = tree["name"].as_str().unwrap();
    let pages = pages(tree);
    if tree["root"].is_null() {
        assert!(pages.is_empty(), "{name}: pages without a root");
        return;
    }
    assert!(!pages.is_empty(), "{name}: root without pages");
    assert_eq!(pages[0]["page"], tree["root"]["page"], "{name}: root is first");
    assert_eq!(pages[0]["depth"], 0);
    assert_eq!(pages[0]["stored_checksum"], tree["root"]["checksum"]);

    let mut leaf_depths = HashSet::new();
    let mut by_id = HashMap::new();
    for page in pages {
        let id = page_id(&page["page"]);
        // the main acceptance criterion
        assert_eq!(
            page["computed_checksum"], page["stored_checksum"],
            "{name}: checksum of page {id:?}"
        );
        assert_eq!(page["computed_checksum"].as_str().unwrap().len(), 32);
        by_id.insert(id, page);

        let keys = page_keys(page);
        assert!(!keys.is_empty());
        for pair in keys.windows(2) {
            assert!(
                key_less(tree, &pair[0], &pair[1]),
                "{name}: keys of page {id:?} are not strictly increasing"
            );
        }
        if let Some(width) = tree["fixed_key"].as_u64() {
            assert!(keys.iter().all(|k| k.len() as u64 == width));
        }
        match page["type"].as_str().unwrap() {
            "leaf" => {
                leaf_depths.insert(page["depth"].as_u64().unwrap());
                let lens = page["value_lens"].as_array().unwrap();
                assert_eq!(lens.len(), keys.len());
                if tree["kind"] != "multimap"
                    && let Some(width) = tree["fixed_value"].as_u64()
                {
                    assert!(lens.iter().all(|l| l.as_u64() == Some(width)));
                }
            }
            "branch" => {
                assert_eq!(
                    page["children"].as_array().unwrap().len(),
                    page["child_checksums"].as_array().unwrap().len()
                );
            }
            other => panic!("unexpected page type {other}"),
        }
    }
    assert_eq!(by_id.len(), pages.len(), "{name}: page listed twice");
    assert_eq!(leaf_depths.len(), 1, "{name}: leaves at different depths");

    check_bounds(tree, &by_id, &pages[0], None, None);

    // keys are globally ordered across leaves
    let all = leaf_keys(tree);
    for pair in all.windows(2) {
        assert!(key_less(tree, &pair[0], &pair[1]), "{name}: leaf order");
    }

    match tree["kind"].as_str().unwrap() {
        // the definition of a normal table repeats the length of its root record
        "table" => assert_eq!(tree["root_len"], tree["stored_len"], "{name}: root length"),
        // the root record of a multimap counts keys, its definition counts values
        "multimap" => assert_eq!(tree["root_len"], all.len() as u64, "{name}: root length"),
        _ => {}
    }
    match tree["kind"].as_str().unwrap() {
        "table" | "master" | "subtree" => {
            assert_eq!(
                tree["stored_len"].as_u64().unwrap(),
                all.len() as u64,
                "{name}: stored length"
            );
        }
        "multimap" => {
            let counted: u64 = pages
                .iter()
                .filter(|p| p["type"] == "leaf")
                .flat_map(|p| p["multimap_counts"].as_array().unwrap().iter())
                .map(|c| c.as_u64().unwrap())
                .sum();
            assert_eq!(tree["multimap_total_values"].as_u64().unwrap(), counted);
            // for a multimap the definition records the number of values
            assert_eq!(tree["stored_len"].as_u64().unwrap(), counted);
        }
        other => panic!("unexpected tree kind {other}"),
    }
}

fn check_image(decoded: &Value) {
    assert_eq!(decoded["page_size"], 4096);
    for slot in decoded["slots"].as_array().unwrap() {
        assert_eq!(slot["checksum_ok"], true);
        assert_eq!(slot["version"], 3);
    }
    assert_eq!(decoded["god"]["recovery_required"], false);
    assert_eq!(decoded["layout"]["layout_len"], decoded["file_len"]);

    let primary = decoded["god"]["primary"].as_u64().unwrap() as usize;
    let slot = &decoded["slots"][primary];
    for (master, root) in [("<master:data>", "user_root"), ("<master:system>", "system_root")] {
        let tree = find_tree(decoded, master);
        assert_eq!(tree["kind"], "master");
        if slot[root].is_null() {
            assert!(tree["root"].is_null());
        } else {
            assert_eq!(tree["root"]["page"], slot[root]["page"]);
            assert_eq!(tree["root"]["checksum"], slot[root]["checksum"]);
            assert_eq!(tree["stored_len"], slot[root]["len"]);
        }
    }

    for tree in trees(decoded) {
        check_tree(tree);
    }

    let all = allocated_pages(decoded);
    let total: usize = trees(decoded).iter().map(|t| pages(t).len()).sum();
    assert_eq!(all.len(), total);
    let unique: HashSet<[u64; 3]> = all.iter().copied().collect();
    assert_eq!(unique.len(), all.len(), "a page is referenced twice");
    assert!(overlapping_pages(decoded).is_empty());
}

// ---------------------------------------------------------------------------------------------
// tests
// ---------------------------------------------------------------------------------------------

#[test]
fn decodes_real_database() {
    let (path, model) = build_database("real");
    let bytes = std::fs::read(&path).unwrap();
    let decoded = decode(&bytes, &Options { page_size: 4096 }).unwrap();
    check_image(&decoded);

    // the tables written by the test are all there, in the data master tree
    let master = find_tree(&decoded, "<master:data>");
    let names: Vec<String> = leaf_keys(master)
        .into_iter()
        .map(|k| String::from_utf8(k).unwrap())
        .collect();
    assert_eq!(
        names,
        [
            "bytes_table",
            "empty_table",
            "fixed_table",
            "mm_bytes",
            "mm_str",
            "str_table",
            "u64_table"
        ]
    );
    for name in &names {
        assert_eq!(find_tree(&decoded, name)["owner"], "data");
    }

    // u64 keys, variable values up to 20 KiB
    let tree = find_tree(&decoded, "u64_table");
    assert_eq!(tree["kind"], "table");
    assert_eq!(tree["key_type"], "u64");
    assert_eq!(tree["fixed_key"], 8);
    assert!(tree["fixed_value"].is_null());
    let expected: Vec<Vec<u8>> = model
        .u64_table
        .keys()
        .map(|k| k.to_le_bytes().to_vec())
        .collect();
    assert_eq!(leaf_keys(tree), expected);
    let expected_lens: Vec<u64> = model.u64_table.values().map(|v| v.len() as u64).collect();
    assert_eq!(leaf_value_lens(tree), expected_lens);
    assert!(expected_lens.contains(&0) && expected_lens.contains(&(20 * 1024)));
    assert!(
        pages(tree).iter().any(|p| p["type"] == "branch"),
        "multi level tree expected"
    );
    assert!(
        pages(tree).iter().any(|p| p["page"][2].as_u64().unwrap() > 0),
        "multi page (higher order) leaf expected"
    );

    // &str keys
    let tree = find_tree(&decoded, "str_table");
    assert_eq!(tree["key_type"], "&str");
    assert!(tree["fixed_key"].is_null());
    let expected: Vec<Vec<u8>> = model.str_table.keys().map(|k| k.as_bytes().to_vec()).collect();
    assert_eq!(leaf_keys(tree), expected);
    let expected_lens: Vec<u64> = model.str_table.values().map(|v| v.len() as u64).collect();
    assert_eq!(leaf_value_lens(tree), expected_lens);
    assert!(pages(tree).iter().any(|p| p["depth"].as_u64().unwrap() >= 1));

    // &[u8] keys
    let tree = find_tree(&decoded, "bytes_table");
    assert_eq!(tree["key_type"], "&[u8]");
    let expected: Vec<Vec<u8>> = model.bytes_table.keys().cloned().collect();
    assert_eq!(leaf_keys(tree), expected);
    let expected_lens: Vec<u64> = model.bytes_table.values().map(|v| v.len() as u64).collect();
    assert_eq!(leaf_value_lens(tree), expected_lens);

    // fixed width keys and values: no offset tables at all
    let tree = find_tree(&decoded, "fixed_table");
    assert_eq!(tree["fixed_key"], 8);
    assert_eq!(tree["fixed_value"], 8);
    let expected: Vec<Vec<u8>> = model
        .fixed_table
        .keys()
        .map(|k| k.to_le_bytes().to_vec())
        .collect();
    assert_eq!(leaf_keys(tree), expected);

    // empty table
    let tree = find_tree(&decoded, "empty_table");
    assert!(tree["root"].is_null());
    assert_eq!(tree["stored_len"], 0);
    assert!(pages(tree).is_empty());

    // multimap with fixed width values
    let tree = find_tree(&decoded, "mm_str");
    assert_eq!(tree["kind"], "multimap");
    assert_eq!(tree["key_type"], "&str");
    assert_eq!(tree["value_type"], "u64");
    let expected: Vec<Vec<u8>> = model.mm_str.keys().map(|k| k.as_bytes().to_vec()).collect();
    assert_eq!(leaf_keys(tree), expected);
    let counts: Vec<u64> = pages(tree)
        .iter()
        .filter(|p| p["type"] == "leaf")
        .flat_map(|p| p["multimap_counts"].as_array().unwrap().iter())
        .map(|c| c.as_u64().unwrap())
        .collect();
    let expected_counts: Vec<u64> = model.mm_str.values().map(|v| v.len() as u64).collect();
    assert_eq!(counts, expected_counts);
    let subtrees = find_trees(&decoded, "mm_str/subtree");
    assert_eq!(subtrees.len(), 1);
    let sub = subtrees[0];
    assert_eq!(sub["kind"], "subtree");
    assert_eq!(sub["owner"], "data");
    assert_eq!(sub["fixed_key"], 8);
    assert_eq!(key_bytes(&sub["parent_key"]), b"big");
    let expected: Vec<Vec<u8>> = model.mm_str["big"]
        .iter()
        .map(|v| v.to_le_bytes().to_vec())
        .collect();
    assert_eq!(leaf_keys(sub), expected);
    assert!(pages(sub).iter().any(|p| p["type"] == "branch"));

    // multimap with variable width values
    let tree = find_tree(&decoded, "mm_bytes");
    assert_eq!(tree["kind"], "multimap");
    let expected: Vec<Vec<u8>> = model
        .mm_bytes
        .keys()
        .map(|k| k.to_le_bytes().to_vec())
        .collect();
    assert_eq!(leaf_keys(tree), expected);
    let subtrees = find_trees(&decoded, "mm_bytes/subtree");
    assert_eq!(subtrees.len(), 1);
    let sub = subtrees[0];
    assert_eq!(key_bytes(&sub["parent_key"]), 1_000_000u64.to_le_bytes());
    let expected: Vec<Vec<u8>> = model.mm_bytes[&1_000_000].iter().cloned().collect();
    assert_eq!(leaf_keys(sub), expected);

    // every system table is decoded through its definition as well
    let system = find_tree(&decoded, "<master:system>");
    for name in leaf_keys(system) {
        let name = String::from_utf8(name).unwrap();
        assert_eq!(find_tree(&decoded, &name)["owner"], "system");
    }

    // page size 0 means "take it from the header"; a wrong page size is rejected
    assert_eq!(decode(&bytes, &Options { page_size: 0 }).unwrap(), decoded);
    assert!(decode(&bytes, &Options { page_size: 8192 }).is_err());

    // the secondary slot of a cleanly closed file is a complete, older or equal, image too
    let primary = decoded["god"]["primary"].as_u64().unwrap() as usize;
    let other = decode_slot(&bytes, &Options::default(), primary ^ 1).unwrap();
    assert_eq!(other["decoded_slot"].as_u64().unwrap() as usize, primary ^ 1);
    for tree in trees(&other) {
        for page in pages(tree) {
            assert_eq!(page["computed_checksum"], page["stored_checksum"]);
        }
    }
    std::fs::remove_file(&path).unwrap();
}

#[test]
fn decodes_fresh_and_tiny_databases() {
    // a database that was created and closed without any user transaction
    let path = tmp_path("fresh");
    drop(Database::create(&path).unwrap());
    let bytes = std::fs::read(&path).unwrap();
    let decoded = decode(&bytes, &Options::default()).unwrap();
    check_image(&decoded);
    assert!(find_tree(&decoded, "<master:data>")["root"].is_null());
    std::fs::remove_file(&path).unwrap();

    // one entry, then reopened and extended (two open/close cycles)
    let path = tmp_path("tiny");
    {
        let db = Database::create(&path).unwrap();
        let txn = db.begin_write().unwrap();
        txn.open_table(STR_TABLE).unwrap().insert("k", "v").unwrap();
        txn.commit().unwrap();
    }
    {
        let db = Database::create(&path).unwrap();
        let txn = db.begin_write().unwrap();
        txn.open_table(STR_TABLE).unwrap().insert("k2", "v2").unwrap();
        txn.open_multimap_table(MM_STR)
            .unwrap()
            .insert("only", &1u64)
            .unwrap();
        txn.commit().unwrap();
    }
    let bytes = std::fs::read(&path).unwrap();
    let decoded = decode(&bytes, &Options::default()).unwrap();
    check_image(&decoded);
    let tree = find_tree(&decoded, "str_table");
    assert_eq!(leaf_keys(tree), [b"k".to_vec(), b"k2".to_vec()]);
    assert_eq!(leaf_value_lens(tree), [1, 2]);
    let tree = find_tree(&decoded, "mm_str");
    assert_eq!(pages(tree)[0]["multimap_counts"][0], 1);
    assert_eq!(pages(tree)[0]["multimap_kinds"][0], "inline");
    std::fs::remove_file(&path).unwrap();
}

#[test]
fn detects_corruption_without_panicking() {
    let path = tmp_path("corrupt");
    {
        let db = Database::create(&path).unwrap();
        let txn = db.begin_write().unwrap();
        {
            let mut t = txn.open_table(U64_TABLE).unwrap();
            for k in 0..2000u64 {
                t.insert(&k, &[k as u8; 24][..]).unwrap();
            }
        }
        txn.commit().unwrap();
    }
    let bytes = std::fs::read(&path).unwrap();
    let decoded = decode(&bytes, &Options::default()).unwrap();
    check_image(&decoded);

    // flip one byte inside the used part of a leaf of the user table: exactly that page's
    // checksum must stop matching
    let tree = find_tree(&decoded, "u64_table");
    let leaf = pages(tree).iter().find(|p| p["type"] == "leaf").unwrap();
    let id = page_id(&leaf["page"]);
    let layout = &decoded["layout"];
    let region_pages = layout["region_header_pages"].as_u64().unwrap()
        + layout["region_max_data_pages"].as_u64().unwrap();
    let offset = 4096
        + id[0] * region_pages * 4096
        + layout["region_header_pages"].as_u64().unwrap() * 4096
        + id[1] * (4096 << id[2]);
    let mut damaged = bytes.clone();
    // last value byte of the page
    damaged[(offset + leaf["used_bytes"].as_u64().unwrap() - 1) as usize] ^= 0x40;
    let redecoded = decode(&damaged, &Options::default()).unwrap();
    let mut mismatches = vec![];
    for tree in trees(&redecoded) {
        for page in pages(tree) {
            if page["computed_checksum"] != page["stored_checksum"] {
                mismatches.push(page_id(&page["page"]));
            }
        }
    }
    assert_eq!(mismatches, [id]);

    // bytes after the used part are not covered by the checksum
    let used = leaf["used_bytes"].as_u64().unwrap();
    if used < 4096 {
        let mut damaged = bytes.clone();
        damaged[(offset + used) as usize] ^= 0xFF;
        assert_eq!(decode(&damaged, &Options::default()).unwrap(), decoded);
    }

    // a damaged slot is reported, not fatal
    let mut damaged = bytes.clone();
    let primary = decoded["god"]["primary"].as_u64().unwrap() as usize;
    damaged[64 + 128 * primary + 104] ^= 1; // transaction id
    let redecoded = decode(&damaged, &Options::default()).unwrap();
    assert_eq!(redecoded["slots"][primary]["checksum_ok"], false);
    assert_eq!(redecoded["slots"][primary ^ 1]["checksum_ok"], true);

    // structural damage yields an error, never a panic
    assert!(decode(&bytes[..100], &Options::default()).is_err());
    assert!(decode(&bytes[..4096], &Options::default()).is_err());
    let mut damaged = bytes.clone();
    damaged[0] = b'X';
    assert!(decode(&damaged, &Options::default()).is_err());
    let mut damaged = bytes.clone();
    damaged[offset as usize] = 7; // page type
    assert!(decode(&damaged, &Options::default()).is_err());

    // random damage over the header and the allocated pages: any outcome but a panic is fine
    let mut rng = Rng(42);
    let targets: Vec<u64> = std::iter::once(0)
        .chain(allocated_pages(&decoded).iter().map(|p| {
            4096 + p[0] * region_pages * 4096
                + layout["region_header_pages"].as_u64().unwrap() * 4096
                + p[1] * (4096 << p[2])
        }))
        .collect();
    for _ in 0..3000 {
        let mut damaged = bytes.clone();
        for _ in 0..(1 + rng.below(4)) {
            let base = targets[rng.below(targets.len() as u64) as usize];
            let at = (base + rng.below(320)) as usize;
            damaged[at] = rng.next() as u8;
        }
        let _ = decode(&damaged, &Options::default());
        let _ = decode_slot(&damaged, &Options::default(), 1);
    }
    std::fs::remove_file(&path).unwrap();
}

#[test]
fn command_line_tool_prints_json() {
    let path = tmp_path("cli");
    {
        let db = Database::create(&path).unwrap();
        let txn = db.begin_write().unwrap();
        txn.open_table(FIXED_TABLE).unwrap().insert(&1, &2).unwrap();
        txn.commit().unwrap();
    }
    let output = std::process::Command::new(env!("CARGO_BIN_EXE_redb_decode"))
        .arg(&path)
        .arg("4096")
        .output()
        .unwrap();
    assert!(output.status.success());
    let printed: Value = serde_json::from_slice(&output.stdout).unwrap();
    let bytes = std::fs::read(&path).unwrap();
    assert_eq!(printed, decode(&bytes, &Options::default()).unwrap());

    let output = std::process::Command::new(env!("CARGO_BIN_EXE_redb_decode"))
        .arg(&path)
        .arg("512")
        .output()
        .unwrap();
    assert_eq!(output.status.code(), Some(1));
    std::fs::remove_file(&path).unwrap();
}

/// Needs redb's verification hooks (`--cfg redb_verif`, set in .cargo/config.toml) because the
/// page size setter of the public API is test-only.
#[cfg(redb_verif)]
#[test]
fn decodes_other_page_sizes_and_multiple_regions() {
    for page_size in [512usize, 1024, 2048, 8192, 16384] {
        let path = tmp_path(&format!("ps{page_size}"));
        let mut rng = Rng(page_size as u64 * 77 + 1);
        let mut model: BTreeMap<Vec<u8>, usize> = BTreeMap::new();
        let mut mm_model: BTreeSet<u64> = BTreeSet::new();
        {
            let mut builder = Database::builder();
            builder.verif_set_page_size(page_size);
            builder.verif_set_region_size(256 * page_size as u64);
            let db = builder.create(&path).unwrap();
            for round in 0..3 {
                let txn = db.begin_write().unwrap();
                {
                    let mut t = txn.open_table(BYTES_TABLE).unwrap();
                    for _ in 0..500 {
                        let klen = 1 + rng.below(40) as usize;
                        let k = rng.bytes(klen);
                        let len = rng.below(2 * page_size as u64) as usize;
                        let v = rng.bytes(len);
                        t.insert(k.as_slice(), v.as_slice()).unwrap();
                        model.insert(k, len);
                    }
                    let k = vec![0xEE, round];
                    t.insert(k.as_slice(), vec![round; 20 * 1024].as_slice()).unwrap();
                    model.insert(k, 20 * 1024);

                    let mut t = txn.open_multimap_table(MM_STR).unwrap();
                    for _ in 0..2000 {
                        let v = rng.next();
                        t.insert("big", &v).unwrap();
                        mm_model.insert(v);
                    }
                    t.insert("small", &u64::from(round)).unwrap();
                }
                txn.commit().unwrap();
            }
        }
        let bytes = std::fs::read(&path).unwrap();
        // the default options expect 4096
        assert!(decode(&bytes, &Options::default()).is_err());
        let decoded = decode(&bytes, &Options { page_size }).unwrap();
        assert_eq!(decoded["page_size"], page_size);
        assert_eq!(decoded["layout"]["region_max_data_pages"], 256);
        assert!(decoded["layout"]["full_regions"].as_u64().unwrap() >= 1);
        assert_eq!(decoded["layout"]["layout_len"], decoded["file_len"]);
        for slot in decoded["slots"].as_array().unwrap() {
            assert_eq!(slot["checksum_ok"], true);
        }
        for tree in trees(&decoded) {
            check_tree(tree);
        }
        let all = allocated_pages(&decoded);
        let unique: HashSet<[u64; 3]> = all.iter().copied().collect();
        assert_eq!(unique.len(), all.len());
        assert!(overlapping_pages(&decoded).is_empty());
        assert!(all.iter().any(|p| p[0] > 0), "pages outside region 0 expected");

        let tree = find_tree(&decoded, "bytes_table");
        assert_eq!(leaf_keys(tree), model.keys().cloned().collect::<Vec<_>>());
        assert_eq!(
            leaf_value_lens(tree),
            model.values().map(|l| *l as u64).collect::<Vec<_>>()
        );
        let sub = find_tree(&decoded, "mm_str/subtree");
        assert_eq!(
            leaf_keys(sub),
            mm_model
                .iter()
                .map(|v| v.to_le_bytes().to_vec())
                .collect::<Vec<_>>()
        );
        std::fs::remove_file(&path).unwrap();
    }
}
