#!/usr/bin/env python3
"""Greedy minimisation of a kv-script replay: ddmin.py <replay.json> <out.json> '<expected last r as json>'"""
import json, subprocess, sys
p = json.load(open(sys.argv[1]))
want = json.loads(sys.argv[3])
steps = [({"e": "acct"} if s["e"] == "acct" else s) for s in p["steps"]]
def run(steps):
    json.dump({"cfg": p["cfg"], "steps": steps}, open("/verif/work/dd.json", "w"))
    try:
        r = subprocess.run(["/verif/harness/target/release/kv", "--script", "/verif/work/dd.json", "--out", "/verif/work/dd.ndjson"], capture_output=True, timeout=20)
    except subprocess.TimeoutExpired:
        return None
    if r.returncode != 0:
        return None
    evs = [json.loads(l) for l in open("/verif/work/dd.ndjson")]
    if any(isinstance(e.get("r"), dict) and "panic" in e["r"] for e in evs[:-1]):
        return None
    last = evs[-1]
    r = last.get("r", last.get("obs"))
    if isinstance(r, dict):
        r = {k: v for k, v in r.items() if k != "msg"}
    return r
assert run(steps) == want, run(steps)
n = 8
while n >= 1:
    i = 0
    while i < len(steps) - 1:
        cand = steps[:i] + steps[i + n:-1] + steps[-1:] if i + n < len(steps) else steps[:i] + steps[-1:]
        if len(cand) < len(steps) and run(cand) == want:
            steps = cand
        else:
            i += n
    n //= 2
for s in steps:
    print(json.dumps(s))
json.dump({"cfg": p["cfg"], "steps": steps}, open(sys.argv[2], "w"))
