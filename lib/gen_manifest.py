#!/usr/bin/env python3
"""Writes MANIFEST.json from the table below (kept next to the checks so they stay in step)."""
import json, os, subprocess
ROOT = os.path.dirname(os.path.dirname(os.path.abspath(__file__)))

PAGER = "TLA+ mechanism model Pager.tla checked exhaustively by TLC (all interleavings of readers, savepoint handles and every critical section of the writer), "

CLAIMS = {
 "C12": dict(cat="fault_enumeration", tech="TLA+ oracle (Kv.tla CorruptProbe) for an exhaustive byte-level alteration sweep of closed images: each altered image is opened and checked by redb (alterations inside the system tree or the header: persistent savepoints restored on a copy as well), TLC trace validation judges every distinct outcome",
   text="complete single-byte sweep (4 patterns) of compacted images plus header bit flips, byte runs and page swaps; Ok(true)/Ok(false) from check_integrity is accepted only with contents equal to one commit point of the history (and a clean second check after a repair).",
   note="panics on altered images are counted and treated like errors; alterations larger than 64 bytes other than page swaps are outside the quantifier", ref="DESIGN.md 4/C12"),
 "C11": dict(cat="fault_enumeration", tech="TLA+ spec PagerCrash.tla (crash inside any critical section of the page-ownership model + rebuild) checked by TLC; TLA+ oracle (Kv.tla CrashProbe + PagerInv.tla Owner1) for enumeration of open paths: clean close, every crash image (C01 machinery) incl. crashes during recovery; TLC trace validation of the observations and of the allocation state projected right after the open",
   text="every open path is enumerated on real crash images and clean reopens; the recovered database must pass check_integrity with unchanged contents, its allocator state must be exactly the owned pages (sampled images), writes after recovery must not damage contents.",
   note="allocation-state projection on a sample of crash images; known finding C11/integrity-false-after-unpersisted-growth is reported separately", ref="DESIGN.md 4/C11"),
 "C10": dict(cat="exploration", tech="TLA+ predicates Forest.tla (well-formed checksummed forest) evaluated by TLC (ForestTrace.tla) on images that an independent decoder (/verif/decoder, written from docs/design.md, own XXH3) extracts from the storage bytes after every durable commit, compaction and clean close of random histories",
   text="exploration with a specification oracle: the storage bytes are decoded without redb's reader, and TLC decides Forest!WellFormed (strictly increasing keys, routing keys bound both subtrees, equal leaf depth, counts, no page referenced twice / overlapping, every checksum from slot to leaf) on each image; damaged copies of real images must be rejected in every run.",
   note="a static-structure property: the specification is the judge of decoded images, the histories are sampled; user keys u64/bytes/str", ref="DESIGN.md 4/C10"),
 "C18": dict(cat="model_checking", tech="TLA+ spec (Kv.tla gap-cursor actions CurOpen/CurOp/CurClose/RCursor) as oracle: exhaustive enumeration of cursor sessions (content x bound x entry point x operation sequence) executed on the real table and validated by TLC trace validation, plus random long sessions",
   text="every session of up to 2 (thorough: 3) cursor operations from every content over 3-4 keys, every bound and both entry points is run on the real code and judged by TLC against the sorted-map cursor of Kv.tla, including the table read back after close/drop; random histories add long insert runs in both directions (internal batching), big values and all table types.",
   note="needs the experimental_cursor feature build (harness/target-cursor); storage errors inside a session not injected", ref="DESIGN.md 4/C18"),
 "C16": dict(cat="model_checking", tech="TLA+ spec Shared.tla (threads sharing one write transaction: set_dirty / savepoint registration / allocation / freed-page merge as critical sections) checked by TLC incl. two seeded-bad variants; real multi-threaded sections and forced schedules (pause points) recorded and validated by TLC trace validation against Kv.tla + PagerInv.tla",
   text="design: all interleavings of the critical sections for 2-3 workers and a savepoint thread satisfy NoSharedPage/Accounting/TrackingOk/Eligibility. code: random histories with multi-threaded sections (real threads, plus the savepoint/first-open race forced through pause points) are linearized and judged by TLC: every call result, committed contents, savepoint restores and page accounting after every transaction.",
   note="thread interleavings inside the allocator/cache are sampled by real threads, only the savepoint race is forced", ref="DESIGN.md 4/C16"),
 "C19": dict(cat="fault_enumeration", tech="TLA+ oracle (Kv.tla CrashAtomic/CrashProbe incl. peer_same) with TLC trace validation: histories executed by one release (current code or redb 3.0.0 from the local registry), every clean-close file and crash image opened by the other release",
   text="both directions over random histories (all table kinds and key/value types of the corpora, savepoints, compaction): every clean-close file and every crash image must be opened by the other release with exactly one commit point of the history, the same contents the writing release shows, a passing integrity check and a working subsequent write. One known finding (3.0.0 answers Ok(false) on files shorter than it ever creates).",
   note="4 KiB pages only (3.0.0 cannot choose); 3.0.0's own unrecoverable crash images skipped", ref="DESIGN.md 4/C19"),
 "C13": dict(cat="fault_enumeration", tech="TLA+ spec Compact.tla (the relocation loop on page positions, all small forests and placements) checked by TLC; TLA+ oracle (Kv.tla Compact + CrashAtomic) with TLC trace validation of compaction-heavy histories and crash enumeration of every backend operation issued during compaction",
   text="contents unchanged, refusals as documented (a reader at every position relative to pending non-durable commits; a savepoint created and committed by a write transaction on another thread while compact() waits for the write lock), file never larger, bounded syncs (a compact() that does not finish is ended by a watchdog and reported), compact() again at once moves nothing, and all crash points inside compaction recover to the unchanged contents. One known finding: compact() on a just-compacted file can extend it.",
   note="pass bound is a function of the file size (8 * (pages + 8) syncs)", ref="DESIGN.md 4/C13"),
 "C15": dict(cat="exploration", tech="TLA+ spec KeyOrder.tla (separator rules transcribed, contract checked by TLC over small domains) + enumeration of real encodings of all built-in key types judged by TLC (KeyOrderTrace.tla)",
   text="exploration with a specification oracle: the contract (order equals value order, a <= sep < b, no longer than a, valid encoding, round trip) is stated in TLA+, the separator rules are model-checked on small domains, and every ordered pair of a per-type corpus of real encodings is judged by TLC.",
   note="pure functions: the specification is the oracle, not an explorer; wider-than-8-bit types are sampled (extremes + byte-position + random)", ref="DESIGN.md 4/C15"),
 "C20": dict(cat="model_checking", tech="TLA+ specs Backend.tla (usage contract) and Close.tla (close hand-off) checked by TLC; TLC trace validation (BackendTrace.tla) of every backend call recorded from histories, failing opens, fault-injected opens, files cut while a recovery is pending, deferred close, strace of a read-only database, and a forced close race",
   text="every call redb makes on a monitored backend must be an enabled step of Backend.tla: within the length, none after close, exactly one close by the time redb lets go of the backend - across histories, all failing-open variants incl. an I/O error at every call of a repairing open, Database dropped with a live writer; read-only file database via strace. Found and fixed one defect; two known findings (forced race; read beyond the end of a cut file).",
   note="monitor is sequentially consistent; read-only path observed via strace on a real file", ref="DESIGN.md 4/C20"),
 "C08": dict(cat="fault_enumeration", tech="TLA+ spec (Kv.tla + FaultyStep of KvTrace.tla) as oracle for fault enumeration: every sampled backend call of recorded histories fails (permanently / once), the recorded calls and post-fault crash/reopen observations are validated by TLC trace validation",
   text="fault enumeration judged by the TLA+ oracle: no panic, error or specified result, writes refused after a returned error, acknowledged commits present, recovery to one commit point with the failed commit entirely in or out.",
   note="trusted: TLC, harness; failing calls have no partial effect on the storage", ref="DESIGN.md 4/C08"),
 "C14": dict(cat="model_checking", tech="TLA+ spec Buddy.tla checked by TLC; exhaustive (state, operation) tour of the real allocator and random walks validated by TLC trace validation (BuddyTrace.tla)",
   text="every (length, free-set) state of a capacity-8 region x every operation is executed on the real buddy allocator and validated by TLC, including the allocator's own free-block structure (must be canonical: maximal merged blocks) and refusal only when nothing fits; random walks on larger capacities; region tracker invariant on multi-region database histories.",
   note="allocator driven through a cfg(redb_verif) wrapper; shrinking only with a free tail (asserted by the implementation)", ref="DESIGN.md 4/C14"),
 "C02": dict(cat="model_checking", tech=PAGER + "forced-schedule replay through a pause point and TLC trace validation of snapshot re-reads (readers, owned iterators, held multimap values, untyped table handles) and page accounting; behaviours generated by TLC from Kv.tla replayed on the code",
   text="design: invariant Pinned holds in every reachable state of the small model (and is violated by the two seeded-bad variants of the model). code: the begin_read window is forced while commits free and reuse pages; live readers, owned iterators and guards are re-read after later commits/aborts/restores/compaction; projected page sets at every transaction boundary satisfy the same invariants. Found and fixed two genuine defects (known_findings.txt: the begin_read race; untyped table handles that did not pin their snapshot).",
   note="trusted: TLC, harness, verif hooks (read-only projections); interleavings inside a single B-tree read are not controlled", ref="DESIGN.md 4/C02"),
 "C03": dict(cat="model_checking", tech=PAGER + "forced begin_read/commit interleavings and sequential histories validated by TLC against the serial order of Kv.tla",
   text="design: one write slot, readers see committed roots not older than their registration, commits publish atomically (Pager.tla). code: forced interleavings of begin_read with commits (window semantics of Kv.tla), histories of commits of all durabilities/aborts validated as one serial order.",
   note="preemption modelled at lock boundaries of the anchored code; only the begin_read window is replayed with real threads so far", ref="DESIGN.md 4/C03"),
 "C05": dict(cat="model_checking", tech=PAGER + "TLC trace validation of histories with abandoned transactions incl. equality of the allocated page set before/after",
   text="design: AbortRestores (action property) and Kv.tla Abort. code: random histories with 20-25% abandoned transactions (abort, drop, after savepoint/catalog/durability operations); later calls must behave as if they never happened and the allocated page set must be EQUAL before and after; a transaction dropped while a panic unwinds through it may leak only until the reopen and only while the needs_repair latch is set.",
   note="panicking predicates are injected; I/O failures inside rename/delete/restore are exercised by C08's fault enumeration", ref="DESIGN.md 4/C05"),
 "C06": dict(cat="model_checking", tech=PAGER + "TLC evaluation of the ownership invariants (PagerInv.tla) on state projections recorded after every transaction of random histories",
   text="design: Owner1/Pinned/AllocRecordsOk on every state of the model. code: after every transaction end the projected allocator/tree/freed-table/tracker state must satisfy the same invariants, and after a settle sequence nothing may remain pending (storage back to what the contents need).",
   note="reachable sets come from redb's own tree walk via hooks", ref="DESIGN.md 4/C06"),
 "C07": dict(cat="model_checking", tech="Kv.tla savepoint rules + Pager.tla W_Restore + Commit.tla savepoint pins checked by TLC; TLC trace validation of random savepoint histories; behaviours generated by TLC from Kv.tla replayed on the code; crash enumeration with persistent savepoints restored on the crash images",
   text="every savepoint call result and all later contents are judged against Kv.tla (restore exact, later savepoints invalid on commit, nothing on abort, persistent ones survive reopen/crash); page accounting after every transaction.",
   note="persistent savepoints of crash images are restored on copies of sampled images, not of every image", ref="DESIGN.md 4/C07"),
 "C01": dict(cat="fault_enumeration", tech="TLA+ specs checked by TLC: Commit.tla (durability protocol, every crash subset, 5 seeded-bad variants) and Recover.tla (the open, step by step, over every header); crash-point enumeration with the TLA+ oracle Kv.tla CrashAtomic: every crash image of every backend-operation boundary is reopened by redb and the observation is validated by TLC trace validation; TLC trace validation of every backend call (CommitTrace.tla) and of the open-time decision per image (RecoverTrace.tla); spec->impl: every input class of Recover.tla realised as a file",
   text="fault enumeration judged by the TLA+ oracle: all crash points of recorded histories, all subsets of few unsynced writes (class representatives beyond), byte-prefix and sector tears, crashes during recovery; each observation must be exactly one commit point between the last acknowledged durable commit and the last requested one. Every backend call of further histories is a behaviour of Commit.tla; what the open decides (refuse / quick path / which slot, the repair commit it writes, the layout it adopts) equals RecoverOps.tla for sampled crash images and for files built for all 384 input classes of Recover.tla.",
   note="trusted: storage model of docs/design.md, TLC, harness crash-image builder; large unsynced sets are sampled", ref="DESIGN.md 4/C01"),
 "C04": dict(cat="model_checking", tech="TLA+ spec (Kv.tla) + TLC: exhaustive transition tour replayed into redb, and TLC trace validation of random API histories",
   text="TLC enumerates every (state, operation) of a small ordered-map model and every transition is replayed into the real code under a configuration sweep; long random histories of the real code are validated event by event by TLC against the same specification. Exhaustive for the small model, sampled for sizes/configurations.",
   note="trusted: TLC, the Rust harness (executor, key/value corpora), serde_json; values/keys limited to the harness corpora", ref="DESIGN.md 4/C04"),
 "C09": dict(cat="model_checking", tech="TLA+ spec (Kv.tla multimap part) + TLC: exhaustive transition tour replayed into redb, and TLC trace validation of random histories",
   text="as C04 for the multimap model (all 512 states x all steps), with values mapped onto byte strings straddling the inline/subtree threshold; random histories with len() and per-key len checked at every step.",
   note="trusted: TLC, harness; multimap values limited to u64 and the byte-string corpus", ref="DESIGN.md 4/C09"),
 "C17": dict(cat="model_checking", tech="TLA+ spec (Kv.tla catalog rules; TypesTrace.tla type identity) + TLC trace validation of random catalog histories and of a type-pair matrix of the real code; spec->impl: behaviours generated by TLC from Kv.tla (MC_KvPaths.tla, simulation) replayed on the real code with every result and the committed catalog compared",
   text="every open/close/rename/delete/list call of random histories (right and deliberately wrong kinds and types, handles dropped in any order, commit/abort/reopen) must be an enabled instance of the catalog actions of Kv.tla, including the exact error variant. Type identity (TypesTrace.tla): every ordered pair of 21 key / value types incl. user-defined ones named like built-ins and tuples / Option / arrays of them - created with one, opened with the other: success iff the abstract descriptors are equal.",
   note="trusted: TLC, harness; 6 normal and 4 multimap (K,V) instantiations in the random histories, 21 types in the type-identity matrix", ref="DESIGN.md 4/C17"),
}

NOT_YET = {
}

def main():
    props = [json.loads(l) for l in open(os.path.join(ROOT, "properties.jsonl"))]
    hooks = subprocess.run(["git", "-C", "/repo", "log", "--format=%H %s", "fa840e0..HEAD"], capture_output=True, text=True).stdout.splitlines()
    hook_commits = [l.split()[0] for l in hooks if not l.split(" ", 1)[1].startswith("fix:")]
    checks = []
    na = []
    for p in props:
        pid = p["id"]
        if pid in CLAIMS:
            c = CLAIMS[pid]
            checks.append({
                "property_id": pid,
                "quick_cmd": f"./check {pid} --tier quick",
                "thorough_cmd": f"./check {pid} --tier thorough",
                "evidence_file": f"/verif/evidence/{pid}.json",
                "replay_cmd_template": f"./check {pid} --replay {{path}}",
                "engine": "tla-kv",
                "level_claimed": {"category": c["cat"], "text": c["text"], "design_ref": c["ref"]},
                "level_note": c["note"],
                "technique": c["tech"],
            })
        else:
            na.append({"property_id": pid, "reason": NOT_YET.get(pid, "check not built yet in this round (see DESIGN.md section 8 for the order of construction); not claimed")})
    m = {
        "version": 1,
        "setup_cmd": "cd /verif && ./setup.sh",
        "hooks": {
            "guard": "--cfg redb_verif",
            "enable": "harness/.cargo/config.toml sets rustflags = [\"--cfg\", \"redb_verif\", ...]; the harness has a path dependency on /repo",
            "baseline_off_cmd": "cd /repo && cargo nextest run --workspace --no-fail-fast --test-threads 8 --offline || cargo test --workspace --no-fail-fast --offline",
            "source_commits": hook_commits,
            "add_only": True,
        },
        "engines": [
            {"name": "tla-kv", "path": "/verif/spec", "serves_properties": sorted(CLAIMS), "kind_free_text": "TLA+ specifications checked with TLC; Rust harness in /verif/harness replays TLC-generated transitions and records traces that TLC validates"},
        ],
        "checks": checks,
        "not_applicable": na,
        "notes": "Model-based verification with explicit TLA+ specifications (see DESIGN.md). ./check <ID> --tier quick|thorough; VERIF_SEED seeds all random choices.",
    }
    json.dump(m, open(os.path.join(ROOT, "MANIFEST.json"), "w"), indent=1)

if __name__ == "__main__":
    main()
