#!/bin/bash
# usage: tlc_trace.sh <TraceModule> <trace.ndjson> <workdir>
# runs TLC trace validation; prints TLC output; exit code of TLC
set -u
MOD="$1"; TRACE="$(readlink -f "$2")"; WORK="$3"
mkdir -p "$WORK"
cd /verif/spec
TRACE="$TRACE" JAVA_TOOL_OPTIONS="-Xss1g -Dtlc2.tool.queue.IStateQueue=StateDeque" \
  timeout "${TLC_TIMEOUT:-900}" tlc -workers 1 -metadir "$WORK/meta" -cleanup -noGenerateSpecTE \
  -config "$MOD.cfg" "$MOD.tla" 2>&1
