#!/bin/bash
# usage: confirm_seed.sh <ID> [worktree]   - re-confirms a seeded change in its scratch worktree and files it under /verif/seeded/<name>
set -u
ID="$1"; WT="${2:-/tmp/seed_$ID}"; NAME="${3:-$ID}"
OUT=/verif/seeded/$NAME; mkdir -p "$OUT"
FEAT=${SEED_FEATURES:+--features $SEED_FEATURES}
cd "$WT" || exit 2
cp _deliver/patch.diff _deliver/meta.json "$OUT/" 2>/dev/null
cp _deliver/seeded_demo.rs "$OUT/" 2>/dev/null
LOG="$OUT/confirm.log"; : > "$LOG"
git checkout -q -- src; git apply _deliver/patch.diff || { echo "patch does not apply" >> "$LOG"; exit 2; }
cp _deliver/seeded_demo.rs tests/seeded_demo.rs
echo "== demo with change (expect FAIL)" >> "$LOG"
cargo test --offline -p redb@4.2.0 $FEAT --test seeded_demo >> "$LOG.demo1" 2>&1; echo "exit=$?" >> "$LOG"; tail -5 "$LOG.demo1" >> "$LOG"
mv tests/seeded_demo.rs /tmp/seeded_demo_$NAME.rs
echo "== suite with change (expect PASS)" >> "$LOG"
cargo nextest run --offline -p redb@4.2.0 $FEAT --test-threads 8 --no-fail-fast > "$LOG.suite" 2>&1; echo "exit=$?" >> "$LOG"; grep -E "Summary|FAIL" "$LOG.suite" | head -5 >> "$LOG"
git checkout -q -- src
mv /tmp/seeded_demo_$NAME.rs tests/seeded_demo.rs
echo "== demo without change (expect PASS)" >> "$LOG"
cargo test --offline -p redb@4.2.0 $FEAT --test seeded_demo >> "$LOG.demo2" 2>&1; echo "exit=$?" >> "$LOG"; tail -3 "$LOG.demo2" >> "$LOG"
rm -f "$LOG.demo1" "$LOG.demo2" "$LOG.suite"
cat "$LOG"
