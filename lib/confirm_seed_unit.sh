#!/bin/bash
# usage: confirm_seed_unit.sh <ID> <relative source file>  - like confirm_seed.sh for a demonstration that is a unit-test module
# (seeded_demo.rs) to be appended to a source file; patch.diff holds only the behavioural change
set -u
ID="$1"; SRC="$2"; WT="/tmp/seed_$ID"
OUT=/verif/seeded/$ID; mkdir -p "$OUT"
cd "$WT" || exit 2
cp _deliver/patch.diff _deliver/meta.json _deliver/seeded_demo.rs "$OUT/"
LOG="$OUT/confirm.log"; : > "$LOG"
git checkout -q -- src; git apply _deliver/patch.diff || { echo "patch does not apply" >> "$LOG"; exit 2; }
echo "== suite with change (expect PASS)" >> "$LOG"
cargo nextest run --offline -p redb@4.2.0 --test-threads 8 --no-fail-fast > "$LOG.suite" 2>&1; echo "exit=$?" >> "$LOG"; grep -E "Summary|FAIL" "$LOG.suite" | head -5 >> "$LOG"
cat _deliver/seeded_demo.rs >> "$SRC"
echo "== demo with change (expect FAIL)" >> "$LOG"
cargo test --offline -p redb@4.2.0 --lib seeded_demo >> "$LOG.demo1" 2>&1; echo "exit=$?" >> "$LOG"; tail -5 "$LOG.demo1" >> "$LOG"
git checkout -q -- src
cat _deliver/seeded_demo.rs >> "$SRC"
echo "== demo without change (expect PASS)" >> "$LOG"
cargo test --offline -p redb@4.2.0 --lib seeded_demo >> "$LOG.demo2" 2>&1; echo "exit=$?" >> "$LOG"; tail -3 "$LOG.demo2" >> "$LOG"
git checkout -q -- src
rm -f "$LOG.demo1" "$LOG.demo2" "$LOG.suite"
cat "$LOG"
