"""Framework behind ./check: builds the harness from /repo's working tree, runs TLC on the
design-level configurations, runs the drivers, has TLC judge the recorded traces, writes evidence,
and turns rejections into replay files."""
import hashlib
import json
import os
import re
import shutil
import subprocess
import sys
import time

ROOT = os.path.dirname(os.path.dirname(os.path.abspath(__file__)))
SPEC = os.path.join(ROOT, "spec")
HARNESS = os.path.join(ROOT, "harness")
BIN = os.path.join(HARNESS, "target", "release")
EVIDENCE = os.path.join(ROOT, "evidence")
REPLAYS = os.path.join(ROOT, "replays")
KNOWN = os.path.join(ROOT, "known_findings.txt")


class ToolError(Exception):
    pass


class Violation(Exception):
    def __init__(self, prop, replay_path, what, signature):
        super().__init__(what)
        self.prop = prop
        self.replay_path = replay_path
        self.what = what
        self.signature = signature


def log(*a):
    print("[check]", *a, file=sys.stderr, flush=True)


def sh(cmd, cwd=None, timeout=None, env=None, check=True):
    e = dict(os.environ)
    e["CARGO_NET_OFFLINE"] = "true"
    if env:
        e.update(env)
    t0 = time.time()
    try:
        p = subprocess.run(cmd, cwd=cwd, env=e, stdout=subprocess.PIPE, stderr=subprocess.PIPE, timeout=timeout, text=True)
    except subprocess.TimeoutExpired:
        raise ToolError(f"timeout after {timeout}s: {cmd}")
    if check and p.returncode != 0:
        raise ToolError(f"command failed ({p.returncode}): {cmd}\n{p.stdout[-3000:]}\n{p.stderr[-3000:]}")
    p.wall = time.time() - t0
    return p


# ------------------------------------------------------------------------------------------------
# building

_built = set()


def build(features=None):
    """cargo fingerprints the path dependency, so this rebuilds from /repo's working tree"""
    key = features or ""
    if key in _built:
        return
    cmd = ["cargo", "build", "--release", "--offline"]
    target = "target"
    if features:
        cmd += ["--features", features, "--target-dir", f"target-{features}"]
        target = f"target-{features}"
    p = sh(cmd, cwd=HARNESS, timeout=1800)
    log(f"harness built ({key or 'default'}) in {p.wall:.1f}s")
    _built.add(key)
    return os.path.join(HARNESS, target, "release")


def bin_path(name, features=None):
    d = os.path.join(HARNESS, f"target-{features}" if features else "target", "release")
    return os.path.join(d, name)


# ------------------------------------------------------------------------------------------------
# TLC

TLC_JAR = "/opt/veriftools/tla/tla2tools.jar"


def tlc_cmd(module, cfg, workers, metadir, extra=None, simulate=None):
    # (-checkpoint 0: no checkpoints - the depth-first queue used for trace validation cannot write them, and a run that passes
    # the 30-minute mark would die with "StateDeque does not support checkpointing")
    cmd = ["tlc", "-workers", str(workers), "-metadir", metadir, "-cleanup", "-noGenerateSpecTE", "-checkpoint", "0", "-config", cfg]
    if simulate:
        cmd += ["-simulate", f"num={simulate[0]}", "-depth", str(simulate[1])]
    if extra:
        cmd += extra
    cmd.append(module + ".tla")
    return cmd


def parse_tlc_summary(out):
    res = {}
    m = re.search(r"(\d+) states generated, (\d+) distinct states found, (\d+) states left on queue", out)
    if m:
        res["generated"] = int(m.group(1))
        res["distinct"] = int(m.group(2))
        res["queue"] = int(m.group(3))
    m = re.search(r"The depth of the complete state graph search is (\d+)", out)
    if m:
        res["depth"] = int(m.group(1))
    m = re.search(r'<<"NSTEPS", (\d+)>>', out)
    if m:
        res["nsteps"] = int(m.group(1))
    res["ok"] = "Model checking completed. No error has been found." in out
    res["simulated"] = None
    m = re.search(r"The number of states generated: (\d+)", out)
    if m:
        res["generated"] = int(m.group(1))
    if "Simulation using seed" in out and "Error:" not in out:
        res["ok"] = True
    return res


def tlc_check(ctx, module, cfg, workers=8, timeout=1200, simulate=None, coverage=False, keep_output=None):
    """Design-level run; raises ToolError unless TLC completes without finding an error"""
    metadir = os.path.join(ctx.work, "meta-" + cfg.replace(".cfg", ""))
    extra = ["-coverage", "1"] if coverage else None
    cmd = ["timeout", str(timeout)] + tlc_cmd(module, cfg, workers, metadir, extra=extra, simulate=simulate)
    p = sh(cmd, cwd=SPEC, timeout=timeout + 30, check=False)
    out = p.stdout + p.stderr
    if keep_output:
        with open(keep_output, "w") as f:
            f.write(out)
    s = parse_tlc_summary(out)
    s["wall_s"] = round(p.wall, 1)
    s["cmd"] = " ".join(cmd[2:])
    if not s.get("ok"):
        tail = "\n".join(l for l in out.splitlines() if not l.startswith(("Semantic", "Parsing", "Linting", '<<"TR"')))[-3000:]
        raise ToolError(f"TLC did not complete cleanly on {module}/{cfg}:\n{tail}")
    log(f"TLC {module}/{cfg}: {s.get('distinct')} distinct, {s.get('generated')} generated, {s['wall_s']}s")
    ctx.design.append({"module": module, "cfg": cfg, **{k: v for k, v in s.items() if k != "ok"}})
    return s, out


def tlc_expect_violation(ctx, module, cfg, invariant, workers=6, timeout=600):
    """Self-test of a design-level model: a configuration that encodes a known-bad rule must make
    TLC report the named invariant as violated (otherwise the model has lost its teeth)"""
    metadir = os.path.join(ctx.work, "meta-" + cfg.replace(".cfg", ""))
    cmd = ["timeout", str(timeout)] + tlc_cmd(module, cfg, workers, metadir)
    p = sh(cmd, cwd=SPEC, timeout=timeout + 30, check=False)
    out = p.stdout + p.stderr
    if f"Invariant {invariant} is violated" not in out:
        tail = "\n".join(l for l in out.splitlines() if not l.startswith(("Semantic", "Parsing", "Linting")))[-1500:]
        raise ToolError(f"self-test failed: {module}/{cfg} was expected to violate {invariant}:\n{tail}")
    log(f"TLC {module}/{cfg}: violates {invariant} as expected ({p.wall:.1f}s)")
    ctx.notes.setdefault("model_selftests", []).append({"module": module, "cfg": cfg, "violates": invariant})


def tlc_trace(ctx, module, trace, timeout=1800, tag=""):
    """Trace validation. Returns (accepted, info) where info has the rejected record on rejection"""
    metadir = os.path.join(ctx.work, "meta-trace" + tag)
    env = {"TRACE": os.path.abspath(trace), "JAVA_TOOL_OPTIONS": "-Xss1g -Xmx6g -Dtlc2.tool.queue.IStateQueue=StateDeque"}
    cmd = ["timeout", str(timeout)] + tlc_cmd(module, module + ".cfg", 1, metadir)
    p = sh(cmd, cwd=SPEC, timeout=timeout + 30, env=env, check=False)
    out = p.stdout + p.stderr
    s = parse_tlc_summary(out)
    nlines = sum(1 for _ in open(trace))
    if s.get("ok") and s.get("depth", 0) - 1 == nlines:
        log(f"TLC {module}: accepted {nlines} events in {p.wall:.1f}s")
        handle_known_markers(ctx, out, trace)
        return True, {"events": nlines, "wall_s": round(p.wall, 1)}
    m = re.search(r'<<"REJECT", (\d+), "(.*)">>', out)
    if m:
        rec = json.loads(json.loads('"' + m.group(2) + '"'))
        inv = re.findall(r'<<"INVARIANT", "([A-Za-z0-9_]+)", (\d+), (\d+)>>', out)
        failed = sorted({name for name, i, run in inv if int(i) == rec.get("i") and int(run) == rec.get("run")})
        return False, {"line": int(m.group(1)), "record": rec, "events": nlines, "invariants": failed}
    # an evaluation error inside an action (e.g. a field of an unexpected shape) is a rejection too,
    # at the depth reached; anything else is a tool failure
    m = re.search(r"The depth of the complete state graph search is (\d+)", out)
    if "Error:" in out and m is None:
        # find the last state's l
        ls = re.findall(r"/\\ l = (\d+)", out)
        if ls:
            line = int(ls[-1])
            rec = json.loads(open(trace).read().splitlines()[line - 1])
            return False, {"line": line, "record": rec, "events": nlines, "tlc_error": True}
    tail = "\n".join(l for l in out.splitlines() if not l.startswith(("Semantic", "Parsing", "Linting")))[-3000:]
    raise ToolError(f"trace validation failed to run on {trace}:\n{tail}")


def handle_known_markers(ctx, out, trace):
    """The specification names deliberate deviations of the code as their own disjuncts and prints
    <<"KNOWN", signature, run, i>> when one is taken.  Accepted only if known_findings.txt lists the
    signature; otherwise it is a violation like any other."""
    seen = {}
    for m in re.finditer(r'<<"KNOWN", "([^"]+)", (\d+), (\d+)>>', out):
        seen.setdefault(m.group(1), (int(m.group(2)), int(m.group(3))))
    if not seen:
        return
    listed = {k["property"] + "/" + k["signature"]: k for k in load_known() if k["kind"] == "known"}
    for sig, (run, i) in seen.items():
        if sig in listed:
            k = listed[sig]
            line = f"property={k['property']} {k['what']}"
            if line not in ctx.known_hits:
                ctx.known_hits.append(line)
            continue
        # not listed: build the replay up to that event
        events, cfg, line_no = [], None, 0
        with open(trace) as f:
            for n, l in enumerate(f):
                ev = json.loads(l)
                if ev["e"] == "reset":
                    events, cfg = [], ev.get("cfg")
                    continue
                events.append(ev)
                if ev.get("run") == run and ev.get("i") == i and ev["e"] not in ("cbegin",):
                    line_no = n + 1
                    break
        prop = sig.split("/")[0]
        what = f"deviation {sig} is not listed in known_findings.txt (run {run}, step {i})"
        payload = {"property": prop, "kind": "kv-script", "cfg": cfg, "steps": events_to_steps(events), "what": what, "signature": sig}
        raise Violation(prop, save_replay(prop, payload), what, sig)


# ------------------------------------------------------------------------------------------------
# context, evidence, known findings


class Ctx:
    def __init__(self, prop, tier, seed):
        self.prop = prop
        self.tier = tier
        self.seed = seed
        self.t0 = time.time()
        self.work = os.path.join(ROOT, "work", f"{prop}-{os.getpid()}")
        os.makedirs(self.work, exist_ok=True)
        self.design = []
        self.cov = {"evaluations": 0, "distinct_nontrivial": 0, "samples": [], "traces_validated_against_impl": 0}
        self.notes = {}
        self.assumptions = []
        self.violations = 0
        self.known_hits = []

    def cleanup(self):
        shutil.rmtree(self.work, ignore_errors=True)

    def add_samples(self, samples, limit=6):
        for s in samples:
            if len(self.cov["samples"]) < limit:
                self.cov["samples"].append(s)


def load_known():
    """known: property=<id> signature=<sig> <what>   /   fixed: property=<id> <commit> <what>"""
    out = []
    if os.path.exists(KNOWN):
        for l in open(KNOWN):
            l = l.strip()
            if not l or l.startswith("#"):
                continue
            m = re.match(r"known: property=(\S+) signature=(\S+) (.*)", l)
            if m:
                out.append({"kind": "known", "property": m.group(1), "signature": m.group(2), "what": m.group(3)})
                continue
            m = re.match(r"fixed: property=(\S+) (\S+) (.*)", l)
            if m:
                out.append({"kind": "fixed", "property": m.group(1), "commit": m.group(2), "what": m.group(3)})
    return out


def claimed_level(prop):
    """the level category MANIFEST.json claims for a property (evidence written on the violation path uses it too)"""
    try:
        m = json.load(open(os.path.join(ROOT, "MANIFEST.json")))
        for c in m["checks"]:
            if c["property_id"] == prop:
                return c["level_claimed"]["category"]
    except (OSError, ValueError, KeyError):
        pass
    return "other"


def write_evidence(ctx, level, rule, explanation=None, exhaustive=False, checker_cmd=None):
    os.makedirs(EVIDENCE, exist_ok=True)
    cov = dict(ctx.cov)
    states = sum(d.get("distinct", 0) or 0 for d in ctx.design)
    transitions = sum(d.get("generated", 0) or 0 for d in ctx.design)
    if states:
        cov["states"] = states
        cov["transitions"] = transitions
    cov["rule"] = rule
    cov["design_runs"] = ctx.design
    cov["exhaustive"] = exhaustive
    if explanation:
        cov["explanation"] = explanation
    if checker_cmd:
        cov["checker_cmd"] = checker_cmd
    cov.update(ctx.notes)
    if not cov["samples"]:
        cov["samples"] = ["(none recorded)"]
    ev = {
        "property_id": ctx.prop,
        "tier": ctx.tier,
        "seed": ctx.seed,
        "level": level,
        "coverage": cov,
        "assumptions": ctx.assumptions,
        "wall_s": round(time.time() - ctx.t0, 1),
        "violations": ctx.violations,
    }
    path = os.path.join(EVIDENCE, f"{ctx.prop}.json")
    with open(path, "w") as f:
        json.dump(ev, f, indent=1)
    return path


def save_replay(prop, payload):
    d = os.path.join(REPLAYS, prop)
    os.makedirs(d, exist_ok=True)
    blob = json.dumps(payload, sort_keys=True)
    h = hashlib.sha256(blob.encode()).hexdigest()[:16]
    path = os.path.join(d, f"{h}.json")
    with open(path, "w") as f:
        f.write(json.dumps(payload, indent=1))
    return path


# ------------------------------------------------------------------------------------------------
# drivers


def events_to_steps(events):
    """Turn recorded events back into the steps that produced them"""
    steps = []
    cur = None
    for ev in events:
        e = ev["e"]
        if e in ("reset", "cbegin"):
            continue
        if e == "cur_open":
            cur = {"e": "cursor", "n": ev["n"], "b": ev["b"], "upper": ev["upper"], "ops": [], "end": "close"}
            continue
        if e == "cur" and cur is not None:
            op = {"op": ev["op"]}
            if ev["op"].startswith("ins"):
                op.update({"k": ev["k"], "v": ev["v"]})
            cur["ops"].append(op)
            continue
        if e == "cur_close" and cur is not None:
            cur["end"] = ev.get("end", "close")
            steps.append(cur)
            cur = None
            continue
        if e == "note":
            w = ev.get("what")
            if w in ("2pc", "qr"):
                steps.append({"e": w, "on": ev["on"]})
            elif w == "fault":
                steps.append({"e": "fault", "at": ev.get("at"), "mode": ev.get("mode")})
            continue
        if e == "cend":
            steps.append({"e": "commit"})
            continue
        if e == "abort":
            steps.append({"e": "dropw" if ev.get("how") == "drop" else "abort"})
            continue
        if e == "acct":
            steps.append({"e": "acct", "settled": ev.get("settled", False)})
            continue
        if e in ("reopen", "dump"):
            s = {k: v for k, v in ev.items() if k in ("e", "src")}
            steps.append(s)
            continue
        steps.append({k: v for k, v in ev.items() if k not in ("r", "bk", "run", "i", "stale")})
    if cur is not None:
        steps.append(cur)   # the session in which the rejected operation happened
    return steps


def run_kv_walk(ctx, profile, runs, steps, page_sizes="512", caches="1048576", nkeys=64, tag=None, features=None, extra=None):
    """Random API-level histories -> trace; TLC (KvTrace) judges. Returns stats."""
    tag = tag or profile
    trace = os.path.join(ctx.work, f"walk-{tag}.ndjson")
    cmd = [bin_path("kv", features), "--profile", profile, "--seed", str(ctx.seed), "--runs", str(runs), "--steps", str(steps),
           "--page-size", page_sizes, "--cache", caches, "--nkeys", str(nkeys), "--out", trace]
    if extra:
        cmd += extra
    journal = os.path.join(ctx.work, f"walk-{tag}.journal")
    cmd += ["--journal", journal]
    p = sh(cmd, timeout=1800, check=False)
    if p.returncode in (-6, 134, -11, 139):
        raise kv_abort_violation(ctx, journal, p.returncode, features)
    if p.returncode != 0:
        raise ToolError(f"command failed ({p.returncode}): {cmd}\n{p.stdout[-2000:]}\n{p.stderr[-2000:]}")
    stats = json.loads(p.stdout.strip().splitlines()[-1])
    log(f"kv walk {tag}: {stats['events']} events, {stats['runs']} runs, {stats['panics']} panics, {p.wall:.1f}s")
    ok, info = tlc_trace(ctx, "KvTrace", trace)
    ctx.cov["evaluations"] += stats["events"]
    if ok:
        ctx.cov["traces_validated_against_impl"] += stats["runs"]
        # a few literal lines as samples
        with open(trace) as f:
            lines = f.read().splitlines()
        picks = [lines[i] for i in (len(lines) // 3, len(lines) // 2, 2 * len(lines) // 3) if i < len(lines)]
        ctx.add_samples([json.loads(x) for x in picks])
        ctx.notes.setdefault("event_kinds", {})
        for k, v in stats["kinds"].items():
            ctx.notes["event_kinds"][k] = ctx.notes["event_kinds"].get(k, 0) + v
        return stats
    raise kv_violation(ctx, trace, info, features)


def kv_abort_violation(ctx, journal, rc, features=None):
    """The driver process was killed by an abort / segfault inside the code under test: the journal
    holds the script up to and including the step that was executing"""
    cfg, steps = None, []
    for l in open(journal):
        j = json.loads(l)
        if "cfg" in j and "e" not in j:
            cfg, steps = j["cfg"], []
        else:
            steps.append(j)
    payload = {"property": ctx.prop, "kind": "kv-script", "cfg": cfg, "steps": steps, "expect": "abort"}
    if features:
        payload["features"] = features
    # confirm: the same script must kill the process again
    script = os.path.join(ctx.work, "abort-script.json")
    json.dump({"cfg": cfg, "steps": steps}, open(script, "w"))
    p = sh([bin_path("kv", features), "--script", script, "--out", os.path.join(ctx.work, "abort.ndjson")], timeout=600, check=False)
    if p.returncode not in (-6, 134, -11, 139):
        raise ToolError(f"driver died with status {rc} but the journalled script does not reproduce it (status {p.returncode})")
    wd = [l for l in p.stderr.splitlines() if l.startswith("WATCHDOG:")]
    if wd:
        what = f"{wd[-1][10:]} (step {json.dumps(steps[-1])[:200]} of a {len(steps)}-step script; the process was ended)"
    else:
        what = (f"the process aborts (status {p.returncode}: a panic while panicking, or a crash) inside redb while executing step "
                f"{json.dumps(steps[-1])[:200]} of a {len(steps)}-step script")
    sig = "abort:" + hashlib.sha256(json.dumps([cfg, steps], sort_keys=True).encode()).hexdigest()[:16]
    payload.update({"what": what, "signature": sig})
    return Violation(ctx.prop, save_replay(ctx.prop, payload), what, sig)


def kv_violation(ctx, trace, info, features=None):
    """Build the replay for a rejected KvTrace trace: the script of the rejected run up to the
    rejected record"""
    rec = info["record"]
    run = rec.get("run")
    events = []
    cfg = None
    with open(trace) as f:
        for i, l in enumerate(f):
            if i + 1 > info["line"]:
                break
            ev = json.loads(l)
            if ev["e"] == "reset":
                events = []
                cfg = ev.get("cfg")
                continue
            events.append(ev)
    steps = events_to_steps(events)
    if rec.get("e") == "acct":
        shown = "page accounting violates " + ", ".join(info.get("invariants") or ["an invariant of PagerInv.tla"])
    else:
        shown = f"{rec.get('e')} -> {json.dumps(rec.get('r', rec.get('obs')))[:300]}"
    what = f"KvTrace rejects {shown} (run {run}, step {rec.get('i')})"
    sig = "kv:" + hashlib.sha256(json.dumps([cfg, steps], sort_keys=True).encode()).hexdigest()[:16]
    payload = {"property": ctx.prop, "kind": "kv-script", "cfg": cfg, "steps": steps, "rejected": rec, "what": what, "signature": sig}
    if features:
        payload["features"] = features
    path = save_replay(ctx.prop, payload)
    return Violation(ctx.prop, path, what, sig)


def replay_kv_script(ctx, payload, features=None):
    """Re-execute a kv-script replay; True iff TLC still rejects it"""
    script = os.path.join(ctx.work, "replay-script.json")
    with open(script, "w") as f:
        json.dump({"cfg": payload["cfg"], "steps": payload["steps"]}, f)
    trace = os.path.join(ctx.work, "replay.ndjson")
    p = sh([bin_path("kv", features), "--script", script, "--out", trace], timeout=600, check=False)
    if p.returncode in (-6, 134, -11, 139):
        log("replay still kills the process")
        return True
    if p.returncode != 0:
        raise ToolError(f"replay failed to run: {p.stderr[-1000:]}")
    ok, info = tlc_trace(ctx, "KvTrace", trace)
    if not ok:
        log("replay still rejected:", json.dumps(info["record"])[:400])
    return not ok


def recover_stats(trace):
    """what the open-decision records cover (for the evidence and against vacuity)"""
    k = {"records": 0, "images": 0, "refused": 0, "quick_path": 0, "repair_commit": 0, "fell_back_to_other_slot": 0, "picked_newer_secondary": 0,
         "bad_slot_checksum": 0, "unservable_slot": 0, "two_phase_flag": 0, "layout_rebuilt_from_length": 0, "length_no_layout": 0}
    for l in open(trace):
        r = json.loads(l)
        pre, post = r["pre"], r["post"]
        k["records"] += 1
        k["images"] += r.get("n", 1)
        k["bad_slot_checksum"] += any(not s["hok"] for s in pre["slots"])
        k["unservable_slot"] += any(not s["serv"] for s in pre["slots"])
        k["two_phase_flag"] += bool(pre["tpc"])
        if post["err"]:
            k["refused"] += 1
            continue
        k["layout_rebuilt_from_length"] += (post["full"], post["trailing"]) != (pre["full"], pre["trailing"])
        unchanged = all(post["slots"][i]["txn"] == pre["slots"][i]["txn"] and post["slots"][i]["eq"][i] for i in range(2))
        if unchanged and post["primary"] == pre["primary"]:
            k["quick_path"] += 1
        else:
            k["repair_commit"] += 1
            chosen = 3 - post["primary"]
            if chosen != pre["primary"]:
                newer = pre["slots"][chosen - 1]["txn"] > pre["slots"][pre["primary"] - 1]["txn"]
                k["picked_newer_secondary" if newer and pre["slots"][chosen - 1]["hok"] and pre["slots"][pre["primary"] - 1]["hok"] else "fell_back_to_other_slot"] += 1
    return k


def run_crash(ctx, runs, steps, profile="crash", tag="crash", extra=None, recover_every=0):
    """Random histories on a recording backend; every crash image of every point of the
    operation stream is reopened with the real code; TLC judges the probes (Kv!CrashAtomic).
    recover_every > 0: for every n-th image, what the open decided (header before and after) is judged by
    RecoverTrace.tla as well"""
    trace = os.path.join(ctx.work, f"{tag}.ndjson")
    scripts = os.path.join(ctx.work, f"{tag}-scripts.ndjson")
    rtrace = os.path.join(ctx.work, f"{tag}-recover.ndjson")
    cmd = [bin_path("crash"), "--seed", str(ctx.seed), "--runs", str(runs), "--steps", str(steps), "--tier", ctx.tier,
           "--profile", profile, "--out", trace, "--scripts-out", scripts]
    if recover_every:
        cmd += ["--recover-every", str(recover_every), "--recover-out", rtrace]
    if extra:
        cmd += extra
    p = sh(cmd, timeout=7200)
    stats = json.loads(p.stdout.strip().splitlines()[-1])
    if recover_every:
        check_recover_trace(ctx, rtrace, scripts, profile, tag)
    log(f"crash {tag}: {stats['images']} images (+{stats['second_level_images']} during recovery) at {stats['crash_points']} crash points, "
        f"{stats['distinct_probes']} distinct outcomes, {p.wall:.1f}s")
    ok, info = tlc_trace(ctx, "KvTrace", trace)
    ctx.cov["evaluations"] += stats["images"] + stats["second_level_images"]
    ctx.cov["distinct_nontrivial"] += stats["distinct_probes"]
    ctx.notes[tag] = {k: stats[k] for k in ("runs", "events", "crash_points", "images", "second_level_images", "distinct_probes", "probes_inside_commit")}
    ctx.add_samples(stats["samples"][:2])
    if ok:
        ctx.cov["traces_validated_against_impl"] += stats["runs"]
        return stats
    rec = info["record"]
    if rec.get("e") != "probe":
        raise kv_violation(ctx, trace, info)
    script = None
    for l in open(scripts):
        j = json.loads(l)
        if j["run"] == rec["run"]:
            script = j
    obs = rec.get("obs", {})
    shown = obs.get("error") or "contents that are no commit point between the last durable and the last requested commit"
    if obs.get("msg"):
        shown += f" ({obs['msg'][:300]})"
    if "integ" in rec and rec.get("integ") != {"ok": True}:
        shown += f"; check_integrity() after recovery = {rec.get('integ')}"
    what = (f"crash at backend operation {rec['at']} (run {rec['run']}, case {json.dumps(rec['case'])}, depth {rec['depth']}): "
            f"reopening shows {shown}")
    sig = "crash:" + hashlib.sha256(json.dumps([script["cfg"], script["steps"], rec["at"], rec["case"], rec.get("inner")], sort_keys=True).encode()).hexdigest()[:16]
    payload = {"property": ctx.prop, "kind": "crash-case", "cfg": script["cfg"], "steps": script["steps"], "at": rec["at"], "case": rec["case"],
               "depth": rec["depth"], "inner": rec.get("inner"), "what": what, "signature": sig, "profile": profile,
               "driver_args": [a for a in (extra or []) if a in ("--reader", "--writer", "3")]}
    path = save_replay(ctx.prop, payload)
    raise Violation(ctx.prop, path, what, sig)


def check_recover_trace(ctx, rtrace, scripts, profile, tag):
    rs = recover_stats(rtrace)
    ok, info = tlc_trace_generic(ctx, "RecoverTrace", rtrace)
    ctx.cov["evaluations"] += rs["images"]
    ctx.cov["distinct_nontrivial"] += rs["records"]
    ctx.notes[f"open_decisions_{tag}"] = rs
    if ok:
        log(f"open decisions {tag}: {rs['images']} images, {rs['records']} distinct: {rs['repair_commit']} repair commits ({rs['picked_newer_secondary']} took the newer "
            f"secondary, {rs['fell_back_to_other_slot']} fell back), {rs['quick_path']} quick, {rs['refused']} refused")
        if rs["repair_commit"] < 5 or rs["picked_newer_secondary"] < 1:
            raise ToolError(f"vacuity: the open-decision records hardly exercise the recovery: {rs}")
        # the binding has teeth: the same records with the chosen slot swapped / a refusal turned into success are rejected
        lines = [json.loads(l) for l in open(rtrace)]
        for name, mutate in (("other slot chosen", lambda r: r["post"].__setitem__("primary", 3 - r["post"]["primary"])),
                             ("older id kept", lambda r: r["post"]["slots"][r["post"]["primary"] - 1].__setitem__("txn", r["post"]["slots"][r["post"]["primary"] - 1]["txn"] - 1))):
            idx = next(i for i, r in enumerate(lines) if not r["post"]["err"])
            bad = json.loads(json.dumps(lines))
            mutate(bad[idx])
            btrace = rtrace + ".mut"
            with open(btrace, "w") as f:
                for r in bad:
                    f.write(json.dumps(r) + "\n")
            ok2, info2 = tlc_trace_generic(ctx, "RecoverTrace", btrace)
            if ok2 or info2["line"] != idx + 1:
                raise ToolError(f"self-test failed: RecoverTrace accepts a record altered to '{name}'")
        ctx.notes.setdefault("binding_selftests", []).append("RecoverTrace rejects a record whose chosen slot / new transaction id is altered")
        return rs
    rec = info["record"]
    script = None
    for l in open(scripts):
        j = json.loads(l)
        if j["run"] == rec["run"]:
            script = j
    what = (f"crash at backend operation {rec['at']} (run {rec['run']}, case {json.dumps(rec['case'])}): opening the image decided differently from "
            f"RecoverOps.tla: before {json.dumps(rec['pre'])}, after {json.dumps(rec['post'])}")
    sig = "recover:" + hashlib.sha256(json.dumps([script["cfg"], script["steps"], rec["at"], rec["case"]], sort_keys=True).encode()).hexdigest()[:16]
    payload = {"property": ctx.prop, "kind": "crash-case", "cfg": script["cfg"], "steps": script["steps"], "at": rec["at"], "case": rec["case"],
               "depth": 1, "inner": None, "what": what, "signature": sig, "profile": profile, "recover": True}
    raise Violation(ctx.prop, save_replay(ctx.prop, payload), what, sig)


def run_opencases(ctx, page_sizes=(512,)):
    """Specification -> implementation for the open-time decisions: every combination of the inputs Recover.tla quantifies
    over (flags, primary, slot checksums, order of the ids, trees verifying, saved allocator state, file length vs region counts)
    is realised as a file, opened by the real code, and the header before/after judged by RecoverTrace.tla"""
    for ps in page_sizes:
        trace = os.path.join(ctx.work, f"opencases-{ps}.ndjson")
        p = sh([bin_path("opencases"), "--page-size", str(ps), "--out", trace], timeout=1800)
        stats = json.loads(p.stdout.strip().splitlines()[-1])
        rs = recover_stats(trace)
        classes = set()
        for l in open(trace):
            pre = json.loads(l)["pre"]
            a, b = pre["slots"][0]["txn"], pre["slots"][1]["txn"]
            classes.add((pre["rec"], pre["tpc"], pre["primary"], pre["slots"][0]["hok"], pre["slots"][1]["hok"], pre["slots"][0]["serv"], pre["slots"][1]["serv"],
                         (a > b) - (a < b)))
        if len(classes) != 384:
            raise ToolError(f"opencases realised {len(classes)} of the 384 input classes of Recover.tla")
        ok, info = tlc_trace_generic(ctx, "RecoverTrace", trace)
        ctx.cov["evaluations"] += stats["images"]
        ctx.cov["distinct_nontrivial"] += stats["distinct"]
        ctx.notes[f"open_cases_page_{ps}"] = dict(rs, input_classes_of_Recover_tla=len(classes), panics=stats["panics"])
        if not ok:
            rec = info["record"]
            what = (f"opening a file built for the case {json.dumps(rec['case'])} (page size {ps}) decided differently from RecoverOps.tla: "
                    f"before {json.dumps(rec['pre'])}, after {json.dumps(rec['post'])}")
            sig = "opencases:" + hashlib.sha256(json.dumps([ps, rec["case"]], sort_keys=True).encode()).hexdigest()[:16]
            payload = {"property": ctx.prop, "kind": "contract-opencases", "page_size": ps, "case": rec["case"], "what": what, "signature": sig}
            raise Violation(ctx.prop, save_replay(ctx.prop, payload), what, sig)
        ctx.cov["traces_validated_against_impl"] += 1
        log(f"open cases (page size {ps}): {stats['images']} files for all 384 input classes, {stats['distinct']} distinct records: {rs['refused']} refused, "
            f"{rs['quick_path']} quick, {rs['repair_commit']} repaired ({rs['fell_back_to_other_slot']} fell back, {rs['picked_newer_secondary']} took the newer secondary)")


def replay_crash_case(ctx, replay_path):
    trace = os.path.join(ctx.work, "replay-crash.ndjson")
    if json.load(open(replay_path)).get("recover"):
        rtrace = os.path.join(ctx.work, "replay-recover.ndjson")
        sh([bin_path("crash"), "--replay", replay_path, "--out", trace, "--recover-every", "1", "--recover-out", rtrace], timeout=1200)
        ok, info = tlc_trace_generic(ctx, "RecoverTrace", rtrace)
        if not ok:
            log("replay still rejected:", json.dumps(info["record"])[:400])
        return not ok
    # (C19: the release that writes / reads is an argument of the driver)
    sh([bin_path("crash"), "--replay", replay_path, "--out", trace] + json.load(open(replay_path)).get("driver_args", []), timeout=1200)
    ok, info = tlc_trace(ctx, "KvTrace", trace)
    if not ok:
        log("replay still rejected:", json.dumps(info["record"])[:400])
    return not ok


def run_sched(ctx, scenario, variants):
    """Schedules forced through the pause points; TLC judges the recorded trace"""
    trace = os.path.join(ctx.work, f"sched-{scenario}.ndjson")
    p = sh([bin_path("sched"), "--scenario", scenario, "--variants", str(variants), "--seed", str(ctx.seed), "--out", trace], timeout=1800)
    stats = json.loads(p.stdout.strip().splitlines()[-1])
    log(f"sched {scenario}: {stats['variants']} variants, {stats['held_at_pause_point']} held at the pause point, {stats['events']} events")
    if stats["held_at_pause_point"] < stats["variants"]:
        raise ToolError(f"schedule replay did not reach its pause point in every variant: {stats}")
    ok, info = tlc_trace(ctx, "KvTrace", trace)
    ctx.cov["evaluations"] += stats["events"]
    ctx.cov["distinct_nontrivial"] += stats["held_at_pause_point"]
    ctx.notes[f"sched_{scenario}"] = {k: stats[k] for k in ("variants", "held_at_pause_point", "events")}
    ctx.add_samples(stats["samples"][:1])
    if ok:
        ctx.cov["traces_validated_against_impl"] += stats["variants"]
        return stats
    rec = info["record"]
    events = []
    cfg = None
    with open(trace) as f:
        for i, l in enumerate(f):
            if i + 1 > info["line"]:
                break
            ev = json.loads(l)
            if ev["e"] == "reset":
                events = []
                cfg = ev.get("cfg")
                continue
            events.append(ev)
    what = (f"schedule {scenario} variant {rec.get('run')}: KvTrace rejects {rec.get('e')} "
            f"{json.dumps(rec.get('obs', rec.get('r')))[:300]}")
    sig = f"sched:{scenario}:" + hashlib.sha256(json.dumps(rec.get("e")).encode()).hexdigest()[:8]
    payload = {"property": ctx.prop, "kind": "sched", "scenario": scenario, "variant": rec.get("run"), "seed": ctx.seed, "cfg": cfg,
               "events": events, "what": what, "signature": sig}
    raise Violation(ctx.prop, save_replay(ctx.prop, payload), what, sig)


def replay_sched(ctx, payload):
    trace = os.path.join(ctx.work, "replay-sched.ndjson")
    sh([bin_path("sched"), "--scenario", payload["scenario"], "--variants", str(payload["variant"] + 1), "--seed", str(payload["seed"]), "--out", trace],
       timeout=1800)
    ok, info = tlc_trace(ctx, "KvTrace", trace)
    return not ok


def tlc_trace_generic(ctx, module, trace, timeout=3600):
    """Trace validation with a trace module other than KvTrace (same acceptance protocol)"""
    metadir = os.path.join(ctx.work, "meta-trace-" + module)
    env = {"TRACE": os.path.abspath(trace), "JAVA_TOOL_OPTIONS": "-Xss1g -Dtlc2.tool.queue.IStateQueue=StateDeque"}
    cmd = ["timeout", str(timeout)] + tlc_cmd(module, module + ".cfg", 1, metadir)
    p = sh(cmd, cwd=SPEC, timeout=timeout + 30, env=env, check=False)
    out = p.stdout + p.stderr
    s = parse_tlc_summary(out)
    nlines = sum(1 for _ in open(trace))
    if s.get("ok") and s.get("depth", 0) - 1 == nlines:
        log(f"TLC {module}: accepted {nlines} events in {p.wall:.1f}s")
        return True, {"events": nlines}
    m = re.search(r'<<"REJECT", (\d+), "(.*)">>', out)
    if m:
        why = [l for l in out.splitlines() if l.startswith('<<"ILLFORMED"')]
        return False, {"line": int(m.group(1)), "record": json.loads(json.loads('"' + m.group(2) + '"')), "events": nlines, "why": why[:1]}
    tail = "\n".join(l for l in out.splitlines() if not l.startswith(("Semantic", "Parsing", "Linting")))[-3000:]
    raise ToolError(f"trace validation failed to run on {trace}:\n{tail}")


def run_buddy(ctx, mode, cap, steps=0, tag=None):
    tag = tag or f"{mode}{cap}"
    trace = os.path.join(ctx.work, f"buddy-{tag}.ndjson")
    cmd = [bin_path("buddy"), "--mode", mode, "--cap", str(cap), "--seed", str(ctx.seed), "--steps", str(steps), "--out", trace]
    p = sh(cmd, timeout=1800)
    stats = json.loads(p.stdout.strip().splitlines()[-1])
    log(f"buddy {tag}: {stats['ops']} operations, {stats['states']} states, {stats['panics']} panics")
    ok, info = tlc_trace_generic(ctx, "BuddyTrace", trace)
    ctx.cov["evaluations"] += stats["ops"]
    ctx.cov["distinct_nontrivial"] += stats["ops"] if mode == "tour" else 0
    ctx.notes[f"buddy_{tag}"] = stats
    if ok:
        ctx.cov["traces_validated_against_impl"] += 1
        lines = open(trace).read().splitlines()
        ctx.add_samples([json.loads(lines[len(lines) // 2])])
        return stats
    # the replay is the prefix of the trace up to the rejected record (from the last "state" record)
    lines = open(trace).read().splitlines()[: info["line"]]
    start = max(i for i, l in enumerate(lines) if json.loads(l)["e"] == "state")
    events = [json.loads(l) for l in lines[start:]]
    rec = info["record"]
    what = f"buddy allocator (capacity {cap}): BuddyTrace rejects {json.dumps({k: v for k, v in rec.items() if k != 'blocks'})} after state {json.dumps(events[0])[:300]}"
    sig = "buddy:" + hashlib.sha256(json.dumps(events, sort_keys=True).encode()).hexdigest()[:16]
    payload = {"property": ctx.prop, "kind": "buddy", "cap": cap, "events": events, "what": what, "signature": sig}
    raise Violation(ctx.prop, save_replay(ctx.prop, payload), what, sig)


def replay_buddy(ctx, payload):
    script = os.path.join(ctx.work, "buddy-replay.json")
    json.dump(payload, open(script, "w"))
    trace = os.path.join(ctx.work, "buddy-replay.ndjson")
    sh([bin_path("buddy"), "--mode", "replay", "--cap", str(payload["cap"]), "--script", script, "--out", trace], timeout=600)
    ok, _ = tlc_trace_generic(ctx, "BuddyTrace", trace)
    return not ok


def run_fault(ctx, histories, steps, stride):
    """Fault enumeration: the k-th backend call fails, for every sampled k; TLC judges the runs"""
    trace = os.path.join(ctx.work, "fault.ndjson")
    scripts = os.path.join(ctx.work, "fault-scripts.ndjson")
    journal = os.path.join(ctx.work, "fault.journal")
    cmd = [bin_path("fault"), "--seed", str(ctx.seed), "--histories", str(histories), "--steps", str(steps), "--stride", str(stride),
           "--out", trace, "--scripts-out", scripts, "--journal", journal]
    p = sh(cmd, timeout=7200, check=False)
    if p.returncode in (-6, 134, -11, 139):
        raise fault_abort_violation(ctx, journal, p.returncode)
    if p.returncode != 0:
        raise ToolError(f"command failed ({p.returncode}): {cmd}\n{p.stdout[-2000:]}\n{p.stderr[-2000:]}")
    stats = json.loads(p.stdout.strip().splitlines()[-1])
    log(f"fault: {stats['runs']} faulty runs over {stats['histories']} histories, {stats['errors_returned']} storage errors returned, "
        f"{stats['crash_probes']} crash probes, {stats['panics']} panics, {p.wall:.1f}s")
    ok, info = tlc_trace(ctx, "KvTrace", trace, timeout=7200)
    ctx.cov["evaluations"] += stats["runs"]
    ctx.cov["distinct_nontrivial"] += stats["runs"]
    ctx.notes["fault"] = {k: stats[k] for k in ("histories", "runs", "events", "faults_injected", "errors_returned", "crash_probes", "panics")}
    ctx.add_samples(stats["samples"][:2])
    if ok:
        ctx.cov["traces_validated_against_impl"] += stats["runs"]
        return stats
    rec = info["record"]
    # the reset record of the rejected run names history, k and mode
    meta = None
    with open(trace) as f:
        for i, l in enumerate(f):
            if i + 1 > info["line"]:
                break
            ev = json.loads(l)
            if ev["e"] == "reset":
                meta = ev
    script = None
    for l in open(scripts):
        j = json.loads(l)
        if j["history"] == meta["history"]:
            script = j
    shown = json.dumps(rec.get("r", rec.get("obs")))[:300]
    what = (f"with backend call {meta['k']} failing ({meta['mode']}) in history {meta['history']}: KvTrace rejects {rec.get('e')} -> {shown} "
            f"(event {rec.get('i')})")
    sig = "fault:" + hashlib.sha256(json.dumps([script["cfg"], script["steps"], meta["k"], meta["mode"]], sort_keys=True).encode()).hexdigest()[:16]
    payload = {"property": ctx.prop, "kind": "fault", "cfg": script["cfg"], "steps": script["steps"], "calls0": script["calls0"], "k": meta["k"],
               "mode": meta["mode"], "what": what, "signature": sig}
    raise Violation(ctx.prop, save_replay(ctx.prop, payload), what, sig)


def fault_abort_violation(ctx, journal, rc):
    """The fault driver was killed inside the code under test: the unfinished fault points of the journal are re-run one
    by one in their own process; the first that kills it again is the violation"""
    hist, started, done = {}, {}, set()
    for l in open(journal):
        j = json.loads(l)
        if "steps" in j:
            hist[j["history"]] = j
        elif "start" in j:
            started[(j["history"], j["start"])] = j
        elif "done" in j:
            done.add((j["history"], j["done"]))
    for key, st in started.items():
        if key in done:
            continue
        h = hist[st["history"]]
        payload = {"property": ctx.prop, "kind": "fault", "cfg": h["cfg"], "steps": h["steps"], "calls0": h["calls0"], "k": st["k"], "mode": st["mode"],
                   "expect": "abort"}
        path = os.path.join(ctx.work, "fault-candidate.json")
        json.dump(payload, open(path, "w"))
        p = sh([bin_path("fault"), "--replay", path, "--out", os.path.join(ctx.work, "fault-candidate.ndjson")], timeout=1200, check=False)
        if p.returncode in (-6, 134, -11, 139):
            tail = [l for l in p.stderr.splitlines() if "panicked" in l or "non-unwinding" in l][-3:]
            what = (f"with backend call {st['k']} failing ({st['mode']}) in history {st['history']} the process aborts inside redb "
                    f"(status {p.returncode}): {' | '.join(tail)[:400]}")
            sig = "fault-abort:" + hashlib.sha256(json.dumps([h["cfg"], h["steps"], st["k"], st["mode"]], sort_keys=True).encode()).hexdigest()[:16]
            payload.update({"what": what, "signature": sig})
            return Violation(ctx.prop, save_replay(ctx.prop, payload), what, sig)
    return ToolError(f"fault driver died with status {rc} but no unfinished fault point reproduces it")


def replay_fault(ctx, replay_path):
    trace = os.path.join(ctx.work, "replay-fault.ndjson")
    p = sh([bin_path("fault"), "--replay", replay_path, "--out", trace], timeout=1200, check=False)
    if p.returncode in (-6, 134, -11, 139):
        log("replay still kills the process")
        return True
    if p.returncode != 0:
        raise ToolError(f"replay failed to run: {p.stderr[-1000:]}")
    ok, info = tlc_trace(ctx, "KvTrace", trace)
    return not ok


def run_contract(ctx, runs, steps):
    """C20: every call redb makes on a monitored backend, judged by BackendTrace.tla"""
    trace = os.path.join(ctx.work, "contract.ndjson")
    p = sh([bin_path("contract"), "--seed", str(ctx.seed), "--runs", str(runs), "--steps", str(steps), "--out", trace], timeout=3600)
    stats = json.loads(p.stdout.strip().splitlines()[-1])
    log(f"contract: {stats['scenarios']} scenarios ({stats['failing_opens']} failing opens), {stats['backend_calls']} backend calls")
    ok, info = tlc_trace_generic(ctx, "BackendTrace", trace)
    ctx.cov["evaluations"] += stats["backend_calls"]
    ctx.cov["distinct_nontrivial"] += stats["scenarios"]
    ctx.notes["contract"] = stats
    if not ok:
        rec = info["record"]
        lines = open(trace).read().splitlines()[: info["line"]]
        start = max(i for i, l in enumerate(lines) if json.loads(l)["e"] == "bopen")
        what = f"backend contract: BackendTrace rejects call {json.dumps(rec)} in scenario {rec.get('sc')} (call {info['line'] - start} since the backend was handed to redb)"
        sig = f"contract:{rec.get('sc')}:{rec.get('e')}"
        payload = {"property": ctx.prop, "kind": "contract", "scenario": rec.get("sc"), "seed": ctx.seed, "runs": runs, "steps": steps,
                   "calls": [json.loads(l) for l in lines[start:]][-200:], "what": what, "signature": sig}
        raise Violation(ctx.prop, save_replay(ctx.prop, payload), what, sig)
    ctx.cov["traces_validated_against_impl"] += stats["scenarios"]
    ctx.add_samples([json.loads(l) for l in open(trace).read().splitlines()[5:7]])
    return stats


def run_contract_race(ctx):
    """The forced close race: a known finding unless the trace is accepted"""
    trace = os.path.join(ctx.work, "contract-race.ndjson")
    sh([bin_path("contract"), "--race", "--seed", str(ctx.seed), "--out", trace], timeout=600)
    note = [json.loads(l) for l in open(trace) if '"note"' in l]
    if not note or not note[0].get("reached"):
        raise ToolError("close-race schedule did not reach its pause point")
    ok, info = tlc_trace_generic(ctx, "BackendTrace", trace)
    ctx.cov["evaluations"] += 1
    ctx.notes["close_race"] = {"accepted": ok, "reader_result": note[0].get("reader_result")}
    if ok:
        return
    rec = info["record"]
    sig = "C20/backend-call-after-close-race"
    listed = {k["property"] + "/" + k["signature"]: k for k in load_known() if k["kind"] == "known"}
    if rec.get("sc") == "close-race" and rec.get("e") in ("read", "len") and sig in listed:
        k = listed[sig]
        ctx.known_hits.append(f"property={k['property']} {k['what']}")
        return
    what = f"close race: BackendTrace rejects {json.dumps(rec)}"
    payload = {"property": ctx.prop, "kind": "contract-race", "what": what, "signature": sig}
    raise Violation(ctx.prop, save_replay(ctx.prop, payload), what, sig)


def run_contract_cut(ctx):
    """A file with a recovery pending, cut short from outside by k pages below the highest page its commit points use:
    one trace per k (a known finding unless every trace is accepted)"""
    sig = "C20/read-beyond-end-of-cut-file"
    listed = {k["property"] + "/" + k["signature"]: k for k in load_known() if k["kind"] == "known"}
    outcomes = {}
    for k in (0, 1, 2, 5, 12):
        trace = os.path.join(ctx.work, f"contract-cut-{k}.ndjson")
        p = sh([bin_path("contract"), "--cut", str(k), "--seed", str(ctx.seed), "--out", trace], timeout=600)
        stats = json.loads(p.stdout.strip().splitlines()[-1])
        ok, info = tlc_trace_generic(ctx, "BackendTrace", trace)
        ctx.cov["evaluations"] += stats["backend_calls"]
        ctx.cov["distinct_nontrivial"] += 1
        outcomes[k] = {"open": stats["outcome"], "accepted": ok}
        if ok:
            ctx.cov["traces_validated_against_impl"] += 1
            continue
        rec = info["record"]
        if rec.get("sc") == "dirty-file-cut" and rec.get("e") == "read" and sig in listed:
            kf = listed[sig]
            line = f"property={kf['property']} {kf['what']}"
            if line not in ctx.known_hits:
                ctx.known_hits.append(line)
            continue
        what = f"file cut by {k} pages while a recovery is pending: BackendTrace rejects {json.dumps(rec)}"
        payload = {"property": ctx.prop, "kind": "contract-cut", "k": k, "what": what, "signature": f"contract:dirty-file-cut:{rec.get('e')}"}
        raise Violation(ctx.prop, save_replay(ctx.prop, payload), what, payload["signature"])
    if not outcomes[0]["accepted"]:
        raise ToolError("the uncut file must open within the contract")
    ctx.notes["dirty_file_cut"] = outcomes


def run_readonly_strace(ctx):
    """A read-only database on a real file, under strace: its system calls on the file become
    backend events of a read-only backend"""
    path = os.path.join(ctx.work, "ro.redb")
    sh([bin_path("ro_session"), "create", path], timeout=120)
    size = os.path.getsize(path)
    st = os.path.join(ctx.work, "ro.strace")
    sh(["strace", "-f", "-o", st, "-e", "trace=openat,pwrite64,write,ftruncate,fsync,fdatasync,close,pread64", bin_path("ro_session"), "read", path], timeout=120)
    fd = None
    evs = []
    for l in open(st):
        m = re.search(r'openat\(.*"%s".*\) = (\d+)' % re.escape(path), l)
        if m:
            fd = m.group(1)
            evs.append({"e": "bopen", "len": size, "ro": True, "sc": "read-only-file"})
            continue
        if fd is None:
            continue
        m = re.search(r"(pread64|pwrite64|write|ftruncate|fsync|fdatasync|close)\((\d+)(.*)\) = (-?\d+)", l)
        if not m or m.group(2) != fd:
            continue
        call, rest = m.group(1), m.group(3)
        nums = [int(x) for x in re.findall(r", (\d+)", rest)]
        if call == "pread64":
            evs.append({"e": "read", "a": nums[-1], "b": nums[-2], "sc": "read-only-file"})
        elif call in ("pwrite64", "write"):
            evs.append({"e": "write", "a": nums[-1] if call == "pwrite64" else 0, "b": nums[0] if nums else 0, "sc": "read-only-file"})
        elif call == "ftruncate":
            evs.append({"e": "set_len", "a": nums[0], "b": 0, "sc": "read-only-file"})
        elif call in ("fsync", "fdatasync"):
            evs.append({"e": "sync", "a": 0, "b": 0, "sc": "read-only-file"})
        elif call == "close":
            evs.append({"e": "close", "a": 0, "b": 0, "sc": "read-only-file"})
            evs.append({"e": "bdone", "a": 0, "b": 0, "sc": "read-only-file"})
            fd = None
    if not any(e["e"] == "read" for e in evs):
        raise ToolError("strace saw no read of the database file")
    trace = os.path.join(ctx.work, "ro.ndjson")
    with open(trace, "w") as f:
        for e in evs:
            f.write(json.dumps(e) + "\n")
    ok, info = tlc_trace_generic(ctx, "BackendTrace", trace)
    ctx.cov["evaluations"] += len(evs)
    ctx.notes["read_only_syscalls"] = len(evs)
    if not ok:
        what = f"read-only database issued {json.dumps(info['record'])} on its file"
        payload = {"property": ctx.prop, "kind": "contract-ro", "what": what, "signature": "contract:ro"}
        raise Violation(ctx.prop, save_replay(ctx.prop, payload), what, "contract:ro")
    ctx.cov["traces_validated_against_impl"] += 1


def run_corrupt(ctx, histories, steps):
    trace = os.path.join(ctx.work, "corrupt.ndjson")
    scripts = os.path.join(ctx.work, "corrupt-scripts.ndjson")
    p = sh([bin_path("corrupt"), "--seed", str(ctx.seed), "--histories", str(histories), "--steps", str(steps), "--tier", ctx.tier,
            "--out", trace, "--scripts-out", scripts], timeout=7200)
    stats = json.loads(p.stdout.strip().splitlines()[-1])
    log(f"corrupt: {stats['alterations']} altered images over {stats['histories']} histories: {stats['certified_ok_true']} certified, "
        f"{stats['repaired_ok_false']} repaired, {stats['rejected_with_error']} rejected, {stats['panics']} panics; "
        f"{stats['distinct_outcomes']} distinct outcomes, {p.wall:.1f}s")
    ok, info = tlc_trace(ctx, "KvTrace", trace)
    ctx.cov["evaluations"] += stats["alterations"]
    ctx.cov["distinct_nontrivial"] += stats["distinct_outcomes"]
    ctx.notes["corrupt"] = {k: v for k, v in stats.items() if k != "samples"}
    ctx.add_samples(stats["samples"][:2])
    if ok:
        ctx.cov["traces_validated_against_impl"] += stats["histories"]
        return stats
    rec = info["record"]
    if rec.get("e") != "cprobe":
        raise kv_violation(ctx, trace, info)
    script = None
    for l in open(scripts):
        j = json.loads(l)
        if j["history"] == rec["run"]:
            script = j
    what = (f"altered image ({json.dumps(rec['alt'])}, one of {rec['n']} alterations with this outcome) of history {rec['run']}: "
            f"check_integrity() returned {json.dumps(rec.get('integ'))} but the contents served are no commit point of the history"
            + ("" if rec.get("integ") != {"ok": False} else f" / second check {json.dumps(rec.get('integ2'))}"))
    sig = "corrupt:" + hashlib.sha256(json.dumps([script["cfg"], script["steps"], rec["alt"]], sort_keys=True).encode()).hexdigest()[:16]
    payload = {"property": ctx.prop, "kind": "corrupt", "cfg": script["cfg"], "steps": script["steps"], "alt": rec["alt"], "what": what, "signature": sig,
               "savepoint_epilogue": script.get("savepoint_epilogue", False)}
    raise Violation(ctx.prop, save_replay(ctx.prop, payload), what, sig)


def replay_corrupt(ctx, replay_path):
    trace = os.path.join(ctx.work, "replay-corrupt.ndjson")
    sh([bin_path("corrupt"), "--replay", replay_path, "--out", trace], timeout=1200)
    ok, info = tlc_trace(ctx, "KvTrace", trace)
    return not ok


def gen_tour(ctx, module, cfg, out_name, workers=4, timeout=900):
    """Have TLC print every transition of a tour model"""
    out_path = os.path.join(ctx.work, out_name)
    s, out = tlc_check(ctx, module, cfg, workers=workers, timeout=timeout)
    with open(out_path, "w") as f:
        for l in out.splitlines():
            if l.startswith('<<"TR"'):
                f.write(l + "\n")
    return out_path, s


def run_tour(ctx, mode, tour_file, features=None):
    fail_trace = os.path.join(ctx.work, f"tour-fail-{mode}.ndjson")
    cmd = [bin_path("tour", features), "--in", tour_file, "--mode", mode, "--tier", ctx.tier, "--seed", str(ctx.seed), "--fail-trace", fail_trace]
    p = sh(cmd, timeout=3600)
    stats = json.loads(p.stdout.strip().splitlines()[-1])
    log(f"tour {mode}: {stats['executed']} transitions executed over {stats['configs']} configurations, "
        f"{len(stats['failures'])} mismatches, {p.wall:.1f}s")
    ctx.cov["evaluations"] += stats["executed"]
    ctx.cov["distinct_nontrivial"] += stats["distinct"]
    ctx.notes[f"tour_{mode}"] = {k: stats[k] for k in ("transitions", "states", "configs", "executed", "mutations", "distinct", "panics")}
    ctx.add_samples(stats["samples"][:2])
    if stats["failures"]:
        # TLC is the judge: the recorded execution must be rejected by the trace specification
        ok, info = tlc_trace(ctx, "KvTrace", fail_trace)
        f0 = stats["failures"][0]
        if ok:
            raise ToolError("tour mismatch that KvTrace accepts (generator/harness defect, not a violation): " + json.dumps(f0)[:1500])
        raise kv_violation(ctx, fail_trace, info)
    return stats


# ------------------------------------------------------------------------------------------------
# properties


def tiered(ctx, quick, thorough):
    return quick if ctx.tier == "quick" else thorough


def check_C04(ctx):
    build()
    # design level: the ordered-map semantics, constructive vs declarative, all states x all steps
    s, _ = tlc_check(ctx, "MC_Kv", "MC_Kv_table.cfg", workers=4)
    if s["generated"] - 1 != s["distinct"] * s["nsteps"]:
        raise ToolError(f"vacuity: some step of MC_Kv_table is never enabled: {s}")
    tour_file, _ = gen_tour(ctx, "MC_Kv", "Gen_Kv_table.cfg", "tour_table.txt")
    run_tour(ctx, "table", tour_file)
    runs, steps = tiered(ctx, (24, 500), (240, 1500))
    st = run_kv_walk(ctx, "table", runs, steps, page_sizes=tiered(ctx, "512,1024,4096", "512,1024,2048,4096,8192,16384"),
                     caches="1048576,0,4096")
    st2 = run_kv_walk(ctx, "table", tiered(ctx, 4, 40), tiered(ctx, 2500, 6000), page_sizes="512", nkeys=tiered(ctx, 400, 1500), tag="table-deep",
                      extra=["--region-size", "65536"])
    ctx.cov["distinct_nontrivial"] += sum(v for k, v in ctx.notes.get("event_kinds", {}).items() if k in
                                         ("ins", "insr", "getmut", "entry", "rem", "pop", "retain", "extract", "range", "get", "edge"))
    ctx.assumptions += ["keys/values restricted to the harness's u64 / byte-string / str corpora and value length classes derived from the page size",
                        "TLC (tla2tools 1.8.0), serde_json and the harness executor are trusted"]
    return dict(level="model_checking", exhaustive=False,
                rule="(1) TLC enumerates every (state, step) of the 4-key x 2-value table model (constructive result must satisfy the "
                     "declarative rule of Kv.tla); every such transition is replayed against real redb under a sweep of page size x key/value "
                     "type x value-length classes x restore mode and compared with the specification's result and target state; distinct = "
                     "distinct (page size, key type, source state, step). (2) random multi-transaction walks (commit/abort/reopen, all ops) "
                     "validated event by event by TLC against Kv.tla; non-trivial = table operation events.")


def check_C09(ctx):
    build()
    s, _ = tlc_check(ctx, "MC_Kv", "MC_Kv_multimap.cfg", workers=4)
    if s["generated"] - 1 != s["distinct"] * s["nsteps"]:
        raise ToolError(f"vacuity: some step of MC_Kv_multimap is never enabled: {s}")
    tour_file, _ = gen_tour(ctx, "MC_Kv", "Gen_Kv_multimap.cfg", "tour_multimap.txt")
    run_tour(ctx, "multimap", tour_file)
    runs, steps = tiered(ctx, (24, 500), (240, 1500))
    run_kv_walk(ctx, "multimap", runs, steps, page_sizes=tiered(ctx, "512,1024,4096", "512,1024,2048,4096,8192,16384"), caches="1048576,0,4096")
    run_kv_walk(ctx, "multimap", tiered(ctx, 4, 40), tiered(ctx, 2500, 6000), page_sizes="512", nkeys=tiered(ctx, 200, 600), tag="multimap-deep")
    ctx.cov["distinct_nontrivial"] += sum(v for k, v in ctx.notes.get("event_kinds", {}).items() if k in ("mins", "mrem", "mremall", "mget", "mrange", "len"))
    ctx.assumptions += ["multimap values restricted to u64 and the byte-string corpus (which includes values longer than half a page)",
                        "TLC, serde_json and the harness executor are trusted"]
    return dict(level="model_checking", exhaustive=False,
                rule="as C04 with the multimap model (3 keys x 3 values, all 512 states x all steps): transition tour under the configuration "
                     "sweep (values mapped onto byte strings straddling the inline/subtree threshold), plus random walks with len() and "
                     "MultimapValue::len() checked, commit/abort/reopen in between, judged by TLC against Kv.tla")


def run_paths(ctx, num, depth=26):
    """Specification -> implementation: behaviours TLC generates from Kv.tla (simulation mode) executed on the real code"""
    out = os.path.join(ctx.work, "paths.txt")
    metadir = os.path.join(ctx.work, "meta-paths")
    cmd = ["timeout", "1800", "tlc", "-workers", "1", "-simulate", f"num={num}", "-depth", str(depth + 1), "-seed", str(ctx.seed), "-metadir", metadir,
           "-cleanup", "-noGenerateSpecTE", "-config", "Gen_KvPaths.cfg", "MC_KvPaths.tla"]
    p = sh(cmd, cwd=SPEC, timeout=1900, check=False)
    open(out, "w").write(p.stdout)
    if '"PATH"' not in p.stdout:
        raise ToolError(f"TLC generated no behaviours:\n{(p.stdout + p.stderr)[-2000:]}")
    fail = os.path.join(ctx.work, "paths_fail.json")
    q = sh([bin_path("paths"), "--in", out, "--seed", str(ctx.seed), "--fail-out", fail], timeout=3600, check=False)
    if q.returncode in (-6, 134, -11, 139):
        what = "replaying a behaviour generated from Kv.tla kills the process inside redb: " + " | ".join([l for l in q.stderr.splitlines() if "panicked" in l][-3:])[:400]
        payload = {"property": ctx.prop, "kind": "paths", "seed": ctx.seed, "num": num, "tier": ctx.tier, "what": what, "signature": "paths:abort"}
        raise Violation(ctx.prop, save_replay(ctx.prop, payload), what, "paths:abort")
    if q.returncode != 0:
        raise ToolError(f"paths failed ({q.returncode}): {q.stderr[-2000:]}")
    stats = json.loads(q.stdout.strip().splitlines()[-1])
    log(f"paths: {stats['behaviours']} behaviours generated by TLC, {stats['calls']} calls replayed ({stats['error_results_specified']} with a specified "
        f"error), {stats['commits']} commits with catalog check")
    ctx.cov["evaluations"] += stats["calls"]
    ctx.cov["distinct_nontrivial"] += stats["behaviours"]
    ctx.notes["spec_to_impl_paths"] = {k: v for k, v in stats.items() if k not in ("what",)}
    if stats["failed"]:
        f = json.load(open(fail))
        what = f"behaviour {f['path']} generated from Kv.tla, replayed on the code: {f['what']}"[:900]
        sig = "paths:" + hashlib.sha256(json.dumps(f["behaviour"], sort_keys=True).encode()).hexdigest()[:16]
        payload = {"property": ctx.prop, "kind": "paths", "seed": ctx.seed, "num": num, "tier": ctx.tier, "cfg": f["cfg"], "behaviour": f["behaviour"],
                   "calls": f["calls"][-30:], "what": what, "signature": sig}
        raise Violation(ctx.prop, save_replay(ctx.prop, payload), what, sig)
    if stats["commits"] < 200:
        raise ToolError(f"vacuity: too few commits in the generated behaviours: {stats}")
    return stats


def run_types(ctx):
    """C17 type identity: every ordered pair of 21 key / value types (built-in, user-defined - one named like a built-in -, tuples with
    the user type in every position, Option, arrays): created with one, opened with the other; TypesTrace.tla judges"""
    trace = os.path.join(ctx.work, "types.ndjson")
    p = sh([bin_path("types"), "--out", trace], timeout=900)
    stats = json.loads(p.stdout.strip().splitlines()[-1])
    lines = [json.loads(l) for l in open(trace)]
    same = sum(1 for l in lines if l["stored"] == l["opened"])
    if same < 100 or len(lines) - same < 1000:
        raise ToolError(f"vacuity: type pairs: {len(lines)} opens, {same} with equal descriptors")
    ok, info = tlc_trace_generic(ctx, "TypesTrace", trace)
    ctx.cov["evaluations"] += stats["opens"]
    ctx.cov["distinct_nontrivial"] += stats["opens"]
    ctx.notes["type_identity"] = {"opens": stats["opens"], "equal_descriptors": same, "different_descriptors": len(lines) - same}
    if not ok:
        rec = info["record"]
        what = (f"type identity: a {'multimap ' if rec['kind'] == 'm' else ''}table created with {rec['pos']} type {json.dumps(rec['stored'])} and opened "
                f"({'write' if rec['via'] == 'w' else 'read'} transaction) with {json.dumps(rec['opened'])} returned {json.dumps(rec['r'])}")
        sig = "types:" + hashlib.sha256(json.dumps([rec["stored"], rec["opened"], rec["pos"], rec["kind"], rec["via"]], sort_keys=True).encode()).hexdigest()[:16]
        payload = {"property": ctx.prop, "kind": "contract-types", "record": rec, "what": what, "signature": sig}
        raise Violation(ctx.prop, save_replay(ctx.prop, payload), what, sig)
    ctx.cov["traces_validated_against_impl"] += 1
    log(f"types: {stats['opens']} opens ({same} with equal descriptors), all as TypesTrace.tla demands")


def check_C17(ctx):
    build()
    run_types(ctx)
    run_paths(ctx, tiered(ctx, 300, 3000))
    runs, steps = tiered(ctx, (40, 400), (400, 1200))
    run_kv_walk(ctx, "catalog", runs, steps, page_sizes="512,4096", caches="1048576,0")
    ctx.cov["distinct_nontrivial"] += sum(v for k, v in ctx.notes.get("event_kinds", {}).items() if k in ("open", "rename", "delete", "list", "ropen", "close"))
    s, _ = tlc_check(ctx, "MC_Kv", "MC_Kv_table.cfg", workers=4)
    ctx.assumptions += ["type pairs restricted to the harness's 6 normal and 4 multimap (K, V) instantiations"]
    return dict(level="model_checking", exhaustive=False,
                rule="type identity: every ordered pair of 21 key / value types (built-in; user-defined, one of them named and sized like a "
                     "built-in; tuples with the user type in every position; Option; arrays) - a table created with one and opened with the "
                     "other, normal and multimap, key and value position, write and read transaction: success iff the abstract descriptors are "
                     "equal, TableTypeMismatch otherwise (TypesTrace.tla, 3 528 opens). "
                     "random catalog histories (open with right and deliberately wrong kind/types, close in any order, rename, delete, list, "
                     "data writes, commit/abort/reopen, readers) validated event by event by TLC against the catalog rules of Kv.tla; "
                     "non-trivial = catalog operation events")


def commit_design(ctx):
    """Commit.tla: the durability protocol, every crash subset, plus its negative self-tests"""
    # (MC_Commit_rec: a second crash, i.e. during the recovery itself)
    tlc_check(ctx, "Commit", tiered(ctx, "MC_Commit.cfg", "MC_Commit_rec.cfg"), workers=6, timeout=1800)
    if ctx.tier == "thorough":
        tlc_check(ctx, "Commit", "MC_Commit_torn.cfg", workers=8, timeout=3600)
        tlc_expect_violation(ctx, "Commit", "MC_Commit_norepsync.cfg", "RecoveryOk", workers=8, timeout=1800)
    tlc_expect_violation(ctx, "Commit", "MC_Commit_nosync.cfg", "RecoveryOk", workers=4)
    tlc_expect_violation(ctx, "Commit", "MC_Commit_nonewer.cfg", "RecoveryOk", workers=4)
    # a persistent savepoint over non-durable commits: lost without the pre-flush, with or without two-phase commit
    tlc_expect_violation(ctx, "Commit", "MC_Commit_sp1pc.cfg", "RecoveryOk", workers=4)
    tlc_expect_violation(ctx, "Commit", "MC_Commit_sp2pc.cfg", "RecoveryOk", workers=4)
    # opening a file, step by step, over every header an interrupted run can leave (the decisions Commit.tla's Crash uses)
    tlc_check(ctx, "Recover", "MC_Recover.cfg", workers=4, timeout=600)
    tlc_expect_violation(ctx, "Recover", "MC_Recover_nonewer.cfg", "Newest", workers=2)
    tlaps_recover(ctx)


def run_recio(ctx, runs, steps, every):
    """The recovery as the backend sees it: every backend call of opening crash images must be a behaviour of the
    R* actions of Commit.tla (CommitTrace.tla), from the header the image held to the header in memory at the end"""
    trace = os.path.join(ctx.work, "recio.ndjson")
    p = sh([bin_path("recio"), "--seed", str(ctx.seed), "--runs", str(runs), "--steps", str(steps), "--every", str(every), "--out", trace], timeout=3600)
    stats = json.loads(p.stdout.strip().splitlines()[-1])
    log(f"recio: {stats['opens']} crash images opened on a recording backend, I/O shapes {stats['io_shapes']}")
    if len(stats["io_shapes"]) < 2 or stats["opens"] < 200:
        raise ToolError(f"vacuity: recovery I/O traces cover too little: {stats}")
    ok, info = tlc_trace_generic(ctx, "CommitTrace", trace, timeout=3600)
    ctx.cov["evaluations"] += stats["lines"]
    ctx.cov["distinct_nontrivial"] += stats["opens"]
    ctx.notes["recovery_io"] = stats
    lines = [json.loads(l) for l in open(trace)]
    if not ok:
        rec = info["record"]
        upto = lines[: info["line"]]
        start = max(i for i, l in enumerate(upto) if l["e"] == "rreset")
        what = (f"recovery protocol: opening a crash image with header {json.dumps(upto[start]['disk'])} (trees verify: {upto[start]['serv']}) made the backend calls "
                f"{json.dumps([{k: v for k, v in l.items() if k not in ('run', 'i', 'len')} for l in upto[start + 1:]])[:700]}; the last one is not a step Commit.tla allows")
        sig = "recio:" + hashlib.sha256(json.dumps([[l["e"], l.get("h"), l.get("disk")] for l in upto[start:]], sort_keys=True).encode()).hexdigest()[:16]
        payload = {"property": ctx.prop, "kind": "commitio", "seed": ctx.seed, "tier": ctx.tier, "rejected": rec, "lines": upto[start:], "what": what, "signature": sig}
        raise Violation(ctx.prop, save_replay(ctx.prop, payload), what, sig)
    ctx.cov["traces_validated_against_impl"] += stats["runs"]
    # the binding has teeth: without the flush between the repair commit's slot write and its swap the trace is rejected
    idx = next(i for i, l in enumerate(lines) if l["e"] == "rreset" and [x["e"] for x in lines[i + 1:i + 12]] == ["hdr", "sync"] * 5 + ["ropen"])
    bad = lines[:idx + 6] + lines[idx + 7:]
    btrace = trace + ".mut"
    with open(btrace, "w") as f:
        for r in bad:
            f.write(json.dumps(r) + "\n")
    ok2, info2 = tlc_trace_generic(ctx, "CommitTrace", btrace)
    if ok2 or info2["line"] != idx + 7:
        raise ToolError("self-test failed: CommitTrace accepts a recovery whose repair commit is not flushed before the swap")
    ctx.notes.setdefault("binding_selftests", []).append("CommitTrace rejects a recovery trace with the flush before the repair commit's swap removed")
    return stats


def tlaps_recover(ctx):
    """TLAPS: Sound / Newest / Available of the open-time decision for arbitrary transaction ids, and that Decide is the
    composition the theorems speak about (RecoverProofs.tla)"""
    d = os.path.join(ctx.work, "tlaps")
    os.makedirs(d, exist_ok=True)
    for f in ("RecoverProofs.tla", "RecoverOps.tla"):
        shutil.copy(os.path.join(SPEC, f), d)
    p = sh(["timeout", "900", "tlapm", "--threads", "4", "RecoverProofs.tla"], cwd=d, timeout=960, check=False)
    out = p.stdout + p.stderr
    m = re.search(r"All (\d+) obligations proved", out)
    if not m:
        raise ToolError(f"TLAPS did not prove RecoverProofs.tla:\n{out[-1500:]}")
    log(f"TLAPS RecoverProofs: all {m.group(1)} obligations proved ({p.wall:.1f}s)")
    ctx.notes["tlaps"] = {"module": "RecoverProofs", "obligations_proved": int(m.group(1))}


def resize_design(ctx):
    """Resize.tla: the file grows and shrinks while commits and crashes go on; two seeded-bad variants"""
    # (thorough: MaxQ = 12, 4 versions: 10.8 M states)
    tlc_check(ctx, "Resize", tiered(ctx, "MC_Resize.cfg", "MC_Resize_large.cfg"), workers=tiered(ctx, 6, 8), timeout=3600)
    tlc_expect_violation(ctx, "Resize", "MC_Resize_nogrowsync.cfg", "Safe", workers=2)
    tlc_expect_violation(ctx, "Resize", "MC_Resize_cutold.cfg", "ReadersWithin", workers=4)
    if ctx.tier == "thorough":
        tlc_check(ctx, "Resize", "MC_Resize_shrinkfirst.cfg", workers=6, timeout=1200)


def run_commitio(ctx, runs, steps, profile="crash", modules=("CommitTrace", "ResizeTrace")):
    """Every backend call of random histories must be a behaviour of Commit.tla (CommitTrace.tla) and keep the size
    discipline of Resize.tla (ResizeTrace.tla)"""
    trace = os.path.join(ctx.work, f"commitio-{profile}.ndjson")
    p = sh([bin_path("commitio"), "--seed", str(ctx.seed), "--runs", str(runs), "--steps", str(steps), "--profile", profile, "--out", trace], timeout=1800)
    stats = json.loads(p.stdout.strip().splitlines()[-1])
    log(f"commitio {profile}: {stats['backend_ops']} backend calls, {stats['header_writes']} header writes, {stats['commits']} commits")
    all_lines = [json.loads(l) for l in open(trace)]
    for module in modules:
        ok, info = tlc_trace_generic(ctx, module, trace, timeout=3600)
        if not ok:
            rec = info["record"]
            lines = all_lines[: info["line"]]
            start = max(i for i, l in enumerate(lines) if l["e"] == "reset")
            shown = {k: v for k, v in lines[-1].items() if k not in ("run", "i")}
            which = "durability protocol" if module == "CommitTrace" else "size discipline (set_len / region counts / page writes)"
            what = (f"{which}: backend call {json.dumps(shown)[:300]} (line {info['line'] - start} of history {rec.get('run')}) is not a step "
                    f"{module.replace('Trace', '.tla')} allows here; the calls before it: {json.dumps([l['e'] for l in lines[-12:-1]])}")
            sig = "commitio:" + hashlib.sha256(json.dumps([module, lines[start].get("cfg"), [l["e"] for l in lines[start:]]]).encode()).hexdigest()[:16]
            payload = {"property": ctx.prop, "kind": "commitio", "seed": ctx.seed, "runs": runs, "steps": steps, "profile": profile, "tier": ctx.tier,
                       "rejected": shown, "lines": lines[start:][-60:], "what": what, "signature": sig}
            raise Violation(ctx.prop, save_replay(ctx.prop, payload), what, sig)
    ctx.cov["evaluations"] += stats["backend_ops"]
    ctx.notes[f"commit_protocol_{profile}"] = stats
    ctx.cov["traces_validated_against_impl"] += stats["runs"]
    if "ResizeTrace" in modules:
        # the binding has teeth: a growing set_len whose sync is removed makes the next header write name space that is not durable
        cur, done, page = None, False, 512
        for i, l in enumerate(all_lines):
            if l["e"] == "reset":
                cur = l["len"]
                page = l["cfg"]["page_size"]
            if l["e"] == "setlen":
                if l["len"] > cur and all_lines[i + 1]["e"] == "sync":
                    j = i + 2
                    while all_lines[j]["e"] not in ("sync", "hdr", "reset"):
                        j += 1
                    # the next header write must name the new space (its counts describe more than the old length)
                    def names(h):
                        (full, trailing), (hp, mp) = h["regions"], h["geom"]
                        return 1 + full * (hp + mp) + (hp + trailing if trailing > 0 else 0)
                    if all_lines[j]["e"] == "hdr" and names(all_lines[j]["h"]) * page > cur:
                        btrace = trace + ".mut"
                        with open(btrace, "w") as f:
                            for r in all_lines[:i + 1] + all_lines[i + 2:]:
                                f.write(json.dumps(r) + "\n")
                        ok2, info2 = tlc_trace_generic(ctx, "ResizeTrace", btrace)
                        if ok2 or info2["line"] != j:
                            raise ToolError("self-test failed: ResizeTrace accepts a grow without its sync")
                        done = True
                        break
                cur = l["len"]
        grows = sum(1 for l in all_lines if l["e"] == "setlen")
        ctx.notes[f"resize_{profile}"] = {"set_len_calls": grows, "grow_without_sync_rejected": done}
        if done:
            ctx.notes.setdefault("binding_selftests", []).append("ResizeTrace rejects a trace with the sync after a growing set_len removed")
    return stats


def check_C01(ctx):
    build()
    commit_design(ctx)
    st0 = run_commitio(ctx, tiered(ctx, 12, 120), tiered(ctx, 200, 400))
    for profile in ("crashcompact", "crashsp", "pages"):
        run_commitio(ctx, tiered(ctx, 4, 40), tiered(ctx, 200, 400), profile=profile)
    if st0["commits"] < 100:
        raise ToolError(f"vacuity: too few commits in the protocol traces: {st0}")
    resize_design(ctx)
    run_opencases(ctx, tiered(ctx, (512,), (512, 1024, 4096)))
    run_recio(ctx, tiered(ctx, 4, 24), tiered(ctx, 80, 200), tiered(ctx, 5, 7))
    runs, steps = tiered(ctx, (12, 150), (60, 250))
    st = run_crash(ctx, runs, steps, recover_every=tiered(ctx, 3, 4))
    if st["probes_inside_commit"] < 10:
        raise ToolError("vacuity: hardly any crash probe fell inside a commit")
    ctx.assumptions += ["storage model of docs/design.md: fsync makes earlier writes durable, single-byte atomicity, powersafe overwrite; "
                        "XXH3-128 treated as collision free",
                        "unsynced writes: all subsets when at most 7 (quick) / 10 (thorough) are pending, otherwise none/all/each single/"
                        "in-order prefixes/random subsets; tears at byte prefixes (1, half, len-1, header field boundaries) and random "
                        "512-byte sector subsets"]
    return dict(level="fault_enumeration", exhaustive=False,
                rule="random histories (1PC/2PC/quick-repair x Durability::None/Immediate, savepoints, compaction, reopen, catalog changes; "
                     "page sizes 512-4096, cache 0/8 pages/1 MiB, one big region or 64 KiB regions) on a recording backend; at EVERY point of "
                     "the backend operation stream the crash images per the storage model are built, opened with the real code (sampled ones "
                     "crashed again during recovery), and the observation is placed in the API trace where the crash happened; TLC accepts "
                     "the trace iff every observation equals one commit point in [last durable, last requested] (Kv!CrashAtomic) and the "
                     "recovered database passes check_integrity() with unchanged contents. distinct_nontrivial = distinct (API event, "
                     "outcome) pairs judged by TLC; evaluations = crash images opened. design: Commit.tla - one action per backend "
                     "call of commit() (slot write, sync, primary swap with the two-phase flag, sync), non-durable commits, header "
                     "rewrites, and recovery (select_primary_slot + checksum fallback); a crash keeps ANY subset of the unsynced "
                     "writes: every recovery finds a servable commit point not older than the last acknowledged one; the variants "
                     "'first flush of 2PC does not reach the storage', 'recovery ignores a newer secondary' and 'a transaction that created "
                     "a persistent savepoint commits without writing its pages out first (one-phase or two-phase)' are caught. code: every "
                     "backend call of further histories (header writes decoded) is validated as a behaviour of Commit.tla "
                     "(CommitTrace.tla). recovery decisions: Recover.tla takes the open apart into its header-writing steps over every "
                     "header an interrupted run can leave (Sound, Newest, Available, Restartable); for every 3rd/4th crash image the header "
                     "before (flags, both slots' checksum / id / do the trees verify per the independent decoder, file length vs region "
                     "counts) and after the real open are recorded and RecoverTrace.tla accepts the record iff the code refused / chose / "
                     "rewrote exactly as RecoverOps.tla (the operators Commit.tla's Crash uses) says; and spec -> impl: every one of the 384 input "
                     "classes of Recover.tla (x 7 length/region-count variants x saved allocator state or none) is realised as a file, opened, "
                     "and judged the same way (refusals, the quick path, fallbacks included - crash images alone never reach the refusals).")


def pager_design(ctx):
    """The mechanism model, exhaustively, plus its two negative self-tests"""
    s, _ = tlc_check(ctx, "Pager", tiered(ctx, "MC_Pager_small.cfg", "MC_Pager_large.cfg"), workers=8, timeout=tiered(ctx, 900, 7200))
    tlc_expect_violation(ctx, "Pager", "MC_Pager_race.cfg", "Pinned")
    tlc_expect_violation(ctx, "Pager", "MC_Pager_slack.cfg", "Pinned")
    return s


def acct_count(ctx):
    return ctx.notes.get("event_kinds", {}).get("acct", 0)


def check_C02(ctx):
    build()
    pager_design(ctx)
    run_sched(ctx, "begin_read", tiered(ctx, 40, 400))
    runs, steps = tiered(ctx, (30, 500), (300, 1500))
    run_kv_walk(ctx, "reader", runs, steps, page_sizes="512,1024,4096", caches="1048576,0,4096")
    run_kv_walk(ctx, "pages", tiered(ctx, 10, 100), 600, page_sizes="512,1024", caches="0,1048576", tag="pages")
    k = ctx.notes.get("event_kinds", {})
    ctx.cov["distinct_nontrivial"] += sum(k.get(x, 0) for x in ("dump", "itnext", "get", "range", "mget", "mrange", "acct"))
    if k.get("dump", 0) < 20 or k.get("itnext", 0) < 10:
        raise ToolError(f"vacuity: too few snapshot re-reads in the walks: {k}")
    ctx.assumptions += ["thread interleavings inside one B-tree read are not controlled (only the begin_read window is forced)"]
    return dict(level="model_checking", exhaustive=True,
                rule="design: TLC explores every interleaving of reader register/read/drop, savepoint create/drop/restore and every writer "
                     "step (durable commit with epilogue, non-durable commit, abort) of Pager.tla for 4 pages x 3 transactions x 1 reader x "
                     "1 savepoint; invariant Pinned (every page a reader/savepoint/durable commit can reach is allocated in EVERY state). "
                     "code: (1) the begin_read window is forced through a pause point while commits free and reuse pages, the reader's "
                     "dump must be one commit point of the window; (2) random histories with live readers, owned iterators and guards "
                     "re-read after later commits/aborts/restores/compaction (cache 0/4 KiB/1 MiB), each re-read must equal the reader's "
                     "commit point; (3) at every transaction boundary the projected page sets satisfy Pinned/Owner1 (PagerInv.tla). "
                     "non-trivial = snapshot re-read events and accounting records")


def run_conc(ctx, runs, txns, writers=3, readers=4):
    """Real threads: writers competing for the write slot, readers beginning at any time; one linearized trace
    (reader windows from the call stamps) judged by TLC against Kv.tla"""
    trace = os.path.join(ctx.work, "conc.ndjson")
    p = sh([bin_path("conc"), "--seed", str(ctx.seed), "--runs", str(runs), "--txns", str(txns), "--writers", str(writers), "--readers", str(readers),
            "--out", trace], timeout=3600, check=False)
    if p.returncode in (-6, 134, -11, 139):
        what = f"the multi-threaded stress (writers competing for the write slot, concurrent readers) kills the process (status {p.returncode}): " + \
               " | ".join([l for l in p.stderr.splitlines() if "panicked" in l or "assert" in l][-3:])[:400]
        payload = {"property": ctx.prop, "kind": "conc", "seed": ctx.seed, "runs": runs, "txns": txns, "tier": ctx.tier, "what": what, "signature": "conc:abort"}
        raise Violation(ctx.prop, save_replay(ctx.prop, payload), what, "conc:abort")
    if p.returncode != 0:
        raise ToolError(f"conc failed ({p.returncode}): {p.stderr[-2000:]}")
    stats = json.loads(p.stdout.strip().splitlines()[-1])
    log(f"conc: {stats['commits']} commits, {stats['aborts']} aborts, {stats['readers']} readers ({stats['readers_overlapping_a_commit']} began while a "
        f"commit was running), {stats['events']} events")
    ok, info = tlc_trace(ctx, "KvTrace", trace, tag="-conc")
    ctx.cov["evaluations"] += stats["events"]
    ctx.cov["distinct_nontrivial"] += stats["readers"] + stats["commits"]
    ctx.notes["threads"] = stats
    if not ok:
        rec = info["record"]
        what = (f"threads: KvTrace rejects {rec.get('e')} {json.dumps(rec.get('obs', rec.get('r')))[:300]} of {rec.get('h', rec.get('src', 'a writer'))} "
                f"(run {rec.get('run')}, line {rec.get('i')}): not the one serial order / one frozen snapshot the calls' stamps allow")
        sig = "conc:" + str(rec.get("e"))
        payload = {"property": ctx.prop, "kind": "conc", "seed": ctx.seed, "runs": runs, "txns": txns, "tier": ctx.tier, "rejected": rec, "what": what,
                   "signature": sig}
        raise Violation(ctx.prop, save_replay(ctx.prop, payload), what, sig)
    ctx.cov["traces_validated_against_impl"] += stats["runs"]
    if stats["readers_overlapping_a_commit"] < 20:
        raise ToolError(f"vacuity: hardly any reader began while a commit was running: {stats}")
    return stats


def check_C03(ctx):
    build()
    run_conc(ctx, tiered(ctx, 6, 40), tiered(ctx, 300, 1500))
    pager_design(ctx)
    run_sched(ctx, "begin_read", tiered(ctx, 40, 400))
    # spec -> impl: behaviours TLC generates from Kv.tla (read transactions begun at any moment, reading while later
    # transactions commit, abort and restore) executed on the real code, every result compared
    run_paths(ctx, tiered(ctx, 150, 2000))
    run_kv_walk(ctx, "mixed", tiered(ctx, 30, 300), tiered(ctx, 500, 1500), page_sizes="512,4096", caches="1048576,0")
    k = ctx.notes.get("event_kinds", {})
    ctx.cov["distinct_nontrivial"] += sum(k.get(x, 0) for x in ("cend", "br", "dump", "abort"))
    ctx.assumptions += ["preemption is modelled at every lock boundary of the anchored code paths (one model action per critical section); "
                        "data races on relaxed atomics are out of reach of this technique",
                        "real threads: the begin_read window is forced through a pause point; writers competing for the write slot and readers "
                        "beginning at any time run freely (OS schedule) and are judged against the windows their call stamps allow"]
    return dict(level="model_checking", exhaustive=True,
                rule="design: Pager.tla, all interleavings (see C02) with invariants ReaderSeesCommitted (a reader's root is a committed "
                     "version not older than its registered id), single write slot (W_Begin enabled only when no writer is live), Pinned. "
                     "code: forced begin_read/commit interleavings judged by TLC (BeginReadStart/End window of Kv.tla); free-running "
                     "threads (3 writers competing for the write slot, each transaction rewriting two tables with its own number, 50% "
                     "non-durable, 15% aborted; 4 readers beginning at any time and dumping twice) linearized from call stamps: a "
                     "begin_write inside another transaction, a snapshot outside [last commit returned before the call, last commit begun "
                     "before it returned], a snapshot older than one an earlier reader saw, a torn or changing snapshot are all rejected by "
                     "TLC; behaviours generated by TLC from Kv.tla (MC_KvPaths.tla: two read transactions begun, used and dropped at any "
                     "point of write transactions that commit durably or not, abort, restore savepoints) replayed on the code with every "
                     "result compared; sequential histories "
                     "with commits of all durabilities, aborts and readers validated against the serial order of Kv.tla (hist append-only, "
                     "every transaction begun after a commit sees it)")


def check_C05(ctx):
    build()
    pager_design(ctx)
    run_kv_walk(ctx, "pages", tiered(ctx, 16, 160), 600, page_sizes="512,1024", caches="0,1048576", tag="pages")
    run_kv_walk(ctx, "savepoint", tiered(ctx, 30, 300), tiered(ctx, 400, 1200), page_sizes="512,4096")
    run_kv_walk(ctx, "spabort", tiered(ctx, 30, 300), tiered(ctx, 500, 1200), page_sizes="512,1024", caches="1048576,0")
    k = ctx.notes.get("event_kinds", {})
    ctx.cov["distinct_nontrivial"] += k.get("abort", 0) + k.get("acct", 0)
    if k.get("abort", 0) < 50 or k.get("predpanic", 0) < 8:
        raise ToolError(f"vacuity: too few abandoned transactions / panicking predicates: {k}")
    ctx.assumptions += ["panicking predicates are injected here (retain / extract_if predicates that panic after 0-4 calls: the transaction must "
                        "refuse to commit and leave no trace); operations failing part-way with an I/O error (inside rename/delete/restore) are covered by C08's fault "
                        "enumeration, not here"]
    return dict(level="model_checking", exhaustive=True,
                rule="design: Pager.tla action property AbortRestores (alloc after abort = alloc at begin) and Kv.tla (Abort changes nothing "
                     "in hist, savepoints created inside stay usable, persistent savepoint changes are undone). code: random histories with "
                     "25% abandoned transactions (abort / drop / after savepoint create, delete, restore, table create, rename, delete, "
                     "durability changes); every later call must behave as if the transaction never happened (KvTrace), and the allocated page "
                     "set recorded before and after an abandoned transaction must be EQUAL (AbortLeavesNoTrace in KvTrace.tla)")


def check_C06(ctx):
    build()
    pager_design(ctx)
    run_kv_walk(ctx, "pages", tiered(ctx, 24, 240), tiered(ctx, 600, 1500), page_sizes="512,1024,4096", caches="0,1048576", tag="pages")
    run_kv_walk(ctx, "pages", tiered(ctx, 6, 60), tiered(ctx, 800, 2000), page_sizes="512", caches="1048576", tag="pages-regions",
                extra=["--region-size", "65536"], nkeys=200)
    run_kv_walk(ctx, "savepoint", tiered(ctx, 30, 300), tiered(ctx, 500, 1500), page_sizes="512,1024", caches="1048576,0", tag="savepoint")
    run_kv_walk(ctx, "spabort", tiered(ctx, 20, 200), tiered(ctx, 500, 1200), page_sizes="512", tag="spabort")
    k = ctx.notes.get("event_kinds", {})
    ctx.cov["distinct_nontrivial"] += k.get("acct", 0)
    if k.get("acct", 0) < 200:
        raise ToolError(f"vacuity: too few accounting records: {k}")
    ctx.assumptions += ["reachable page sets come from redb's own tree walk (visit_all_pages) through the verif hooks; the independent decoder "
                        "of C10 is not used here"]
    return dict(level="model_checking", exhaustive=True,
                rule="design: Pager.tla invariants Owner1 (at every transaction boundary alloc = data + sys + pending-free lists, each page "
                     "once), Pinned, AllocRecordsOk over all histories of the small model. code: after EVERY transaction end of random "
                     "histories (all durabilities, 2PC/quick-repair, aborts, savepoints, readers, reopen, compaction) the projected state "
                     "(allocator map, reachable sets, DATA_FREED/SYSTEM_FREED/DATA_ALLOCATED tables, in-memory records, tracker) is judged by "
                     "TLC against the same invariants (PagerInv.tla), and after a settle sequence (everything dropped, 3 empty commits) all "
                     "pending-free lists must be empty (storage back to exactly what the contents need). non-trivial = accounting records")


def check_C07(ctx):
    build()
    pager_design(ctx)
    run_paths(ctx, tiered(ctx, 300, 3000))
    run_kv_walk(ctx, "savepoint", tiered(ctx, 40, 400), tiered(ctx, 500, 1500), page_sizes="512,1024,4096", caches="1048576,0")
    run_kv_walk(ctx, "pages", tiered(ctx, 10, 100), 600, page_sizes="512", tag="pages")
    run_crash(ctx, tiered(ctx, 6, 40), 120, profile="crashsp", tag="crash-savepoints", extra=["--second-every", str(tiered(ctx, 17, 5))])
    restored = sum(1 for l in open(os.path.join(ctx.work, "crash-savepoints.ndjson")) if '"psp_restored"' in l)
    ctx.notes["crash_images_with_savepoints_restored"] = restored
    if restored < 20:
        raise ToolError(f"vacuity: persistent savepoints were restored on {restored} crash images only")
    k = ctx.notes.get("event_kinds", {})
    ctx.cov["distinct_nontrivial"] += sum(k.get(x, 0) for x in ("spe", "spp", "spdel", "spreste", "sprestp", "spdrop"))
    if k.get("spreste", 0) + k.get("sprestp", 0) < 30:
        raise ToolError(f"vacuity: too few savepoint restores: {k}")
    return dict(level="model_checking", exhaustive=True,
                rule="design: Kv.tla RestoreCore (data := state at the savepoint, later savepoints invalid on commit, nothing on abort) and "
                     "Pager.tla W_Restore with Pinned/Owner1 over all orders of create/restore/drop/commit/abort. code: random histories "
                     "interleaving ephemeral and persistent savepoint create/restore/delete/drop with data transactions of all durabilities, "
                     "aborts and reopen, every result (incl. InvalidSavepoint / ImmediateDurabilityRequired) and all later contents judged by "
                     "TLC; page accounting after every transaction; crash images of histories with persistent savepoints must list exactly the "
                     "savepoints of the recovered commit point, and on sampled images (every 17th, thorough every 5th) every listed savepoint "
                     "is restored on a copy of the image and must yield exactly the state it captured")


def check_C14(ctx):
    build()
    tlc_check(ctx, "Buddy", tiered(ctx, "MC_Buddy.cfg", "MC_Buddy_large.cfg"), workers=6, timeout=tiered(ctx, 900, 7200))
    run_buddy(ctx, "tour", 8)
    for cap, steps in tiered(ctx, [(64, 3000), (24, 2000)], [(64, 20000), (24, 10000), (256, 6000), (100, 6000), (16, 20000)]):
        run_buddy(ctx, "walk", cap, steps)
    # the region tracker, observed in whole-database histories with many small regions
    run_kv_walk(ctx, "pages", tiered(ctx, 4, 40), 800, page_sizes="512", caches="1048576", tag="pages-regions", extra=["--region-size", "65536"], nkeys=200)
    ctx.assumptions += ["the allocator is driven through a thin public wrapper (redb::verif::BuddyHandle) compiled under cfg(redb_verif)",
                        "resize to a smaller length is only exercised when the cut tail is free (the implementation asserts that precondition)"]
    return dict(level="model_checking", exhaustive=True,
                rule="design: Buddy.tla over all (length, free set) states of a capacity-8 (thorough: 12) region, all operations; invariants: "
                     "the canonical free structure covers exactly the free pages with disjoint, fully merged blocks, and a request can be "
                     "refused iff nothing of that order exists. code: EVERY (state, operation) pair of the capacity-8 model is executed on the "
                     "real allocator (state rebuilt by three different routes) and TLC validates result and the allocator's own free-block "
                     "list against the specification (alloc/alloc_lowest/free/record_alloc incl. rejected ones/resize/serialize round trip); "
                     "random walks on capacities 16-256 with non-power-of-two lengths; region tracker never reports a region full for an order "
                     "its allocator can serve (RegionTrackerOk on accounting records of multi-region histories)")


def run_cache(ctx, runs, steps):
    """The page cache on its own: every call with the projection of the real state, validated against Cache.tla"""
    tlc_check(ctx, "Cache", tiered(ctx, "MC_Cache.cfg", "MC_Cache_large.cfg"), workers=tiered(ctx, 6, 8), timeout=1800)
    tlc_expect_violation(ctx, "Cache", "MC_Cache_lose.cfg", "Transparent", workers=4)
    trace = os.path.join(ctx.work, "cache.ndjson")
    p = sh([bin_path("cache"), "--seed", str(ctx.seed), "--runs", str(runs), "--steps", str(steps), "--out", trace], timeout=1800)
    stats = json.loads(p.stdout.strip().splitlines()[-1])
    log(f"cache: {stats['calls']} calls, {stats['faults_injected']} injected failures ({stats['failed_best_effort_writebacks']} best-effort "
        f"write-backs), {stats['pages_written_back_by_other_calls']} pages written back under pressure, {stats['panics']} panics")
    ok, info = tlc_trace_generic(ctx, "CacheTrace", trace, timeout=3600)
    ctx.cov["evaluations"] += stats["calls"]
    ctx.notes["page_cache"] = {k: v for k, v in stats.items() if k != "samples"}
    if not ok:
        lines = [json.loads(l) for l in open(trace).read().splitlines()[: info["line"]]]
        start = max(i for i, l in enumerate(lines) if l["e"] == "creset")
        rec = {k: v for k, v in lines[-1].items() if k != "bytes"}
        what = (f"page cache: call {json.dumps(rec)[:400]} (call {info['line'] - start - 1} of run {rec.get('run')}, budget "
                f"{lines[start].get('budget')} pages) is not a step Cache.tla allows: the cache is no longer transparent")
        sig = "cache:" + hashlib.sha256(json.dumps([[l.get("e"), l.get("o"), l.get("r")] for l in lines[start:]]).encode()).hexdigest()[:16]
        payload = {"property": ctx.prop, "kind": "cache", "seed": ctx.seed, "runs": runs, "steps": steps, "tier": ctx.tier, "rejected": rec,
                   "calls": lines[start:][-40:], "what": what, "signature": sig}
        raise Violation(ctx.prop, save_replay(ctx.prop, payload), what, sig)
    ctx.cov["traces_validated_against_impl"] += stats["runs"]
    if stats["failed_best_effort_writebacks"] < 5 or stats["faults_injected"] < 20:
        raise ToolError(f"vacuity: too few injected failures reached the cache: {stats}")
    return stats


def check_C08(ctx):
    build()
    run_cache(ctx, tiered(ctx, 60, 600), 300)
    histories, steps, stride = tiered(ctx, (3, 120, 3), (30, 250, 1))
    st = run_fault(ctx, histories, steps, stride)
    if st["errors_returned"] < 100:
        raise ToolError(f"vacuity: hardly any storage error was returned: {st}")
    ctx.assumptions += ["a failing call returns an error and has no effect on the storage (the in-memory backend fails before touching its bytes)",
                        "fault points: every stride-th backend call (quick: 3rd, thorough: every call) of each history, permanent and once"]
    return dict(level="fault_enumeration", exhaustive=False,
                rule="for each recorded history (commits of all kinds, readers kept alive, savepoints, compaction) and each sampled index k of "
                     "its backend call stream (len/read/write/set_len/sync_data) the history is re-executed with call k failing permanently / "
                     "once; the script continues (reads on live readers, begin_read, begin_write, commit attempts), everything is dropped, the "
                     "crash states of the storage at that moment are probed and the database is reopened. TLC validates every recorded call "
                     "against Kv.tla + FaultyStep: no panic; a call returns its specified result or a storage error; after an error was "
                     "returned begin_write/commit are refused; a commit that returned Ok is in the history (durable if Immediate); every "
                     "observation after reopen is one commit point >= the last acknowledged durable one, the failed commit entirely in or out. "
                     "distinct_nontrivial = faulty runs (distinct (history, k, mode)). the cache layer on its own: design Cache.tla (write "
                     "buffer + read cache over the backend; every read returns the last write whatever was buffered, evicted, written back, "
                     "flushed or failed in between; the variant that drops a page whose best-effort write-back failed is caught); code: "
                     "random calls on the real PagedCachedFile (budgets of 0 to 16 pages, injected backend failures) with the projection "
                     "of buffer, read cache, flag and backend content after every call, validated by TLC (CacheTrace.tla).")


def check_C20(ctx):
    build()
    tlc_check(ctx, "Close", "MC_Close.cfg", workers=2, timeout=300)
    tlc_expect_violation(ctx, "Close", "MC_Close_bad.cfg", "ClosedWhenDone", workers=2)
    run_contract(ctx, tiered(ctx, 6, 60), tiered(ctx, 300, 1000))
    run_readonly_strace(ctx)
    run_contract_race(ctx)
    run_contract_cut(ctx)
    # "never shrinks it below a page it still uses": Resize.tla (ReadersWithin; the variant that cuts below the superseded commit
    # is caught) and the trim rule on every set_len of growing / shrinking / compacting histories
    resize_design(ctx)
    run_commitio(ctx, tiered(ctx, 4, 30), tiered(ctx, 200, 400), profile="crashcompact", modules=("ResizeTrace",))
    ctx.assumptions += ["the read-only database is observed through strace on a real file (redb offers no read-only open on a custom backend)",
                        "calls that were already in flight when close() begins are not distinguished from calls that begin after it returned: the "
                        "monitor is sequentially consistent (one mutex)"]
    return dict(level="model_checking", exhaustive=False,
                rule="design: Backend.tla (reads/writes within the length, nothing after close, exactly one close, read-only sees no mutation) and "
                     "Close.tla (Database::drop vs end of the live write transaction, all interleavings: exactly one side closes; the non-atomic hand-off variant is caught). code: every "
                     "backend call of random histories with reopen/compaction, of failing opens (bad magic, wrong page size, truncation at several "
                     "lengths, torn geometry, both slots corrupt, aborted repair, an I/O error at EVERY call of a repairing open, permanent and "
                     "once), of a Database dropped while a write transaction is live (commit/abort/drop afterwards, readers outliving it) is "
                     "validated by TLC against Backend.tla; system calls of a read-only file database (strace) likewise; a reader forced between "
                     "the closed-check and the backend call while the Database is dropped (pause point) - a known finding; a file with a recovery "
                     "pending that was cut by k pages below the highest page its commit points use (the layout is rebuilt from the length, the "
                     "slots still name pages beyond it) - a known finding. non-trivial = scenarios")


def check_C15(ctx):
    build()
    tlc_check(ctx, "KeyOrder", "MC_KeyOrder.cfg", workers=2, timeout=900)
    trace = os.path.join(ctx.work, "keys.ndjson")
    p = sh([bin_path("keys"), "--seed", str(ctx.seed), "--size", str(tiered(ctx, 36, 90)), "--out", trace], timeout=1800)
    stats = json.loads(p.stdout.strip().splitlines()[-1])
    log(f"keys: {stats['pairs']} ordered pairs, {stats['separators']} separators ({stats['separators_shorter_than_left']} shorter than left), "
        f"{stats['round_trips']} round trips")
    ok, info = tlc_trace_generic(ctx, "KeyOrderTrace", trace)
    ctx.cov["evaluations"] += stats["events"]
    ctx.cov["distinct_nontrivial"] += stats["separators"] + stats["pairs"]
    ctx.notes["keys"] = stats
    if stats["separators_shorter_than_left"] < 100:
        raise ToolError(f"vacuity: the corpus hardly exercises separator shortening: {stats}")
    if not ok:
        rec = info["record"]
        what = f"built-in key type {rec.get('t')}: KeyOrderTrace rejects {json.dumps(rec)}"
        sig = f"keys:{rec.get('t')}:{rec.get('e')}"
        payload = {"property": ctx.prop, "kind": "keys", "seed": ctx.seed, "size": tiered(ctx, 36, 90), "record": rec, "what": what, "signature": sig}
        raise Violation(ctx.prop, save_replay(ctx.prop, payload), what, sig)
    ctx.cov["traces_validated_against_impl"] += 1
    lines = open(trace).read().splitlines()
    ctx.add_samples([json.loads(lines[i]) for i in (len(lines) // 3, 2 * len(lines) // 3)])
    ctx.assumptions += ["the order of VALUES is taken from Rust's own Ord on the native types (integers, bool, char, str, slices, Option, arrays, "
                        "tuples); the corpus, not every value, is enumerated for types wider than 8 bits",
                        "this is a family of pure functions: the specification contributes the contract and the model-checked separator rules, the "
                        "enumeration is over real encodings"]
    return dict(level="exploration", exhaustive=False,
                rule="design: KeyOrder.tla - the separator rules of &[u8], &str (char-boundary rounding), Option<T>, [T;2] transcribed and checked by "
                     "TLC for all strings up to length 3 over a 3-symbol alphabet / all UTF-8-shaped strings of 3 characters: a <= s < b, "
                     "|s| <= |a|, s valid; lexicographic order is a strict total order. code: for 26 built-in key types (ints of every width and "
                     "sign, bool, (), char, &str, String, &[u8], &[u8;4], Option of fixed and variable payloads, arrays of fixed/variable "
                     "elements, tuples) every ordered pair of a corpus with extreme, empty, equal-prefix and multi-byte values: compare() must "
                     "equal the native order (both directions), separator() must satisfy the contract and decode, from_bytes(as_bytes(v)) = v. "
                     "TLC (KeyOrderTrace.tla) judges each record. distinct_nontrivial = ordered pairs + separators")


def check_C10(ctx):
    build()
    runs, steps, images = tiered(ctx, 24, 240), tiered(ctx, 600, 1500), tiered(ctx, 10, 16)
    trace = os.path.join(ctx.work, "forest.ndjson")
    selfdir = os.path.join(ctx.work, "forest-self")
    p = sh([bin_path("forest"), "--seed", str(ctx.seed), "--runs", str(runs), "--steps", str(steps), "--images", str(images), "--out", trace,
            "--selftest", selfdir], timeout=3600)
    stats = json.loads(p.stdout.strip().splitlines()[-1])
    log(f"forest: {stats['images']} images, {stats['trees']} trees, {stats['pages']} pages, depth up to {stats['max_depth']}, "
        f"{stats['multimap_subtrees']} multimap subtrees, {stats['decode_errors']} undecodable")
    ctx.notes["forest"] = stats
    # the predicates reject damaged copies of a real image (one per clause of the property)
    rejected = {}
    for f in sorted(os.listdir(selfdir)):
        ok, info = tlc_trace_generic(ctx, "ForestTrace", os.path.join(selfdir, f), timeout=600)
        if ok:
            raise ToolError(f"Forest.tla accepts the damaged image {f}: the predicates are vacuous")
        rejected[f.replace(".ndjson", "")] = "rejected"
    ctx.notes["damaged_images"] = rejected
    if len(rejected) < 8:
        raise ToolError(f"vacuity: the histories produced no image with branch pages to damage: {rejected}")
    if stats["max_depth"] < 2 or stats["multimap_subtrees"] < 10:
        raise ToolError(f"vacuity: the images are too shallow: {stats}")
    ok, info = tlc_trace_generic(ctx, "ForestTrace", trace, timeout=3 * 3600)
    ctx.cov["evaluations"] += stats["pages"]
    ctx.cov["distinct_nontrivial"] += stats["images"]
    if not ok:
        rec = info["record"]
        line = open(trace).read().splitlines()[info["line"] - 1]
        img = json.loads(line)
        why = img.get("decode_error") or ("Forest!WellFormed is false: " + " ".join(info.get("why", [])))
        what = f"the image after step {rec.get('i')} of history {rec.get('run')} (forest --seed {ctx.seed}) is not a well-formed forest: {why}"
        payload = {"property": ctx.prop, "kind": "forest", "seed": ctx.seed, "tier": ctx.tier, "run": rec.get("run"), "i": rec.get("i"), "what": what,
                   "signature": f"forest:{rec.get('run')}:{rec.get('i')}", "image": img if len(line) < 200000 else "(large)"}
        raise Violation(ctx.prop, save_replay(ctx.prop, payload), what, payload["signature"])
    ctx.cov["traces_validated_against_impl"] += 1
    lines = open(trace).read().splitlines()
    s0 = json.loads(lines[len(lines) // 2])
    ctx.add_samples([{"run": s0["run"], "i": s0["i"], "npages": s0["npages"], "trees": [[t["name"], t["kind"], t["stored_len"], len(t["pages"])] for t in s0["trees"]]}])
    ctx.assumptions += ["the decoder (/verif/decoder) was written from docs/design.md by a separate author without redb's reader or checksum code "
                        "(its own XXH3-128); format facts the document does not give were read from the source and are listed in its README",
                        "the images are those of the in-memory backend at the return of a durable commit(), of compact() and of a clean close, "
                        "sampled evenly (quick: 10 per history)",
                        "inline multimap value sets are decoded too (their order is checked like the keys of a leaf); their own "
                        "bytes are covered by the checksum of the leaf that holds them"]
    return dict(level="exploration", exhaustive=False,
                rule="random histories (tables of 6 key/value type pairs, multimaps with inline and subtree value sets, savepoints, catalog "
                     "operations, compaction, aborts, page sizes 512/1024/4096, one or several regions); after every durable commit, compaction "
                     "and clean close the storage bytes are decoded by an independent decoder and TLC evaluates Forest!WellFormed on the decoded "
                     "image: slot checksum; per tree (data and system catalogs, every table, every multimap subtree, allocator state and "
                     "pending-free tables) keys strictly increasing under the key type's order, routing keys >= left subtree and < right "
                     "subtree, child depth = parent depth + 1, all leaves at one depth, stored count = entries present, stored checksum of every "
                     "page (as recorded by its parent / root record) = recomputed; values of inline multimap collections strictly increasing; "
                     "no page referenced twice and no overlapping extents. "
                     "evaluations = pages judged; distinct_nontrivial = images. Nine damaged copies of a real image (one per clause) must be "
                     "rejected in every run")


def run_cursor_enum(ctx, keys, length, configs, tag, sweep_base=0):
    """Every cursor session (content x bound x entry point x operation sequence) on the real table, or (sweep_base > 0)
    one session in every gap of a three-level table; TLC judges"""
    from concurrent.futures import ThreadPoolExecutor
    chunks = 12
    prefix = os.path.join(ctx.work, f"curs-{tag}")
    mode = ["--mode", "sweep", "--base", str(sweep_base)] if sweep_base else ["--keys", str(keys), "--len", str(length)]
    p = sh([bin_path("curs", "cursor")] + mode + ["--configs", str(configs), "--chunks", str(chunks), "--seed", str(ctx.seed), "--out-prefix", prefix],
           timeout=3600)
    stats = json.loads(p.stdout.strip().splitlines()[-1])
    log(f"cursor sessions {tag}: {stats['sessions']} sessions, {stats['events']} events, "
        f"{stats['inserts_accepted']} inserts accepted / {stats['inserts_refused']} refused, {stats['panics']} panics")
    files = [f"{prefix}-{c}.ndjson" for c in range(chunks)]
    with ThreadPoolExecutor(max_workers=chunks) as pool:
        results = list(pool.map(lambda a: tlc_trace(ctx, "KvTrace", a[1], timeout=4 * 3600, tag=f"-{tag}-{a[0]}"), enumerate(files)))
    for f, (ok, info) in zip(files, results):
        if not ok:
            raise kv_violation(ctx, f, info, "cursor")
    ctx.cov["evaluations"] += stats["events"]
    ctx.cov["distinct_nontrivial"] += stats["sessions"]
    ctx.cov["traces_validated_against_impl"] += stats["histories"]
    ctx.notes[f"cursor_sessions_{tag}"] = stats
    lines = open(files[0]).read().splitlines()
    ctx.add_samples([json.loads(l) for l in lines if '"e":"cur"' in l][100:102])
    if sweep_base and stats["inserts_refused"] > 0:
        raise ToolError(f"the sweep is built so that every insert falls into its gap, but {stats['inserts_refused']} were refused")
    for f in files:
        os.remove(f)
    return stats


def check_C18(ctx):
    build("cursor")
    # exhaustive: all sessions of up to 2 (quick) / 3 (thorough) operations over 3 / 4 keys
    run_cursor_enum(ctx, 3, 2, tiered(ctx, 3, 6), "k3l2")
    # every gap of a three-level table, one session each (three shapes of insert runs), every accepted key looked up
    run_cursor_enum(ctx, 0, 0, tiered(ctx, 3, 8), "sweep", sweep_base=tiered(ctx, 250, 800))
    if ctx.tier == "thorough":
        run_cursor_enum(ctx, 4, 2, 4, "k4l2")
        run_cursor_enum(ctx, 3, 3, 2, "k3l3")
    # random: long sessions with runs of inserts in both directions, all table types, large values, reopen, readers
    run_kv_walk(ctx, "cursor", tiered(ctx, 16, 160), tiered(ctx, 500, 1200), page_sizes="512,1024,4096", caches="1048576,0", nkeys=200, features="cursor")
    run_kv_walk(ctx, "cursor", tiered(ctx, 8, 80), tiered(ctx, 500, 1200), page_sizes="512,4096", nkeys=1500, tag="cursor-sparse", features="cursor")
    k = ctx.notes.get("event_kinds", {})
    if k.get("cur", 0) < 3000 or k.get("rcursor", 0) < 50:
        raise ToolError(f"vacuity: too few cursor operations in the random histories: {k}")
    ctx.assumptions += ["built with redb's experimental_cursor feature (the feature also switches the range API to KeyRange; the harness is "
                        "compiled against it in harness/target-cursor)",
                        "storage errors during a cursor session (latch_error / poisoning) are not injected here"]
    return dict(level="model_checking", exhaustive=False,
                rule="design: Kv.tla CurOpen/CurOp/CurClose/RCursor - a cursor is a set L of keys before the gap; inserts accepted iff strictly "
                     "between the neighbours (entries inserted through the cursor count at once), never overwrite; removals and moves step "
                     "over exactly the neighbour. code: EVERY session (content over 3-4 keys x every bound x lower/upper x every sequence of "
                     "up to 2 (thorough 3) of the 12-14 operations, ended by close() or drop) is executed on the real table under 3-6 "
                     "configurations (page sizes, key/value types, value sizes around a third/half page) and each call result and the "
                     "table read back after the session are validated by TLC; random histories with sessions of up to ~100 operations "
                     "(ascending insert_before runs, descending insert_after runs, direction switches, removals) on tables of up to 1500 keys, "
                     "values up to 5 pages, commits/aborts/reopen, and read-only cursors on write handles and read transactions. "
                     "distinct_nontrivial = enumerated sessions")


def check_C16(ctx):
    build()
    tlc_check(ctx, "Shared", tiered(ctx, "MC_Shared.cfg", "MC_Shared_large.cfg"), workers=8, timeout=1800)
    tlc_expect_violation(ctx, "Shared", "MC_Shared_badsp.cfg", "TrackingOk", workers=2)
    tlc_expect_violation(ctx, "Shared", "MC_Shared_badalloc.cfg", "NoSharedPage", workers=2)
    run_kv_walk(ctx, "shared", tiered(ctx, 10, 120), tiered(ctx, 500, 1200), page_sizes="512,1024,4096", caches="1048576,0")
    run_kv_walk(ctx, "shared", tiered(ctx, 3, 30), tiered(ctx, 500, 1200), page_sizes="512", tag="shared-regions", extra=["--region-size", "65536"], nkeys=200)
    par = {"sections": 0, "held_sp": 0, "held_open": 0, "infeasible": 0, "savepoints_ok": 0, "savepoints_refused": 0, "restores": 0}
    for tag in ("shared", "shared-regions"):
        for l in open(os.path.join(ctx.work, f"walk-{tag}.ndjson")):
            if '"par"' in l and '"note"' in l:
                e = json.loads(l)
                par["sections"] += 1
                par["held_sp"] += e["hold"] == "sp" and e["held"]
                par["held_open"] += e["hold"] == "open" and e["held"]
                par["infeasible"] += not e["feasible"]
            elif '"e":"spe"' in l:
                par["savepoints_ok" if '"ok"' in l else "savepoints_refused"] += 1
            elif '"e":"spreste"' in l:
                par["restores"] += 1
    ctx.notes["parallel_sections"] = par
    ctx.cov["distinct_nontrivial"] += par["sections"]
    if par["sections"] < 100 or par["held_sp"] < 20 or par["savepoints_ok"] < 20 or par["restores"] < 10:
        raise ToolError(f"vacuity: too few multi-threaded sections / forced schedules: {par}")
    ctx.assumptions += ["operations on DIFFERENT tables of one transaction commute in Kv.tla, so a trace that lists them in the order of their end "
                        "stamps is a linearization; only savepoint calls are order-sensitive (before / after the transaction turns dirty) and are "
                        "placed as explained in harness/src/exec.rs (\"par\")",
                        "interleavings inside the page allocator and the cache are exercised by real threads, not controlled; the savepoint / "
                        "first-open race is forced through two pause points"]
    return dict(level="model_checking", exhaustive=False,
                rule="design: Shared.tla - workers opening their table (set_dirty), allocating from the shared allocator, merging their freed "
                     "pages, while another thread creates and drops savepoints; every interleaving of the critical sections of 2 (thorough 3) "
                     "workers: NoSharedPage, Accounting (every page free / owned once / freed once), TrackingOk (a live savepoint implies "
                     "allocation tracking), Eligibility; the unlocked-savepoint and unlocked-allocation variants are caught. code: random "
                     "histories in which 70% of the write transactions start with a multi-threaded section (2-4 threads each opening and "
                     "mutating its own table or multimap, 1-60 operations, a further thread making/dropping ephemeral savepoints), 30% of them "
                     "with a forced schedule (savepoint call held after its dirty check while the others open; first open held inside "
                     "set_dirty while the savepoint thread calls); results of every call, later contents, restore of the savepoints made there "
                     "(same transaction and later ones), commit/abort, and the page accounting after every transaction (no page owned twice, "
                     "nothing leaked, allocation records) are judged by TLC (Kv.tla + PagerInv.tla). distinct_nontrivial = multi-threaded sections")


def check_C19(ctx):
    build()
    runs, steps = tiered(ctx, 8, 30), tiered(ctx, 200, 300)
    notes = {}
    for direction, extra in (("current-writes-3.0.0-reads", ["--reader", "3"]), ("3.0.0-writes-current-reads", ["--writer", "3"])):
        # (crashspburst: the savepoint counter passes 256 while persistent savepoints exist - system-table keys of more than one byte)
        for profile in ("crash", "crashsp", "crashspburst") + (("crashcompact",) if direction.startswith("current") else ()):
            nruns = runs if profile == "crash" else 2 if profile == "crashspburst" else max(2, runs // 2)
            st = run_crash(ctx, nruns, steps if profile != "crashspburst" else 60, profile=profile, tag=f"{direction}-{profile}", extra=extra)
            notes[f"{direction}/{profile}"] = {k: st.get(k) for k in ("runs", "images", "crash_points", "distinct_probes", "images_the_writer_cannot_open")}
    ctx.notes["cross_release"] = notes
    ctx.assumptions += ["redb 3.0.0 is the crate of that version in the local cargo registry, linked into the harness next to the current code; both see "
                        "the same in-memory storage through their own StorageBackend traits",
                        "3.0.0 cannot choose a page size: cross-release histories use 4 KiB pages and the default region size",
                        "histories written by 3.0.0 use the part of the step vocabulary 3.0.0 shares (transactions of all durabilities, 2PC, "
                        "quick repair, tables and multimaps of all key/value types of the corpora incl. long variable-width keys, "
                        "insert/remove/pop/remove_all, rename/delete, persistent savepoints); a crash image that 3.0.0 itself cannot open "
                        "(it does not sync a file growth before the header that relies on it) is not a file 3.0.0 recovers and is skipped"]
    return dict(level="fault_enumeration", exhaustive=False,
                rule="both directions: a random history is executed by one release on a recording backend; the file after the clean close and "
                     "every crash image of every backend-operation boundary (storage model of C01) is opened by the OTHER release: it must open, "
                     "show exactly one commit point of the history between the last durable and the last requested commit (Kv!CrashAtomic, "
                     "judged by TLC), show the same contents as the writing release shows for that image (peer_same), pass check_integrity() "
                     "with unchanged contents, and accept a further write transaction followed by a clean close and reopen. "
                     "evaluations = images opened; distinct_nontrivial = distinct outcomes per crash point")


def check_C11(ctx):
    build()
    run_known_scripts(ctx)
    # design: a crash inside any critical section of the page-ownership model, recovery = rebuild from the durable commit
    tlc_check(ctx, "PagerCrash", "MC_PagerCrash.cfg", workers=8, timeout=3600)
    tlc_expect_violation(ctx, "PagerCrash", "MC_PagerCrash_bad.cfg", "Owner1", workers=4)
    # the size of the file: layout rebuilt from the length on a recovery, counts trusted after a clean close (Resize.tla), and
    # the discipline that makes this safe observed on every backend call of histories that grow, shrink and compact
    resize_design(ctx)
    run_commitio(ctx, tiered(ctx, 4, 30), tiered(ctx, 200, 400), profile="crashcompact", modules=("ResizeTrace",))
    # which open path is taken: the saved allocator state is used iff the two-phase flag is set and the snapshot's transaction id is
    # the primary's (read by the independent decoder) - RecoverTrace.tla on files built for every input class and on crash images
    run_opencases(ctx, tiered(ctx, (512,), (512, 4096)))
    st = run_crash(ctx, tiered(ctx, 10, 50), tiered(ctx, 140, 250), extra=["--second-every", str(tiered(ctx, 31, 11))], recover_every=tiered(ctx, 3, 4))
    run_kv_walk(ctx, "reopen", tiered(ctx, 24, 240), tiered(ctx, 500, 1500), page_sizes="512,1024,4096", caches="1048576,0")
    run_kv_walk(ctx, "reopen", tiered(ctx, 6, 60), 800, page_sizes="512", caches="1048576", tag="reopen-regions", extra=["--region-size", "65536"], nkeys=200)
    k = ctx.notes.get("event_kinds", {})
    ctx.cov["distinct_nontrivial"] += k.get("reopen", 0) + k.get("integrity", 0)
    if k.get("reopen", 0) < 100:
        raise ToolError(f"vacuity: too few reopens: {k}")
    ctx.assumptions += ["crash images per the storage model of C01; the accounting of the recovered database is taken on a sample of the images "
                        "(every 31st in quick, every 7th in thorough), check_integrity() on all of them"]
    return dict(level="fault_enumeration", exhaustive=False,
                rule="design: Resize.tla (file length vs region counts vs layout in memory across grow / shrinking commit / clean close / crash: "
                     "every open finds a layout that covers the commits it may serve; two seeded-bad variants caught) and its discipline checked on "
                     "every backend call of compacting histories (ResizeTrace.tla); the layout adopted by real opens and the open path taken (saved allocator state used iff two-phase flag and the snapshot's "
                     "transaction id, read by the independent decoder, is the primary's) are judged by RecoverTrace.tla on files realising every "
                     "input class of Recover.tla and on sampled crash images. "
                     "PagerCrash.tla = Pager.tla plus a crash inside any critical section, recovery rebuilding the allocator "
                     "state from the durable commit's trees and pending-free tables: Owner1 / Pinned / AllocRecordsOk / DurableIntact in the "
                     "recovered state and everything reachable from it (811 590 states); the variant that forgets the pending-free "
                     "tables is caught. code: every way of stopping a history (clean close; crash at every backend operation under 1PC / 2PC / quick-repair commits, with "
                     "the crash images of C01; crash again during recovery) followed by an open: the recovered database must pass "
                     "check_integrity() with Ok(true) and unchanged contents (every image); on sampled images the allocator state right after the "
                     "open is projected and TLC requires alloc = exactly the pages owned by trees and pending-free records (Owner1 of "
                     "PagerInv.tla - a stale or foreign allocation snapshot shows up as a leak or a double owner), and a transaction written "
                     "after the recovery leaves all earlier contents intact; histories with frequent clean reopen and repeated "
                     "check_integrity() judged by Kv.tla, with the same accounting after every open. distinct_nontrivial = distinct probe "
                     "outcomes + reopen/integrity events")


def run_known_scripts(ctx):
    """Deterministic reproductions of the listed findings of this property (/verif/known/<ID>_<signature>.json: a script for `kv`):
    each is run and judged by KvTrace; the deviation is named in the specification and reported through a KNOWN marker, so the
    check prints its KNOWN-FINDING line on every run of the unchanged tree - and stops printing it once the code no longer deviates"""
    d = os.path.join(ROOT, "known")
    for f in sorted(os.listdir(d)) if os.path.isdir(d) else []:
        if not f.startswith(ctx.prop + "_"):
            continue
        trace = os.path.join(ctx.work, f"known-{f[:-5]}.ndjson")
        p = sh([bin_path("kv"), "--script", os.path.join(d, f), "--out", trace], timeout=900, check=False)
        if p.returncode != 0:
            raise ToolError(f"known-finding script {f} failed to run: {p.stderr[-800:]}")
        ok, info = tlc_trace(ctx, "KvTrace", trace, tag="-known")
        ctx.cov["evaluations"] += sum(1 for _ in open(trace))
        if not ok:
            raise kv_violation(ctx, trace, info)


def check_C13(ctx):
    build()
    run_known_scripts(ctx)
    # design: compact() as an algorithm on page positions, every forest shape and placement: terminates, no two pages on one
    # position, not longer at the end, no hole; a single pass may extend the file (documented as an expected violation)
    tlc_check(ctx, "Compact", tiered(ctx, "MC_Compact.cfg", "MC_Compact_large.cfg"), workers=6, timeout=3000)
    tlc_expect_violation(ctx, "Compact", "MC_Compact_grows.cfg", "NeverLonger", workers=2)
    run_kv_walk(ctx, "compact", tiered(ctx, 30, 300), tiered(ctx, 600, 1500), page_sizes="512,1024,4096", caches="1048576,0")
    run_kv_walk(ctx, "compact", tiered(ctx, 8, 80), tiered(ctx, 900, 2000), page_sizes="512", tag="compact-regions", extra=["--region-size", "65536"], nkeys=200)
    k = dict(ctx.notes.get("event_kinds", {}))
    run_crash(ctx, tiered(ctx, 8, 40), tiered(ctx, 150, 250), profile="crashcompact", tag="crash-compaction")
    ctx.cov["distinct_nontrivial"] += k.get("compact", 0)
    if k.get("compact", 0) < 40:
        raise ToolError(f"vacuity: too few compactions: {k}")
    ctx.assumptions += ["'bounded number of passes' is checked as: sync_data calls during one compact() <= 8 * (pages of the file + 8)"]
    return dict(level="fault_enumeration", exhaustive=False,
                rule="design: Compact.tla - the relocation loop of compact() on page positions for every forest of 4 (thorough: 5) pages and "
                     "every placement: it terminates, positions stay distinct, the file ends no longer than it began and without a hole "
                     "(a single pass may extend it). code: a compact() that does not finish is ended by a watchdog and reported with its "
                     "script; compact() called again at once must report that nothing moved; "
                     "histories that fragment the file (inserts/deletes of values up to 5 pages, multimaps with subtrees, non-durable commits "
                     "pending, one large region or many 64 KiB regions) interleaved with compact(): TLC (Kv!Compact) requires the refusal "
                     "variants in their documented order, contents unchanged afterwards (every later read and the dump after reopen), the "
                     "storage length not larger than before, the number of syncs bounded by the file size; page accounting after every "
                     "transaction; and every crash image of every backend operation issued during compaction recovers to the unchanged "
                     "contents (crash enumeration of C01 on compaction-heavy histories)")


def check_C12(ctx):
    build()
    st = run_corrupt(ctx, tiered(ctx, 2, 12), tiered(ctx, 90, 200))
    if st["rejected_with_error"] + st["panics"] < 1000:
        raise ToolError(f"vacuity: hardly any alteration was noticed: {st}")
    ctx.assumptions += ["alterations enumerated: every bit of the 320-byte header; every byte of the file x {xor 0x01, xor 0x80, 0x00, 0xff}; random "
                        "runs of 2/7/16/64 bytes at every 16-byte offset; all pairs of the first 40 (thorough: 120) pages swapped",
                        "a panic while opening or checking an altered image is counted (evidence key panics) and treated like an error: the "
                        "property forbids a false Ok(true), not a loud failure"]
    return dict(level="fault_enumeration", exhaustive=False,
                rule="for each cleanly closed image (compacted first, so the sweep over EVERY byte of the file is complete) of recorded histories "
                     "(tables, multimaps with subtrees, persistent savepoints): all alterations of the stated classes; each altered image is opened, "
                     "check_integrity() is called and all contents are read back (every byte of every value compared); TLC (Kv!CorruptProbe) "
                     "requires: Ok(true) or Ok(false) only if the served contents are exactly one commit point of the history, and after "
                     "Ok(false) a second check returns Ok(true) with the same contents. distinct_nontrivial = distinct outcomes judged by TLC; "
                     "evaluations = altered images probed")


PROPS = {
    "C01": check_C01,
    "C12": check_C12,
    "C11": check_C11,
    "C13": check_C13,
    "C15": check_C15,
    "C20": check_C20,
    "C08": check_C08,
    "C14": check_C14,
    "C02": check_C02,
    "C03": check_C03,
    "C05": check_C05,
    "C06": check_C06,
    "C07": check_C07,
    "C04": check_C04,
    "C09": check_C09,
    "C10": check_C10,
    "C16": check_C16,
    "C18": check_C18,
    "C19": check_C19,
    "C17": check_C17,
}


def main(argv):
    if not argv:
        print(__doc__)
        return 2
    prop = argv[0]
    tier = os.environ.get("VERIF_TIER", "quick")
    replay = None
    i = 1
    while i < len(argv):
        if argv[i] == "--tier":
            tier = argv[i + 1]
            i += 2
        elif argv[i] == "--replay":
            replay = argv[i + 1]
            i += 2
        else:
            print("unknown argument", argv[i])
            return 2
    seed = int(os.environ.get("VERIF_SEED", "1"))
    if prop not in PROPS:
        print("unknown property", prop)
        return 2
    ctx = Ctx(prop, tier, seed)
    try:
        if replay:
            build()
            payload = json.load(open(replay))
            if payload.get("kind") == "crash-case":
                still = replay_crash_case(ctx, replay)
            elif payload.get("kind") == "sched":
                still = replay_sched(ctx, payload)
            elif payload.get("kind", "").startswith("contract") or payload.get("kind") in ("keys", "forest", "commitio", "conc", "cache", "paths"):
                ctx.seed = payload.get("seed", ctx.seed)
                ctx.tier = payload.get("tier", ctx.tier)
                try:
                    PROPS[prop](ctx)
                    still = False
                except Violation:
                    still = True
            elif payload.get("kind") == "fault":
                still = replay_fault(ctx, replay)
            elif payload.get("kind") == "corrupt":
                still = replay_corrupt(ctx, replay)
            elif payload.get("kind") == "buddy":
                still = replay_buddy(ctx, payload)
            else:
                if payload.get("features"):
                    build(payload["features"])
                still = replay_kv_script(ctx, payload, payload.get("features"))
            if still:
                print(f"VIOLATION property={prop} replay={replay}")
                return 1
            print("replay no longer fails")
            return 0
        res = PROPS[prop](ctx)
        path = write_evidence(ctx, res["level"], res["rule"], explanation=res.get("explanation"), exhaustive=res.get("exhaustive", False),
                              checker_cmd=f"./check {prop} --tier {tier}")
        for k in ctx.known_hits:
            # (a history of this check may run into a listed deviation that belongs to another property - e.g. a compact() step
            # in a crash history: that is the other check's finding to report; here it is only noted in the evidence)
            if k.startswith(f"property={prop} "):
                print(f"KNOWN-FINDING: {k}")
        log(f"{prop} ok; evidence {path}; {time.time() - ctx.t0:.0f}s")
        return 0
    except Violation as v:
        for k in load_known():
            if k.get("property") == prop and k.get("kind") == "known" and k.get("signature") == v.signature:
                print(f"KNOWN-FINDING: property={prop} {k.get('what')}")
                write_evidence(ctx, claimed_level(prop), "known finding reproduced", explanation=v.what)
                return 0
        ctx.violations = 1
        ctx.notes["violation"] = v.what
        write_evidence(ctx, claimed_level(prop), "violation found", explanation=v.what)
        print(v.what)
        print(f"VIOLATION property={prop} replay={v.replay_path}")
        return 1
    except ToolError as e:
        print("TOOL ERROR:", e, file=sys.stderr)
        return 2
    finally:
        ctx.cleanup()
