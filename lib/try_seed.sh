#!/bin/bash
# usage: try_seed.sh <seed name> <check id>...   runs the checks against /repo with the seeded change applied
NAME="$1"; shift
cd /verif
OUT=seeded/$NAME/detection.txt
for id in "$@"; do
  res=$(./lib/with_patch.sh seeded/$NAME/patch.diff ./check $id 2>&1 | grep -v "^KNOWN-FINDING" | tail -3)
  if echo "$res" | grep -q "^VIOLATION property="; then verdict=DETECTED; else verdict=MISSED; fi
  echo "$(date +%H:%M) check $id vs seed $NAME: $verdict :: $(echo "$res" | tr '\n' ' ' | cut -c1-400)" >> $OUT
done
rm -rf replays
git -C /verif checkout -- evidence 2>/dev/null   # evidence is only ever committed from runs on the unchanged tree
