#!/bin/bash
# usage: with_patch.sh <patch.diff> <command...>
# Applies a patch to /repo (which must be clean), runs the command from /verif, always reverts.
set -u
PATCH="$(readlink -f "$1")"; shift
if [ -n "$(git -C /repo status --porcelain)" ]; then echo "/repo is not clean" >&2; exit 2; fi
git -C /repo apply "$PATCH" || { echo "patch does not apply" >&2; exit 2; }
( cd /verif && "$@" ); rc=$?
git -C /repo checkout -- .
git -C /repo status --porcelain | grep -q . && echo "WARNING: /repo not clean after revert" >&2
exit $rc
