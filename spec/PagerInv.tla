------------------------------ MODULE PagerInv ------------------------------
(***************************************************************************)
(* Page-ownership invariants over a projected state ("accounting record"): *)
(* the same definitions are evaluated on the states of the mechanism model *)
(* (Pager.tla, through its projection) and on the records the harness      *)
(* projects from the real redb at every transaction boundary               *)
(* (KvTrace.tla, event "acct").                                            *)
(*                                                                         *)
(* A record a has (pages are order-0 page ids, lists without order):       *)
(*   alloc       pages the allocator holds                                 *)
(*   data, sys   pages reachable from the current data / system roots      *)
(*   dfreed, sfreed, unp_freed   pending-free lists: <<txn, pages>> each   *)
(*   atbl, unp_allocs            allocation records: <<txn, pages>> each   *)
(*   unp_pages, post             pages of non-durable commits / epilogue   *)
(*   durable_data, durable_sys   pages of the last durable commit          *)
(*   readers [h, id, pages], sps [s, pages]   what live handles pin        *)
(*   tracker, hdr                projections of tracker and header         *)
(***************************************************************************)
EXTENDS Naturals, Sequences, FiniteSets, TLC

SetOf(s) == {s[i] : i \in 1..Len(s)}
UnionOf(m) == UNION {SetOf(m[i][2]) : i \in 1..Len(m)}

RECURSIVE SumLens(_, _)
SumLens(m, i) == IF i > Len(m) THEN 0 ELSE Len(m[i][2]) + SumLens(m, i + 1)

Owners(a) == SetOf(a.data) \cup SetOf(a.sys) \cup UnionOf(a.dfreed) \cup UnionOf(a.sfreed) \cup UnionOf(a.unp_freed)

\* C06: every allocated page has exactly one owner, every other page is free
\* (needs_repair: a write transaction was dropped while a panic unwound through it - its rollback is skipped and its
\* pages stay allocated, owned by nothing, until the database is reopened; the latch forbids recording a clean shutdown
\* or an allocator snapshot meanwhile.  Only then may the allocator hold more than the owners.)
Owner1(a) ==
  /\ IF "needs_repair" \in DOMAIN a /\ a.needs_repair THEN Owners(a) \subseteq SetOf(a.alloc) ELSE SetOf(a.alloc) = Owners(a)
  /\ Len(a.data) + Len(a.sys) + SumLens(a.dfreed, 1) + SumLens(a.sfreed, 1) + SumLens(a.unp_freed, 1)
       = Cardinality(Owners(a))

\* C02/C06/C07: whatever a durable commit, a live reader or a savepoint can reach stays allocated
Pinned(a) ==
  /\ SetOf(a.durable_data) \subseteq SetOf(a.alloc)
  /\ SetOf(a.durable_sys) \subseteq SetOf(a.alloc)
  /\ \A i \in 1..Len(a.readers) : SetOf(a.readers[i].pages) \subseteq SetOf(a.alloc)
  /\ \A i \in 1..Len(a.sps) : SetOf(a.sps[i].pages) \subseteq SetOf(a.alloc)

\* the bookkeeping of allocations never names a free page
AllocRecordsOk(a) ==
  /\ UnionOf(a.atbl) \subseteq SetOf(a.alloc)
  /\ UnionOf(a.unp_allocs) \subseteq SetOf(a.alloc)
  /\ SetOf(a.unp_pages) \subseteq SetOf(a.alloc)
  /\ SetOf(a.post) \subseteq SetOf(a.unp_pages)

\* every live reader is registered under its id
ReadersRegistered(a) ==
  \A i \in 1..Len(a.readers) :
    \E j \in 1..Len(a.tracker.live_reads) :
      /\ a.tracker.live_reads[j][1] = a.readers[i].id
      /\ a.tracker.live_reads[j][2] >= Cardinality({k \in 1..Len(a.readers) : a.readers[k].id = a.readers[i].id})

\* once readers and savepoints are gone and the settle commits have run, nothing is pending:
\* storage use is back to exactly what the contents need
Settled(a) ==
  a.settled =>
    /\ Len(a.dfreed) = 0 /\ Len(a.sfreed) = 0 /\ Len(a.unp_freed) = 0
    /\ Len(a.unp_pages) = 0 /\ Len(a.tracker.pending_nd) = 0
    /\ Len(a.tracker.live_reads) = 0

\* C14: the region tracker is optimistic - it may believe a full region has space, but it never
\* reports a region full for an order at which the region's allocator still has a free block
RegionTrackerOk(a) ==
  \A r \in 1..Len(a.regions) :
    \A i \in 1..Len(a.regions[r][2]) : a.regions[r][2][i] > a.regions[r][1]

Check(name, ok, a) == IF ok THEN TRUE ELSE PrintT(<<"INVARIANT", name, a.i, a.run>>) /\ FALSE

AcctOk(a) ==
  IF "unavailable" \in DOMAIN a THEN TRUE
  ELSE
     /\ Check("Owner1", Owner1(a), a)
     /\ Check("Pinned", Pinned(a), a)
     /\ Check("AllocRecordsOk", AllocRecordsOk(a), a)
     /\ Check("ReadersRegistered", ReadersRegistered(a), a)
     /\ Check("Settled", Settled(a), a)
     /\ Check("RegionTrackerOk", RegionTrackerOk(a), a)

=============================================================================
