SPECIFICATION TraceSpec
INVARIANT TypeOK
POSTCONDITION TraceAccepted
CHECK_DEADLOCK FALSE
