---------------------------- MODULE ForestTrace ----------------------------
(* every decoded image of a recorded history must be WellFormed (C10) *)
EXTENDS Forest, Json, IOUtils

FRec == ndJsonDeserialize(IOEnv.TRACE)
VARIABLE l

Which(img) ==
  IF ~img.slot_ok THEN "slot checksum"
  ELSE IF ~NoSharing(img) THEN "page referenced twice / overlapping pages"
  ELSE LET bad == {t \in 1..Len(img.trees) : ~TreeOk(img.trees[t])} IN
       IF bad = {} THEN "?" ELSE
       LET t == img.trees[CHOOSE x \in bad : TRUE] IN
       IF ~Shape(t) THEN <<t.name, "shape">>
       ELSE IF ~Balanced(t) THEN <<t.name, "leaves at different depths">>
       ELSE IF ~Counted(t) THEN <<t.name, "stored entry count", t.stored_len, t.counted>>
       ELSE IF \E p \in SeqSet(t.pages) : ~p.ck THEN <<t.name, "checksum">>
       ELSE IF \E p \in SeqSet(t.pages) : ~Increasing(p.keys) THEN <<t.name, "keys not increasing">>
       ELSE IF \E p \in SeqSet(t.pages) : ~InlineOk(p) THEN <<t.name, "inline multimap values not increasing">>
       ELSE <<t.name, "routing key does not bound its subtrees">>

RecOk(R) ==
  CASE R.e = "image" -> IF WellFormed(R) THEN TRUE ELSE PrintT(<<"ILLFORMED", R.run, R.i, Which(R)>>) /\ FALSE
    [] R.e = "note" -> TRUE

TraceInit == l = 1
Step == l <= Len(FRec) /\ RecOk(FRec[l]) /\ l' = l + 1
TraceSpec == TraceInit /\ [][Step]_l

TraceAccepted ==
  LET d == TLCGet("stats").diameter IN
  IF d - 1 = Len(FRec) THEN TRUE
  ELSE Print(<<"REJECT", d, ToJson([e |-> FRec[d].e, run |-> FRec[d].run, i |-> FRec[d].i])>>, FALSE)
=============================================================================
