--------------------------- MODULE BackendTrace ---------------------------
(* Trace validation of the calls redb makes on a monitored backend against Backend.tla *)
EXTENDS Backend, Json, IOUtils

KRec == ndJsonDeserialize(IOEnv.TRACE)
VARIABLE l
tvars == <<bkVars, l>>
R == KRec[l]

TraceInit == Init /\ l = 1

Step ==
  /\ l <= Len(KRec) /\ l' = l + 1
  /\ \/ R.e = "bopen" /\ Open(R.len, R.ro)
     \/ R.e = "len" /\ CallLen
     \/ R.e = "read" /\ Read(R.a, R.b)
     \/ R.e = "write" /\ Write(R.a, R.b)
     \/ R.e = "set_len" /\ SetLen(R.a)
     \/ R.e = "sync" /\ Sync
     \/ R.e = "close" /\ Close
     \/ R.e = "bdone" /\ Done
     \/ R.e = "note" /\ UNCHANGED bkVars

TraceSpec == TraceInit /\ [][Step]_tvars

TraceAccepted ==
  LET d == TLCGet("stats").diameter IN
  IF d - 1 = Len(KRec) THEN TRUE
  ELSE Print(<<"REJECT", d, ToJson(KRec[d])>>, FALSE)
=============================================================================
