SPECIFICATION Spec
CONSTANTS H = 1
          M = 3
          MaxQ = 10
          MaxVer = 3
          MaxCrash = 2
          GrowSync = TRUE
          ShrinkFirst = TRUE
          ShrinkKeepsOld = TRUE
INVARIANTS Safe WithinStorage DurableCovers ReadersWithin
CHECK_DEADLOCK FALSE
