SPECIFICATION PSpec
CONSTANTS Names = {"a", "b"}
          PathLen = 26
INVARIANT Emit
CHECK_DEADLOCK FALSE
