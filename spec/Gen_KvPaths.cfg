SPECIFICATION PSpec
CONSTANTS Names = {"a", "b"}
          PathLen = 22
INVARIANT Emit
CHECK_DEADLOCK FALSE
