SPECIFICATION Spec
CONSTANTS MaxVer = 2
          MaxParts = 2
          MaxCrash = 1
          MaxGrow = 1
          TornHeader = TRUE
          SyncBeforeFlip = TRUE
          PickNewer = TRUE
          SavepointTwoPhase = FALSE
          RepairSync = TRUE
          SavepointPreFlush = TRUE
INVARIANTS TypeOK RecoveryOk PrimaryServable AckedDurable
CHECK_DEADLOCK FALSE
