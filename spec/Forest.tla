------------------------------- MODULE Forest -------------------------------
(***************************************************************************)
(* C10 - what "a well-formed, checksummed forest" means, as predicates     *)
(* over a decoded image.  The image is produced from the storage bytes by  *)
(* /verif/decoder (written from docs/design.md, sharing no code with redb) *)
(* and normalised by the harness: every key becomes a sequence of naturals *)
(* ordered lexicographically (bytes of byte-string / str keys; the (hi,lo) *)
(* 31-bit halves of u64-like keys, so that numeric order is lexicographic).*)
(*                                                                         *)
(*  img.slot_ok      the commit slot's stored checksum matches its bytes   *)
(*  img.trees[t]     [name, kind, stored_len, counted, root, pages]        *)
(*  pages[p]         [id, t ("l" | "b"), d (depth), keys, ch (child ids),  *)
(*                    ck (stored checksum = recomputed checksum),          *)
(*                    lo, n (first order-0 page number and extent),        *)
(*                    inl (leaves of multimap tables: per entry the values *)
(*                    of its inline collection in stored order, <<>> for a *)
(*                    subtree collection)]                                 *)
(***************************************************************************)
EXTENDS Naturals, Sequences, FiniteSets, TLC

RECURSIVE LexLess(_, _)
LexLess(a, b) ==
  IF b = <<>> THEN FALSE
  ELSE IF a = <<>> THEN TRUE
  ELSE IF a[1] < b[1] THEN TRUE
  ELSE IF a[1] > b[1] THEN FALSE
  ELSE LexLess(Tail(a), Tail(b))
LexLeq(a, b) == a = b \/ LexLess(a, b)

SeqSet(s) == {s[i] : i \in 1..Len(s)}

\* keys strictly increasing inside a page
Increasing(ks) == \A i \in 1..(Len(ks) - 1) : LexLess(ks[i], ks[i + 1])

PageOf(tree, id) == CHOOSE p \in SeqSet(tree.pages) : p.id = id

RECURSIVE KeysBelow(_, _)
KeysBelow(tree, p) ==
  IF p.t = "l" THEN SeqSet(p.keys)
  ELSE UNION {KeysBelow(tree, PageOf(tree, p.ch[i])) : i \in 1..Len(p.ch)}

\* a routing key sorts at or above every key of the child before it and below every key of the
\* child after it
RoutingOk(tree, p) ==
  p.t = "b" =>
    /\ Len(p.ch) = Len(p.keys) + 1
    /\ \A j \in 1..Len(p.keys) :
         /\ \A x \in KeysBelow(tree, PageOf(tree, p.ch[j])) : LexLeq(x, p.keys[j])
         /\ \A x \in KeysBelow(tree, PageOf(tree, p.ch[j + 1])) : LexLess(p.keys[j], x)

\* every child pointer leads to a page of this tree one level down; the root is at depth 0
Shape(tree) ==
  /\ \A p \in SeqSet(tree.pages) :
       p.t = "b" => \A i \in 1..Len(p.ch) :
                       \E q \in SeqSet(tree.pages) : q.id = p.ch[i] /\ q.d = p.d + 1
  /\ tree.root >= 0 => (\E p \in SeqSet(tree.pages) : p.id = tree.root /\ p.d = 0)
  /\ tree.root < 0 => Len(tree.pages) = 0

\* all leaves at the same depth
Balanced(tree) == \A p, q \in SeqSet(tree.pages) : (p.t = "l" /\ q.t = "l") => p.d = q.d

\* the stored entry count is the number of entries present
Counted(tree) == tree.stored_len = tree.counted

\* the values of a key that are stored inline are a strictly increasing list, like the keys of a leaf
InlineOk(p) == \A i \in 1..Len(p.inl) : Increasing(p.inl[i])

TreeOk(tree) ==
  /\ Shape(tree) /\ Balanced(tree) /\ Counted(tree)
  /\ \A p \in SeqSet(tree.pages) : p.ck /\ Increasing(p.keys) /\ RoutingOk(tree, p) /\ InlineOk(p)

AllPages(img) == UNION {SeqSet(img.trees[t].pages) : t \in 1..Len(img.trees)}

\* no page is referenced twice, and no two referenced pages overlap
NoSharing(img) ==
  LET ps == AllPages(img) IN
  /\ Cardinality({p.id : p \in ps}) = Cardinality(ps)
  /\ \A p, q \in ps : p.id # q.id => (p.lo + p.n <= q.lo \/ q.lo + q.n <= p.lo)
  /\ Cardinality(ps) = img.npages          \* as many distinct pages as page references

WellFormed(img) ==
  /\ img.slot_ok
  /\ \A t \in 1..Len(img.trees) : TreeOk(img.trees[t])
  /\ NoSharing(img)

=============================================================================
