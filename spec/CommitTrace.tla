---------------------------- MODULE CommitTrace ----------------------------
(***************************************************************************)
(* Trace validation of the durability protocol: every call the real code   *)
(* makes on the storage backend (recorded by harness/src/bin/commitio.rs:  *)
(* page write, header write with god byte and slot transaction ids         *)
(* decoded, sync, set_len, close), interleaved with markers for the API    *)
(* call that caused it, must be a behaviour of Commit.tla.                 *)
(*                                                                         *)
(* One line = one step.  Header writes are matched against the header the  *)
(* specification holds after the action (god byte and both transaction     *)
(* ids); which action a header write is follows from the stage of the      *)
(* commit in progress:                                                     *)
(*   slot updated, primary unchanged  -> SetSlot . WriteHdr1               *)
(*   slot updated and primary swapped -> SetSlot . SkipHdr1 . Swap (1PC)   *)
(*   primary swapped only             -> Swap (after Sync1, 2PC)           *)
(*   nothing but the recovery flag    -> AsIs                              *)
(* Commits that redb makes on its own (repair, shutdown, compaction,       *)
(* integrity check) have no cbegin marker: the kind is chosen by TLC and   *)
(* the wrong choice dies at the swap (its two-phase flag is logged).       *)
(***************************************************************************)
EXTENDS Commit, Json, IOUtils

CRec == ndJsonDeserialize(IOEnv.TRACE)
VARIABLES l, explicit   \* position; TRUE while a commit announced by cbegin is running

tvars == <<cvars, l, explicit>>

Line == CRec[l]
Ev(e) == l <= Len(CRec) /\ Line.e = e /\ l' = l + 1

HdrIs(h, x) ==
  /\ h.primary = x.primary /\ h.tpc = x.tpc /\ h.rec = x.rec
  /\ h.slots[1].txn = x.slots[1].txn /\ h.slots[2].txn = x.slots[2].txn

TReset ==
  /\ Ev("reset")
  /\ LET d == Line.disk IN
     /\ hdr' = [primary |-> d.primary, tpc |-> d.tpc, rec |-> d.rec, slots |-> <<Slot(d.slots[1].txn, 0), Slot(d.slots[2].txn, 0)>>]
     /\ dgod' = [primary |-> d.primary, tpc |-> d.tpc, rec |-> d.rec]
     /\ dslots' = <<Slot(d.slots[1].txn, 0), Slot(d.slots[2].txn, 0)>>
  /\ dpages' = {} /\ pend' = <<>> /\ vparts' = (0 :> 0 @@ 1 :> 0) /\ parent' = (0 :> 0 @@ 1 :> 0)
  /\ gone' = (0 :> {} @@ 1 :> {}) /\ pins' = (0 :> {} @@ 1 :> {})
  /\ cur' = None /\ nextVer' = 1 /\ nextTxn' = 0 /\ acked' = 0 /\ visible' = 0
  /\ crashes' = 0 /\ grows' = 0 /\ bad' = FALSE /\ explicit' = FALSE

\* a crash image is opened (harness/src/bin/recio.rs): the header on the storage, and whether the trees of each slot
\* verify (slot i holds version i, one page write each, on the storage iff the independent decoder says they verify)
TRReset ==
  /\ Ev("rreset")
  /\ LET d == Line.disk IN
     /\ hdr' = [primary |-> d.primary, tpc |-> d.tpc, rec |-> d.rec, slots |-> <<Slot(d.slots[1].txn, 1), Slot(d.slots[2].txn, 2)>>]
     /\ dgod' = [primary |-> d.primary, tpc |-> d.tpc, rec |-> d.rec]
     /\ dslots' = <<Slot(d.slots[1].txn, 1), Slot(d.slots[2].txn, 2)>>
  /\ dpages' = {<<i, 1>> : i \in {j \in {1, 2} : Line.serv[j]}}
  /\ pend' = <<>> /\ vparts' = (0 :> 0 @@ 1 :> 1 @@ 2 :> 1 @@ 3 :> 0) /\ parent' = (0 :> 0 @@ 1 :> 0 @@ 2 :> 0 @@ 3 :> 0)
  /\ gone' = (0 :> {} @@ 1 :> {} @@ 2 :> {} @@ 3 :> {}) /\ pins' = (0 :> {} @@ 1 :> {} @@ 2 :> {} @@ 3 :> {})
  /\ cur' = [ver |-> 0, kind |-> "rec", stage |-> "r_final", sp |-> FALSE]
  /\ nextVer' = 3 /\ nextTxn' = 0 /\ acked' = 0 /\ visible' = 0
  /\ crashes' = 0 /\ grows' = 0 /\ bad' = FALSE /\ explicit' = FALSE

\* the open returned: the recovery has run to its end, begin_writable() included, nothing is unsynced, and the header
\* in memory is the specification's
TROpen ==
  /\ Ev("ropen") /\ cur.stage = "idle" /\ pend = <<>> /\ ~bad
  /\ LET m == Line.hdr IN
       /\ m.primary = hdr.primary /\ m.tpc = hdr.tpc /\ m.rec = hdr.rec /\ m.rec
       /\ m.txn[1] = hdr.slots[1].txn /\ m.txn[2] = hdr.slots[2].txn
  /\ Servable(hdr.slots[hdr.primary].ver, dpages)
  /\ UNCHANGED <<cvars, explicit>>

\* a page write: only once the recovery flag is durable (begin_writable has been synced)
TPage == Ev("page") /\ dgod.rec /\ WritePage /\ UNCHANGED explicit

TSetLen == Ev("setlen") /\ UNCHANGED <<cvars, explicit>>

\* close(): nothing may be left unsynced, and a clean close has cleared the recovery flag durably
TClose == Ev("bclose") /\ pend = <<>> /\ ~dgod.rec /\ UNCHANGED <<cvars, explicit>>

TCBegin ==
  /\ Ev("cbegin") /\ cur.stage = "idle"
  /\ IF Line.kind = "nd" THEN UNCHANGED cvars ELSE Begin(Line.kind, Line.sp, {})
  /\ explicit' = (Line.kind # "nd")

\* the caller is told: a durable commit has had its second sync; the header in memory is the one the
\* specification holds (a post-commit non-durable commit may already have used the secondary slot)
TCEnd ==
  /\ Ev("cend") /\ cur.stage = "idle"
  /\ LET m == Line.hdr
         sec == Other(hdr.primary)
     IN /\ m.primary = hdr.primary /\ m.tpc = hdr.tpc
        /\ m.txn[hdr.primary] = hdr.slots[hdr.primary].txn
        /\ IF m.txn[sec] # hdr.slots[sec].txn THEN m.from_sec /\ NonDurable(m.txn[sec]) ELSE UNCHANGED cvars
  \* the header bytes on the storage are the durable header of the specification (nothing of this commit is
  \* unsynced: what the backend holds is what a crash right now would leave)
  /\ pend = <<>> => /\ Line.disk.primary = dgod.primary /\ Line.disk.tpc = dgod.tpc /\ Line.disk.rec = dgod.rec
                     /\ Line.disk.slots[1].txn = dslots[1].txn /\ Line.disk.slots[2].txn = dslots[2].txn
  /\ explicit' = FALSE

TMark ==
  /\ (Ev("mbegin") \/ Ev("mend"))
  /\ cur.stage = "idle"
  /\ UNCHANGED <<cvars, explicit>>

\* header writes -------------------------------------------------------------------------------
SlotT(x) == x.slots[Other(hdr.primary)].txn

\* SetSlot . WriteHdr1 (with an implicit Begin for redb's own commits)
HdrOne(kind) ==
  LET x == Line.h
      c == IF cur.stage = "idle" THEN [ver |-> nextVer, kind |-> kind, stage |-> "pages", sp |-> FALSE] ELSE cur
      h2 == [hdr EXCEPT !.slots[Other(hdr.primary)] = Slot(SlotT(x), c.ver)]
  IN /\ (cur.stage = "idle" /\ ~explicit) \/ (cur.stage = "pages" /\ cur.kind = kind)
     /\ x.primary = hdr.primary /\ SlotT(x) # hdr.slots[Other(hdr.primary)].txn
     /\ SlotT(x) > hdr.slots[hdr.primary].txn
     /\ HdrIs(h2, x)
     /\ hdr' = h2 /\ nextTxn' = SlotT(x) + 1
     /\ pend' = pend \o HdrWrites(h2)
     /\ cur' = [c EXCEPT !.stage = IF kind = "2pc" THEN "sync1" ELSE "swap"]
     /\ IF cur.stage = "idle"
        THEN /\ NewVersion(nextVer, visible, {}, FALSE)
             /\ nextVer' = nextVer + 1
        ELSE UNCHANGED <<parent, vparts, gone, pins, nextVer>>
     /\ UNCHANGED <<dgod, dslots, dpages, acked, visible, crashes, grows, bad>>

\* SetSlot . SkipHdr1 . Swap: one-phase only
HdrMerged ==
  LET x == Line.h
      c == IF cur.stage = "idle" THEN [ver |-> nextVer, kind |-> "1pc", stage |-> "pages", sp |-> FALSE] ELSE cur
      sec == Other(hdr.primary)
      h2 == [hdr EXCEPT !.slots[sec] = Slot(x.slots[sec].txn, c.ver), !.primary = sec, !.tpc = FALSE]
  IN /\ (cur.stage = "idle" /\ ~explicit) \/ (cur.stage = "pages" /\ cur.kind = "1pc")
     /\ x.primary = sec /\ x.slots[sec].txn # hdr.slots[sec].txn
     /\ x.slots[sec].txn > hdr.slots[hdr.primary].txn
     /\ HdrIs(h2, x)
     /\ hdr' = h2 /\ nextTxn' = x.slots[sec].txn + 1
     /\ pend' = pend \o HdrWrites(h2)
     /\ cur' = [c EXCEPT !.stage = "sync2"]
     /\ IF cur.stage = "idle"
        THEN /\ NewVersion(nextVer, visible, {}, FALSE)
             /\ nextVer' = nextVer + 1
        ELSE UNCHANGED <<parent, vparts, gone, pins, nextVer>>
     /\ UNCHANGED <<dgod, dslots, dpages, acked, visible, crashes, grows, bad>>

HdrSwap == Swap /\ HdrIs(hdr', Line.h)

HdrAsIs == AsIs(Line.h.rec) /\ HdrIs(hdr', Line.h)

\* the header writes of a recovery
HdrRecovery == (RFinalize \/ RVerifyClear \/ RSlot \/ RSwap \/ RQuick) /\ HdrIs(hdr', Line.h)

THdr ==
  /\ Ev("hdr")
  /\ HdrOne("1pc") \/ HdrOne("2pc") \/ HdrMerged \/ HdrSwap \/ HdrAsIs \/ HdrRecovery
  /\ UNCHANGED explicit

TSync ==
  /\ Ev("sync")
  /\ IF cur.kind = "rec" THEN RFinalSync \/ RClearSync \/ RSync1 \/ RSync2
     ELSE Sync1 \/ Sync2 \/ PreSync \/ IdleSync
  /\ UNCHANGED explicit

TraceInit == Init /\ l = 1 /\ explicit = FALSE
TraceNext == TReset \/ TRReset \/ TROpen \/ TPage \/ TSetLen \/ TClose \/ TCBegin \/ TCEnd \/ TMark \/ THdr \/ TSync
TraceSpec == TraceInit /\ [][TraceNext]_tvars

TraceAccepted ==
  LET d == TLCGet("stats").diameter IN
  IF d - 1 = Len(CRec) THEN TRUE
  ELSE Print(<<"REJECT", d, ToJson([e |-> CRec[d].e, run |-> CRec[d].run, i |-> CRec[d].i])>>, FALSE)

\* the design-level invariants, evaluated on every state of the real run as well
TraceInv == PrimaryServable /\ AckedDurable
=============================================================================
