------------------------------- MODULE Recover -------------------------------
(***************************************************************************)
(* Opening a file, step by step (TransactionalMemory::new, Database::new,  *)
(* Database::do_repair), over EVERY header an interrupted run can leave:   *)
(* both flags of the god byte, either slot primary, each slot's checksum   *)
(* good or bad, each slot's trees verifying or not, any order of the two   *)
(* transaction ids, a usable allocator-state table or none, the length of  *)
(* the file agreeing with the stored region counts or not.                 *)
(*                                                                         *)
(* One action per step that writes the header and syncs (the points at     *)
(* which a second crash can strike):                                       *)
(*   Finalize    layout + select_primary_slot; the corrected header is     *)
(*               written iff recovery was needed                           *)
(*   Quick       a two-phase primary with a current allocator-state table: *)
(*               nothing is verified, nothing is committed                 *)
(*   VerifyStep  do_repair: verify the primary, fall back to the other     *)
(*   ClearRec    clear_recovery_required(): header write + flush           *)
(*   Commit1/2   the repair commit (two-phase): same roots, next id        *)
(*   Writable    begin_writable(): recovery flag set again, write + flush  *)
(*                                                                         *)
(* Checked (MC_Recover.cfg): Sound, Newest, Available, FlagDiscipline and  *)
(* Restartable - at every step the header on the storage is one from which *)
(* a fresh open reaches the same commit point.                             *)
(***************************************************************************)
EXTENDS RecoverOps, TLC

CONSTANT PickNewer      \* FALSE: the seeded-bad variant (select_primary_slot ignores a newer secondary)

VARIABLES
  img,    \* the image being opened (never changes): [rec, tpc, primary, hok, txn, serv, astate, layoutErr, stale]
  mem,    \* header in memory: [primary, tpc, rec, slots], slots[i] = [txn, from] - `from` names the slot of img whose roots it holds
  disk,   \* header on the storage
  stage, res

rvars == <<img, mem, disk, stage, res>>

B == BOOLEAN
Images ==
  [rec : B, tpc : B, primary : {1, 2}, hok : [{1, 2} -> B], txn : [{1, 2} -> 1..3], serv : [{1, 2} -> B], astate : [{1, 2} -> B],
   layoutErr : B, stale : B]

\* what a crash can leave, given the commit protocol (Commit.tla proves the second; the first is how checksums work;
\* the third: the table is written by the two-phase commit it describes)
Environment(i) ==
  /\ \A s \in {1, 2} : i.serv[s] => i.hok[s]
  /\ (i.tpc /\ i.hok[i.primary]) => i.serv[i.primary]
  /\ \A s \in {1, 2} : i.astate[s] => i.serv[s]
  /\ i.layoutErr => i.stale \/ i.rec

HeaderOf(i) == [primary |-> i.primary, tpc |-> i.tpc, rec |-> i.rec, slots |-> [s \in {1, 2} |-> [txn |-> i.txn[s], from |-> s]]]

Init ==
  /\ img \in {i \in Images : Environment(i)}
  /\ mem = HeaderOf(img) /\ disk = HeaderOf(img)
  /\ stage = "finalize" /\ res = "none"

Fail == stage' = "done" /\ res' = "Corrupted" /\ UNCHANGED <<img, mem, disk>>

Finalize ==
  /\ stage = "finalize"
  /\ LET sel == Select(img.primary, img.tpc, img.hok, img.txn, PickNewer) IN
     IF img.layoutErr \/ sel.err THEN Fail
     ELSE /\ mem' = [mem EXCEPT !.primary = sel.p]
          /\ disk' = IF img.rec \/ img.stale THEN mem' ELSE disk
          /\ stage' = "astate" /\ UNCHANGED <<img, res>>

Quick ==
  /\ stage = "astate" /\ mem.tpc /\ img.astate[mem.slots[mem.primary].from]
  /\ mem' = [mem EXCEPT !.rec = FALSE]          \* load_allocator_state()
  /\ stage' = "writable" /\ UNCHANGED <<img, disk, res>>

VerifyStep ==
  /\ stage = "astate" /\ ~(mem.tpc /\ img.astate[mem.slots[mem.primary].from])
  /\ LET serv == [s \in {1, 2} |-> img.serv[mem.slots[s].from]]
         v == Verify(mem.primary, mem.tpc, serv) IN
     IF v.err THEN Fail
     ELSE mem' = [mem EXCEPT !.primary = v.p] /\ stage' = "clearrec" /\ UNCHANGED <<img, disk, res>>

ClearRec ==
  /\ stage = "clearrec"
  /\ mem' = [mem EXCEPT !.rec = FALSE] /\ disk' = mem'
  /\ stage' = "commit1" /\ UNCHANGED <<img, res>>

\* the repair commit: write_secondary_slot + header + flush, then swap + two-phase flag + header + flush
Commit1 ==
  /\ stage = "commit1"
  /\ mem' = [mem EXCEPT !.slots[Other(mem.primary)] = [txn |-> mem.slots[mem.primary].txn + 1, from |-> mem.slots[mem.primary].from]]
  /\ disk' = mem' /\ stage' = "commit2" /\ UNCHANGED <<img, res>>

Commit2 ==
  /\ stage = "commit2"
  /\ mem' = [mem EXCEPT !.primary = Other(mem.primary), !.tpc = TRUE]
  /\ disk' = mem' /\ stage' = "writable" /\ UNCHANGED <<img, res>>

Writable ==
  /\ stage = "writable"
  /\ mem' = [mem EXCEPT !.rec = TRUE] /\ disk' = mem'
  /\ stage' = "done" /\ res' = "ok" /\ UNCHANGED img

Next == Finalize \/ Quick \/ VerifyStep \/ ClearRec \/ Commit1 \/ Commit2 \/ Writable
Spec == Init /\ [][Next]_rvars

-----------------------------------------------------------------------------
Origin == mem.slots[mem.primary].from

\* a successful open serves trees that verify
Sound == res = "ok" => img.serv[Origin]

\* without the two-phase flag it is the newest commit that can be served at all
Newest == (res = "ok" /\ ~img.tpc) => \A s \in {1, 2} : (img.hok[s] /\ img.serv[s]) => img.txn[s] <= img.txn[Origin]

\* the file is refused only if nothing can be served (two-phase: if the primary cannot)
Available ==
  (stage = "done" /\ ~img.layoutErr) =>
     IF img.tpc THEN (res = "ok") = (img.hok[img.primary] /\ img.serv[img.primary])
     ELSE (res = "ok") = (\E s \in {1, 2} : img.hok[s] /\ img.serv[s])

\* begin_writable() asserts that the recovery flag is clear; a database that is open has it set on the storage
FlagDiscipline == (stage = "writable" => ~mem.rec) /\ (res = "ok" => disk.rec /\ disk.tpc)

\* the repair commit is built like any other: a newer id than the slot it supersedes
NewerId == stage \in {"commit2"} => mem.slots[Other(mem.primary)].txn > mem.slots[mem.primary].txn

\* a crash between any two steps: the header on the storage opens again to the same commit point
\* (slots a repair commit has written verify like the slot they copy, and carry no allocator-state table)
Restartable ==
  LET final == Decide(HeaderOf(img), img.hok, img.serv, img.astate, img.layoutErr)
      hokD == [s \in {1, 2} |-> IF disk.slots[s] = HeaderOf(img).slots[s] THEN img.hok[s] ELSE TRUE]
      servD == [s \in {1, 2} |-> img.serv[disk.slots[s].from]]
      astD == [s \in {1, 2} |-> IF disk.slots[s] = HeaderOf(img).slots[s] THEN img.astate[s] ELSE FALSE]
      again == Decide(disk, hokD, servD, astD, FALSE)
  IN ~final.err => (~again.err /\ disk.slots[again.chosen].from = final.chosen)
=============================================================================
