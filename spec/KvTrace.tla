----------------------------- MODULE KvTrace -----------------------------
(***************************************************************************)
(* Trace validation against Kv.tla.  The trace is newline-delimited JSON,   *)
(* one record per public API call of the real redb (arguments and result), *)
(* written by /verif/harness.  TLC accepts the trace iff every record is   *)
(* an enabled instance of the corresponding Kv action, i.e. iff the        *)
(* implementation returned what the specification computes, at every step. *)
(* Several runs may be concatenated; a "reset" record starts a new one.    *)
(***************************************************************************)
EXTENDS Kv, Json, IOUtils

Rec == ndJsonDeserialize(IOEnv.TRACE)

VARIABLE l          \* index of the next record to consume

vars == <<kvVars, l>>

TraceInit == Init /\ l = 1

Ev(e) == l <= Len(Rec) /\ Rec[l].e = e /\ l' = l + 1
R == Rec[l]

TReset ==
  /\ Ev("reset")
  /\ hist' = <<EmptyDb>> /\ dur' = 1 /\ inflight' = <<>> /\ wtx' = NoTx /\ readers' = EmptyFn
  /\ eph' = EmptyFn /\ nextOrd' = 1 /\ its' = EmptyFn /\ latch' = "ok"

\* a record that carries information for humans only
TNote == Ev("note") /\ UNCHANGED kvVars

TraceNext ==
  \/ TReset
  \/ TNote
  \/ Ev("bw")      /\ BeginWrite(R.r)
  \/ Ev("dur")     /\ SetDurability(R.d, R.r)
  \/ Ev("cbegin")  /\ CommitBegin
  \/ Ev("cend")    /\ CommitEnd(R.r)
  \/ Ev("abort")   /\ Abort(R.r)
  \/ Ev("br")      /\ BeginRead(R.h, R.r)
  \/ Ev("dr")      /\ DropRead(R.h)
  \/ Ev("open")    /\ OpenW(R.n, R.kind, R.kt, R.vt, R.r)
  \/ Ev("close")   /\ CloseW(R.n)
  \/ Ev("ropen")   /\ OpenR(R.h, R.n, R.kind, R.kt, R.vt, R.r)
  \/ Ev("rename")  /\ Rename(R.a, R.b, R.kind, R.r)
  \/ Ev("delete")  /\ Delete(R.a, R.kind, R.r)
  \/ Ev("list")    /\ List(R.src, R.kind, R.r)
  \/ Ev("get")     /\ Get(R.src, R.n, R.k, R.r)
  \/ Ev("len")     /\ LenOp(R.src, R.n, R.r)
  \/ Ev("edge")    /\ Edge(R.src, R.n, R.last, R.r)
  \/ Ev("range")   /\ RangeOp(R.src, R.n, R.lo, R.hi, R.cnt, R.rev, R.alt, R.r)
  \/ Ev("ins")     /\ Insert(R.n, R.k, R.v, R.r)
  \/ Ev("insr")    /\ InsertReserve(R.n, R.k, R.v, R.r)
  \/ Ev("getmut")  /\ GetMut(R.n, R.k, R.v, R.r)
  \/ Ev("entry")   /\ EntryOp(R.n, R.k, R.v, R.variant, R.r)
  \/ Ev("rem")     /\ Remove(R.n, R.k, R.r)
  \/ Ev("pop")     /\ Pop(R.n, R.last, R.r)
  \/ Ev("retain")  /\ Retain(R.n, R.lo, R.hi, R.p, R.r)
  \/ Ev("extract") /\ Extract(R.n, R.lo, R.hi, R.p, R.cnt, R.rev, R.alt, R.r)
  \/ Ev("mins")    /\ MInsert(R.n, R.k, R.v, R.r)
  \/ Ev("mrem")    /\ MRemove(R.n, R.k, R.v, R.r)
  \/ Ev("mremall") /\ MRemoveAll(R.n, R.k, R.r)
  \/ Ev("mget")    /\ MGet(R.src, R.n, R.k, R.r)
  \/ Ev("mrange")  /\ MRange(R.src, R.n, R.lo, R.hi, R.rev, R.r)
  \/ Ev("hold")    /\ Hold(R.it, R.src, R.n, R.lo, R.hi)
  \/ Ev("itnext")  /\ ItNext(R.it, R.cnt, R.rev, R.r)
  \/ Ev("itdrop")  /\ ItDrop(R.it)
  \/ Ev("spe")     /\ EphSavepoint(R.s, R.r)
  \/ Ev("spdrop")  /\ EphDrop(R.s)
  \/ Ev("spp")     /\ PersSavepoint(R.r)
  \/ Ev("spdel")   /\ DeletePersSavepoint(R.id, R.r)
  \/ Ev("splist")  /\ ListPersSavepoints(R.r)
  \/ Ev("spreste") /\ RestoreEph(R.s, R.r)
  \/ Ev("sprestp") /\ RestorePers(R.id, R.r)
  \/ Ev("compact") /\ Compact(R.r)
  \/ Ev("integrity") /\ CheckIntegrity(R.r)
  \/ Ev("reopen")  /\ Reopen(R.obs)
  \/ Ev("crash")   /\ Crash(R.obs)
  \/ Ev("probe")   /\ CrashProbe(R.obs)
  \/ Ev("dump")    /\ Dump(R.src, R.obs)

TraceSpec == TraceInit /\ [][TraceNext]_vars

\* Accepted iff the whole trace was consumed.  On rejection print the first record that no
\* action of the specification explains (the check script maps it back to run and step).
TraceAccepted ==
  LET d == TLCGet("stats").diameter IN
  IF d - 1 = Len(Rec) THEN TRUE
  ELSE Print(<<"REJECT", d, ToJson(Rec[d])>>, FALSE)

=============================================================================
