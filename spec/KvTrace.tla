----------------------------- MODULE KvTrace -----------------------------
(***************************************************************************)
(* Trace validation against Kv.tla.  The trace is newline-delimited JSON,   *)
(* one record per public API call of the real redb (arguments and result), *)
(* written by /verif/harness.  TLC accepts the trace iff every record is   *)
(* an enabled instance of the corresponding Kv action, i.e. iff the        *)
(* implementation returned what the specification computes, at every step. *)
(* Several runs may be concatenated; a "reset" record starts a new one.    *)
(***************************************************************************)
EXTENDS KvDispatch, PagerInv, Json, IOUtils

Rec == ndJsonDeserialize(IOEnv.TRACE)

VARIABLES
  l,          \* index of the next record to consume
  lastAlloc,  \* the allocated page set of the last accounting record (<<>> before the first)
  clean,      \* nothing that may legitimately change the allocation happened since that record
  armed       \* a storage fault has been injected into this run (C08)

vars == <<kvVars, l, lastAlloc, clean, armed>>

TraceInit == Init /\ l = 1 /\ lastAlloc = <<>> /\ clean = FALSE /\ armed = FALSE

\* calls after which the set of allocated pages may differ: a completed commit, reopen, compaction,
\* integrity check, crash.  Everything else - in particular abort(), a dropped transaction and a
\* poisoned commit() - must leave the allocation exactly as it was (C05: no space remains consumed)
MayChangeAlloc(R) ==
  \/ R.e \in {"reopen", "compact", "integrity", "crash", "reset"}
  \/ R.e = "cend" /\ ~IsE(R.r, "TransactionPoisoned")

Ev(e) == l <= Len(Rec) /\ Rec[l].e = e /\ l' = l + 1

TReset ==
  /\ Ev("reset")
  /\ hist' = <<EmptyDb>> /\ dur' = 1 /\ inflight' = <<>> /\ wtx' = NoTx /\ readers' = EmptyFn /\ rpend' = EmptyFn
  /\ eph' = EmptyFn /\ nextOrd' = 1 /\ its' = EmptyFn /\ latch' = "ok"
  /\ lastAlloc' = <<>> /\ clean' = FALSE /\ armed' = FALSE

\* a record that carries information for humans only
TNote == Ev("note") /\ UNCHANGED <<kvVars, lastAlloc, clean, armed>>

\* the harness arms (or disarms) a fault in the storage backend: from now on calls may fail
TFault == Ev("fault") /\ armed' = TRUE /\ UNCHANGED <<kvVars, lastAlloc, clean>>

(***************************************************************************)
(* C08 - storage errors.  Once a fault has been injected, or the database  *)
(* has latched a failure, a call may return a storage error instead of its *)
(* specified result.  What the property still demands, and what these      *)
(* disjuncts therefore do NOT allow: a panic (never an enabled record), a  *)
(* successful commit() or begin_write() after an error was returned, a     *)
(* read that returns Ok with anything but the specified value (reads go    *)
(* through Do as always).                                                  *)
(***************************************************************************)
StorageErr(r) == IsErr(r) /\ r.err \in {"Io", "PreviousIo"}
WtxOps == {"open", "close", "rename", "delete", "ins", "insr", "getmut", "entry", "rem", "pop", "retain", "extract",
           "mins", "mrem", "mremall", "spe", "spp", "spdel", "splist", "spreste", "sprestp", "dur"}
ViewOps == {"get", "len", "edge", "range", "mget", "mrange", "list"}
IsWtxOp(R) == R.e \in WtxOps \/ (R.e \in ViewOps /\ "src" \in DOMAIN R /\ R.src = "w")
Taint == IF wtx.on THEN [wtx EXCEPT !.tainted = TRUE] ELSE wtx

FaultyStep ==
  /\ (armed \/ latch = "failed")
  /\ l <= Len(Rec) /\ l' = l + 1
  /\ UNCHANGED <<lastAlloc, clean, armed>>
  /\ LET R == Rec[l] IN
     \/ \* a call other than commit/abort/reopen reports a storage error: nothing is applied to the
        \* committed state; a write transaction it happened in can no longer be trusted
        /\ "r" \in DOMAIN R /\ StorageErr(R.r) /\ R.e \notin {"cend", "cbegin", "abort", "reopen", "crash", "probe"}
        /\ latch' = "failed"
        /\ wtx' = IF IsWtxOp(R) THEN Taint ELSE wtx
        /\ UNCHANGED <<hist, dur, inflight, readers, rpend, eph, nextOrd, its>>
     \/ \* a dump through a reader fails
        /\ R.e = "dump" /\ "error" \in DOMAIN R.obs
        /\ latch' = "failed" /\ UNCHANGED <<hist, dur, inflight, wtx, readers, rpend, eph, nextOrd, its>>
     \/ \* calls inside a transaction in which an error was reported: any result but a panic; the
        \* transaction can only end without being committed
        /\ wtx.on /\ wtx.tainted /\ IsWtxOp(R)
        /\ ("r" \in DOMAIN R => (IsOk(R.r) \/ IsErr(R.r)))
        /\ UNCHANGED kvVars
     \/ /\ wtx.on /\ wtx.tainted /\ R.e = "cbegin" /\ UNCHANGED kvVars
     \/ /\ wtx.on /\ wtx.tainted /\ R.e = "cend" /\ IsErr(R.r)
        /\ wtx' = NoTx /\ latch' = "failed" /\ inflight' = <<>>
        /\ UNCHANGED <<hist, dur, readers, rpend, eph, nextOrd, its>>
     \/ /\ wtx.on /\ wtx.tainted /\ R.e = "abort" /\ (IsOk(R.r) \/ IsErr(R.r))
        /\ wtx' = NoTx /\ UNCHANGED <<hist, dur, inflight, readers, rpend, eph, nextOrd, its, latch>>


\* page accounting projected from the real state at a transaction boundary
TAcct ==
  /\ Ev("acct") /\ AcctOk(Rec[l]) /\ UNCHANGED kvVars
  /\ IF "alloc" \in DOMAIN Rec[l]
     THEN /\ (clean /\ lastAlloc # <<>>) =>
                Check("AbortLeavesNoTrace",
                      IF "needs_repair" \in DOMAIN Rec[l] /\ Rec[l].needs_repair
                      THEN lastAlloc[1] \subseteq SetOf(Rec[l].alloc)        \* (leak of a drop during unwinding, until reopen)
                      ELSE SetOf(Rec[l].alloc) = lastAlloc[1], Rec[l])
          /\ lastAlloc' = <<SetOf(Rec[l].alloc)>> /\ clean' = TRUE
     ELSE lastAlloc' = <<>> /\ clean' = FALSE
  /\ UNCHANGED armed

TraceNext ==
  \/ TReset
  \/ TNote
  \/ TFault
  \/ FaultyStep
  \/ TAcct
  \/ /\ l <= Len(Rec) /\ l' = l + 1
     /\ Do(Rec[l])
     \* sampled crash probes carry the page accounting of the recovered database (C11)
     /\ (Rec[l].e = "probe" /\ "acct" \in DOMAIN Rec[l]) => AcctOk(Rec[l].acct @@ [i |-> l, run |-> 0])
     /\ lastAlloc' = lastAlloc /\ armed' = armed
     /\ clean' = (clean /\ ~MayChangeAlloc(Rec[l]))

TraceSpec == TraceInit /\ [][TraceNext]_vars

\* Accepted iff the whole trace was consumed.  On rejection print the first record that no
\* action of the specification explains (the check script maps it back to run and step).
TraceAccepted ==
  LET d == TLCGet("stats").diameter IN
  IF d - 1 = Len(Rec) THEN TRUE
  ELSE Print(<<"REJECT", d, ToJson(Rec[d])>>, FALSE)

=============================================================================
