----------------------------- MODULE KvTrace -----------------------------
(***************************************************************************)
(* Trace validation against Kv.tla.  The trace is newline-delimited JSON,   *)
(* one record per public API call of the real redb (arguments and result), *)
(* written by /verif/harness.  TLC accepts the trace iff every record is   *)
(* an enabled instance of the corresponding Kv action, i.e. iff the        *)
(* implementation returned what the specification computes, at every step. *)
(* Several runs may be concatenated; a "reset" record starts a new one.    *)
(***************************************************************************)
EXTENDS KvDispatch, PagerInv, Json, IOUtils

Rec == ndJsonDeserialize(IOEnv.TRACE)

VARIABLE l          \* index of the next record to consume

vars == <<kvVars, l>>

TraceInit == Init /\ l = 1

Ev(e) == l <= Len(Rec) /\ Rec[l].e = e /\ l' = l + 1

TReset ==
  /\ Ev("reset")
  /\ hist' = <<EmptyDb>> /\ dur' = 1 /\ inflight' = <<>> /\ wtx' = NoTx /\ readers' = EmptyFn
  /\ eph' = EmptyFn /\ nextOrd' = 1 /\ its' = EmptyFn /\ latch' = "ok"

\* a record that carries information for humans only
TNote == Ev("note") /\ UNCHANGED kvVars

\* page accounting projected from the real state at a transaction boundary
TAcct == Ev("acct") /\ AcctOk(Rec[l]) /\ UNCHANGED kvVars

TraceNext ==
  \/ TReset
  \/ TNote
  \/ TAcct
  \/ /\ l <= Len(Rec) /\ l' = l + 1
     /\ Do(Rec[l])

TraceSpec == TraceInit /\ [][TraceNext]_vars

\* Accepted iff the whole trace was consumed.  On rejection print the first record that no
\* action of the specification explains (the check script maps it back to run and step).
TraceAccepted ==
  LET d == TLCGet("stats").diameter IN
  IF d - 1 = Len(Rec) THEN TRUE
  ELSE Print(<<"REJECT", d, ToJson(Rec[d])>>, FALSE)

=============================================================================
