----------------------------- MODULE KvTrace -----------------------------
(***************************************************************************)
(* Trace validation against Kv.tla.  The trace is newline-delimited JSON,   *)
(* one record per public API call of the real redb (arguments and result), *)
(* written by /verif/harness.  TLC accepts the trace iff every record is   *)
(* an enabled instance of the corresponding Kv action, i.e. iff the        *)
(* implementation returned what the specification computes, at every step. *)
(* Several runs may be concatenated; a "reset" record starts a new one.    *)
(***************************************************************************)
EXTENDS KvDispatch, PagerInv, Json, IOUtils

Rec == ndJsonDeserialize(IOEnv.TRACE)

VARIABLES
  l,          \* index of the next record to consume
  lastAlloc,  \* the allocated page set of the last accounting record (<<>> before the first)
  clean       \* nothing that may legitimately change the allocation happened since that record

vars == <<kvVars, l, lastAlloc, clean>>

TraceInit == Init /\ l = 1 /\ lastAlloc = <<>> /\ clean = FALSE

\* calls after which the set of allocated pages may differ: a completed commit, reopen, compaction,
\* integrity check, crash.  Everything else - in particular abort(), a dropped transaction and a
\* poisoned commit() - must leave the allocation exactly as it was (C05: no space remains consumed)
MayChangeAlloc(R) ==
  \/ R.e \in {"reopen", "compact", "integrity", "crash", "reset"}
  \/ R.e = "cend" /\ ~IsE(R.r, "TransactionPoisoned")

Ev(e) == l <= Len(Rec) /\ Rec[l].e = e /\ l' = l + 1

TReset ==
  /\ Ev("reset")
  /\ hist' = <<EmptyDb>> /\ dur' = 1 /\ inflight' = <<>> /\ wtx' = NoTx /\ readers' = EmptyFn /\ rpend' = EmptyFn
  /\ eph' = EmptyFn /\ nextOrd' = 1 /\ its' = EmptyFn /\ latch' = "ok"
  /\ lastAlloc' = <<>> /\ clean' = FALSE

\* a record that carries information for humans only
TNote == Ev("note") /\ UNCHANGED <<kvVars, lastAlloc, clean>>

\* page accounting projected from the real state at a transaction boundary
TAcct ==
  /\ Ev("acct") /\ AcctOk(Rec[l]) /\ UNCHANGED kvVars
  /\ IF "alloc" \in DOMAIN Rec[l]
     THEN /\ (clean /\ lastAlloc # <<>>) =>
                Check("AbortLeavesNoTrace", SetOf(Rec[l].alloc) = lastAlloc[1], Rec[l])
          /\ lastAlloc' = <<SetOf(Rec[l].alloc)>> /\ clean' = TRUE
     ELSE lastAlloc' = <<>> /\ clean' = FALSE

TraceNext ==
  \/ TReset
  \/ TNote
  \/ TAcct
  \/ /\ l <= Len(Rec) /\ l' = l + 1
     /\ Do(Rec[l])
     /\ lastAlloc' = lastAlloc
     /\ clean' = (clean /\ ~MayChangeAlloc(Rec[l]))

TraceSpec == TraceInit /\ [][TraceNext]_vars

\* Accepted iff the whole trace was consumed.  On rejection print the first record that no
\* action of the specification explains (the check script maps it back to run and step).
TraceAccepted ==
  LET d == TLCGet("stats").diameter IN
  IF d - 1 = Len(Rec) THEN TRUE
  ELSE Print(<<"REJECT", d, ToJson(Rec[d])>>, FALSE)

=============================================================================
