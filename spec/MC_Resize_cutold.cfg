SPECIFICATION Spec
CONSTANTS H = 1
          M = 3
          MaxQ = 10
          MaxVer = 3
          MaxCrash = 2
          GrowSync = TRUE
          ShrinkFirst = FALSE
          ShrinkKeepsOld = FALSE
INVARIANTS Safe WithinStorage DurableCovers ReadersWithin
CHECK_DEADLOCK FALSE
