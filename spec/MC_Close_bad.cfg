SPECIFICATION Spec
CONSTANTS AtomicDefer = FALSE
          MaxTxn = 3
INVARIANTS AtMostOnce ClosedWhenDone
CHECK_DEADLOCK FALSE
