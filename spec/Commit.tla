------------------------------- MODULE Commit -------------------------------
(***************************************************************************)
(* The durability protocol (C01, C08, C11), one action per storage-backend *)
(* call of TransactionalMemory::commit / non_durable_commit and of the     *)
(* recovery in DatabaseHeader::finalize / select_primary_slot /            *)
(* Database::do_repair.                                                    *)
(*                                                                         *)
(* Storage model (docs/design.md, the property text): a write reaches the  *)
(* durable image only through a later sync_data(); a crash keeps ANY       *)
(* subset of the writes issued since the last sync.  The 320-byte header   *)
(* holds the god byte (primary slot, two-phase flag, recovery flag) and    *)
(* two checksummed commit slots; with TornHeader = TRUE the three parts of *)
(* one header write persist independently (more adversarial than a 512     *)
(* byte sector, and what the comments in select_primary_slot argue about). *)
(*                                                                         *)
(* A version is what one commit publishes; its pages are new pages (copy   *)
(* on write - that no live page is overwritten is C06, Pager.tla), written *)
(* by any number of backend writes.  Version v can be served from the      *)
(* durable image iff every page write of every version <= v is durable     *)
(* (the checksums from the slot down verify exactly then).                 *)
(*                                                                         *)
(* A commit replaces some pages of the versions it is built on (copy on    *)
(* write): `gone[v]` are the page writes of its ancestors that version v   *)
(* no longer reaches.  A transaction may record a persistent savepoint: it *)
(* pins the version the transaction began from (`pins[v]`), which must be  *)
(* servable whenever v is what recovery finds - although recovery itself   *)
(* only verifies v's own trees.                                            *)
(*                                                                         *)
(* Seeded-bad variants (negative configurations):                          *)
(*   SyncBeforeFlip = FALSE   the first flush of a two-phase commit does   *)
(*                            not reach the storage                        *)
(*   PickNewer = FALSE        recovery ignores a newer valid secondary     *)
(*   SavepointPreFlush = FALSE the commit of a transaction that created a  *)
(*                            persistent savepoint does not write its      *)
(*                            pages out before the commit slot (the code   *)
(*                            before the fix recorded in                   *)
(*                            known_findings.txt); forcing such a commit   *)
(*                            to be two-phase (SavepointTwoPhase) is NOT   *)
(*                            enough, as TLC shows: the first phase writes *)
(*                            the new slot under the old two-phase flag    *)
(*   RepairSync = FALSE       the repair commit of a recovery does not     *)
(*                            flush between its slot write and its swap    *)
(*                            (caught with TornHeader: the god byte of the *)
(*                            swap persists without the slot)              *)
(***************************************************************************)
EXTENDS Naturals, Sequences, FiniteSets, TLC, RecoverOps

CONSTANTS MaxVer, MaxParts, MaxCrash, MaxGrow, TornHeader, SyncBeforeFlip, PickNewer, SavepointTwoPhase, SavepointPreFlush, RepairSync

VARIABLES
  hdr,       \* header in memory: [primary, tpc, rec, slots]
  dgod,      \* durable god byte  [primary, tpc, rec]
  dslots,    \* durable slots     <<[txn, ver], [txn, ver]>>
  dpages,    \* durable page writes: set of <<ver, n>>
  pend,      \* writes issued since the last sync, in order
  vparts,    \* ver -> number of page writes issued for it
  parent,    \* ver -> the version it was built on (what was visible when its transaction began)
  gone,      \* ver -> page writes of its ancestors it no longer reaches (replaced by copy on write)
  pins,      \* ver -> versions pinned by the persistent savepoints it records
  cur,       \* the commit in progress, or None
  nextVer, nextTxn,
  acked,     \* version of the last durable commit the caller was told about
  visible,   \* version a reader of this process sees
  crashes, grows,
  bad        \* a recovery went wrong (set by Crash)

cvars == <<hdr, dgod, dslots, dpages, pend, vparts, parent, gone, pins, cur, nextVer, nextTxn, acked, visible, crashes, grows, bad>>

None == [ver |-> 0, kind |-> "none", stage |-> "idle", sp |-> FALSE]
Slot(t, v) == [txn |-> t, ver |-> v]

Init ==
  /\ hdr = [primary |-> 1, tpc |-> TRUE, rec |-> TRUE, slots |-> <<Slot(1, 0), Slot(0, 0)>>]
  /\ dgod = [primary |-> 1, tpc |-> TRUE, rec |-> TRUE]
  /\ dslots = <<Slot(1, 0), Slot(0, 0)>>
  /\ dpages = {} /\ pend = <<>> /\ vparts = (0 :> 0 @@ 1 :> 0) /\ parent = (0 :> 0 @@ 1 :> 0)
  /\ gone = (0 :> {} @@ 1 :> {}) /\ pins = (0 :> {} @@ 1 :> {})
  /\ cur = None /\ nextVer = 1 /\ nextTxn = 2 /\ acked = 0 /\ visible = 0
  /\ crashes = 0 /\ grows = 0 /\ bad = FALSE

\* the backend writes one header write consists of
HdrWrites(h) ==
  IF TornHeader
  THEN <<[k |-> "god", g |-> [primary |-> h.primary, tpc |-> h.tpc, rec |-> h.rec]],
         [k |-> "slot", i |-> 1, s |-> h.slots[1]], [k |-> "slot", i |-> 2, s |-> h.slots[2]]>>
  ELSE <<[k |-> "hdr", g |-> [primary |-> h.primary, tpc |-> h.tpc, rec |-> h.rec], s |-> h.slots]>>

\* the durable image after the writes with indices in S (issue order) have reached it
RECURSIVE Apply(_, _, _, _, _)
Apply(ws, S, g, sl, pg) ==
  IF ws = <<>> THEN [god |-> g, slots |-> sl, pages |-> pg]
  ELSE LET w == Head(ws)
           i == Len(pend) - Len(ws) + 1
           rest == Tail(ws)
       IN IF i \notin S THEN Apply(rest, S, g, sl, pg)
          ELSE CASE w.k = "page" -> Apply(rest, S, g, sl, pg \cup {<<w.ver, w.n>>})
                 [] w.k = "god" -> Apply(rest, S, w.g, sl, pg)
                 [] w.k = "slot" -> Apply(rest, S, g, [sl EXCEPT ![w.i] = w.s], pg)
                 [] w.k = "hdr" -> Apply(rest, S, w.g, w.s, pg)

Persist == LET d == Apply(pend, 1..Len(pend), dgod, dslots, dpages)
           IN dgod' = d.god /\ dslots' = d.slots /\ dpages' = d.pages /\ pend' = <<>>

-----------------------------------------------------------------------------
(* A write transaction's dirty pages reach the backend at any time (write  *)
(* back from the cache), attributed to the version being prepared.         *)
WritePage ==
  LET v == IF cur.stage = "idle" THEN nextVer ELSE cur.ver IN
  /\ v <= MaxVer /\ vparts[v] < MaxParts
  /\ cur.kind # "rec"                         \* no page is written while the file is being opened
  \* the writes of one flush are issued in no particular order (the header first, usually); a two-phase
  \* commit has flushed everything by the time it swaps the primary
  /\ ~(cur.kind = "2pc" /\ cur.stage \in {"swap", "sync2"})
  /\ ~(cur.sp /\ SavepointPreFlush /\ cur.stage # "presync")     \* nothing is left to write after the pre-flush
  /\ vparts' = [vparts EXCEPT ![v] = @ + 1]
  /\ pend' = Append(pend, [k |-> "page", ver |-> v, n |-> vparts[v] + 1])
  /\ UNCHANGED <<parent, gone, pins, hdr, dgod, dslots, dpages, cur, nextVer, nextTxn, acked, visible, crashes, grows, bad>>

\* bookkeeping of a new version v built on par: it stops reaching the page writes G of its ancestors, and records
\* a persistent savepoint of par iff sp
NewVersion(v, par, G, sp) ==
  /\ parent' = ([parent EXCEPT ![v] = par] @@ (v + 1) :> 0)
  /\ vparts' = (vparts @@ (v + 1) :> 0)
  /\ gone' = ([gone EXCEPT ![v] = gone[par] \cup G] @@ (v + 1) :> {})
  /\ pins' = ([pins EXCEPT ![v] = pins[par] \cup (IF sp THEN {par} ELSE {})] @@ (v + 1) :> {})

RECURSIVE Anc(_)
Anc(v) == IF v = 0 THEN {} ELSE {v} \cup Anc(parent[v])
\* the page writes version v reaches
Reach(v) == {pw \in UNION {{<<u, n>> : n \in 1..vparts[u]} : u \in Anc(v)} : pw \notin gone[v]}

\* commit(): durable, one-phase ("1pc") or two-phase ("2pc"); sp: the transaction created a persistent savepoint
Begin(kind, sp, G) ==
  /\ cur.stage = "idle" /\ nextVer <= MaxVer
  /\ (SavepointTwoPhase /\ sp) => kind = "2pc"
  /\ G \subseteq Reach(visible)
  /\ cur' = [ver |-> nextVer, kind |-> kind, stage |-> IF sp /\ SavepointPreFlush THEN "presync" ELSE "pages", sp |-> sp]
  /\ NewVersion(nextVer, visible, G, sp)
  /\ nextVer' = nextVer + 1
  /\ UNCHANGED <<hdr, dgod, dslots, dpages, pend, nextTxn, acked, visible, crashes, grows, bad>>

\* a transaction that created a persistent savepoint: everything buffered - its own pages and those of the
\* non-durable commits the savepoint pins - is written out and synced before the commit slot is touched
PreSync ==
  /\ cur.stage = "presync"
  /\ Persist
  /\ cur' = [cur EXCEPT !.stage = "pages"]
  /\ UNCHANGED <<parent, gone, pins, hdr, vparts, nextVer, nextTxn, acked, visible, crashes, grows, bad>>

\* header.write_secondary_slot(): in memory
\* (the transaction id must be newer than the primary's: asserted in commit())
SetSlot(t) ==
  /\ cur.stage = "pages"
  /\ t > hdr.slots[hdr.primary].txn
  /\ hdr' = [hdr EXCEPT !.slots[Other(hdr.primary)] = Slot(t, cur.ver)]
  /\ nextTxn' = t + 1
  /\ cur' = [cur EXCEPT !.stage = "hdr1"]
  /\ UNCHANGED <<parent, gone, pins, dgod, dslots, dpages, pend, vparts, nextVer, acked, visible, crashes, grows, bad>>

\* write_header() #1.  It goes to the write buffer; in a one-phase commit it may be overwritten
\* there by #2 before anything reaches the backend (SkipHdr1)
WriteHdr1 ==
  /\ cur.stage = "hdr1"
  /\ pend' = pend \o HdrWrites(hdr)
  /\ cur' = [cur EXCEPT !.stage = IF cur.kind = "2pc" THEN "sync1" ELSE "swap"]
  /\ UNCHANGED <<parent, gone, pins, hdr, dgod, dslots, dpages, vparts, nextVer, nextTxn, acked, visible, crashes, grows, bad>>

SkipHdr1 ==
  /\ cur.stage = "hdr1" /\ cur.kind = "1pc"
  /\ cur' = [cur EXCEPT !.stage = "swap"]
  /\ UNCHANGED <<parent, gone, pins, hdr, dgod, dslots, dpages, pend, vparts, nextVer, nextTxn, acked, visible, crashes, grows, bad>>

\* two-phase only: storage.flush()
Sync1 ==
  /\ cur.stage = "sync1"
  /\ IF SyncBeforeFlip THEN Persist ELSE UNCHANGED <<dgod, dslots, dpages, pend>>
  /\ cur' = [cur EXCEPT !.stage = "swap"]
  /\ UNCHANGED <<parent, gone, pins, hdr, vparts, nextVer, nextTxn, acked, visible, crashes, grows, bad>>

\* swap_primary_slot(); two_phase_commit := kind; write_header() #2
Swap ==
  /\ cur.stage = "swap"
  /\ hdr' = [hdr EXCEPT !.primary = Other(hdr.primary), !.tpc = (cur.kind = "2pc")]
  /\ pend' = pend \o HdrWrites(hdr')
  /\ cur' = [cur EXCEPT !.stage = "sync2"]
  /\ UNCHANGED <<parent, gone, pins, dgod, dslots, dpages, vparts, nextVer, nextTxn, acked, visible, crashes, grows, bad>>

\* storage.flush(); the commit is acknowledged
Sync2 ==
  /\ cur.stage = "sync2"
  /\ Persist
  /\ acked' = cur.ver /\ visible' = cur.ver
  /\ cur' = None
  /\ UNCHANGED <<parent, gone, pins, hdr, vparts, nextVer, nextTxn, crashes, grows, bad>>

\* non_durable_commit(): the secondary slot in memory, nothing synced
NonDurable(t) ==
  /\ cur.stage = "idle" /\ nextVer <= MaxVer
  /\ hdr' = [hdr EXCEPT !.slots[Other(hdr.primary)] = Slot(t, nextVer)]
  /\ nextTxn' = t + 1
  /\ visible' = nextVer
  /\ NewVersion(nextVer, visible, {}, FALSE)
  /\ nextVer' = nextVer + 1
  /\ UNCHANGED <<dgod, dslots, dpages, pend, cur, acked, crashes, grows, bad>>

\* the header is rewritten with whatever the slots hold in memory: the file grows or shrinks (layout fields),
\* begin_writable() sets the recovery flag, a clean close clears it
AsIs(rec) ==
  /\ cur.stage \in {"idle", "pages"} /\ grows < MaxGrow
  /\ grows' = grows + 1
  /\ hdr' = [hdr EXCEPT !.rec = rec]
  /\ pend' = pend \o HdrWrites(hdr')
  /\ UNCHANGED <<parent, gone, pins, dgod, dslots, dpages, vparts, cur, nextVer, nextTxn, acked, visible, crashes, bad>>

\* a sync outside the two syncs of a commit (resize, open, close)
IdleSync ==
  /\ cur.stage \notin {"sync1", "sync2"}
  /\ Persist
  /\ UNCHANGED <<parent, gone, pins, hdr, vparts, cur, nextVer, nextTxn, acked, visible, crashes, grows, bad>>

-----------------------------------------------------------------------------
Servable(v, pg) == Reach(v) \subseteq pg
\* the versions the persistent savepoints recorded in v pin can be restored
SavepointsServable(v, pg) == \A u \in pins[v] : Servable(u, pg)

\* The process dies; any subset of the unsynced writes is on the storage; what was in memory is gone.  The file is
\* opened again: the recovery below, one action per header write and per sync of TransactionalMemory::new,
\* Database::do_repair and the repair commit in Database::new (Recover.tla checks the same steps over every header
\* in isolation).  A crash can strike again between any two of them.
Crash ==
  /\ crashes < MaxCrash
  /\ \E S \in SUBSET (1..Len(pend)) :
       LET d == Apply(pend, S, dgod, dslots, dpages) IN
          \* page writes of a transaction that never committed belong to nothing any more
          /\ dpages' = {pw \in d.pages : pw[1] < nextVer}
          /\ dslots' = d.slots /\ dgod' = d.god
          /\ hdr' = [primary |-> d.god.primary, tpc |-> d.god.tpc, rec |-> d.god.rec, slots |-> d.slots]
  /\ pend' = <<>> /\ cur' = [ver |-> 0, kind |-> "rec", stage |-> "r_final", sp |-> FALSE] /\ crashes' = crashes + 1
  /\ vparts' = [v \in DOMAIN vparts |-> IF v >= nextVer THEN 0 ELSE vparts[v]]
  /\ UNCHANGED <<parent, gone, pins, nextVer, nextTxn, acked, visible, grows, bad>>

\* what the caller gets to see once the open has settled on version r
Settle(r) == bad' = (bad \/ r < acked \/ ~SavepointsServable(r, dpages))

\* finalize(): select_primary_slot; the header is written back iff the recovery flag was set, then flushed
RFinalize ==
  /\ cur.stage = "r_final"
  /\ LET sel == Select(hdr.primary, hdr.tpc, [i \in {1, 2} |-> TRUE], [i \in {1, 2} |-> hdr.slots[i].txn], PickNewer) IN
       /\ hdr' = [hdr EXCEPT !.primary = sel.p]
       /\ pend' = IF hdr.rec THEN pend \o HdrWrites(hdr') ELSE pend
  /\ cur' = [cur EXCEPT !.stage = "r_fsync"]
  /\ UNCHANGED <<parent, gone, pins, dgod, dslots, dpages, vparts, nextVer, nextTxn, acked, visible, crashes, grows, bad>>

RFinalSync ==
  /\ cur.stage = "r_fsync"
  /\ Persist
  /\ cur' = [cur EXCEPT !.stage = "r_verify"]
  /\ UNCHANGED <<parent, gone, pins, hdr, vparts, nextVer, nextTxn, acked, visible, crashes, grows, bad>>

\* a two-phase primary with a current allocator-state table (the table itself is not modelled: any two-phase
\* primary may have one): nothing is verified, nothing is committed; begin_writable() rewrites the header with the
\* recovery flag set (this action ends with that write: the steps before it touch nothing on the storage)
RQuick ==
  /\ cur.stage = "r_verify" /\ hdr.tpc
  /\ LET r == hdr.slots[hdr.primary].ver IN
       /\ bad' = (bad \/ ~Servable(r, dpages) \/ r < acked \/ ~SavepointsServable(r, dpages))
       /\ visible' = r /\ acked' = IF r < acked THEN acked ELSE r
  /\ nextTxn' = hdr.slots[hdr.primary].txn + 1
  /\ hdr' = [hdr EXCEPT !.rec = TRUE]
  /\ pend' = pend \o HdrWrites(hdr')
  /\ cur' = None
  /\ UNCHANGED <<parent, gone, pins, dgod, dslots, dpages, vparts, nextVer, crashes, grows>>

\* do_repair: verify the primary's trees, fall back to the other slot; nothing can be served: the open fails
RVerifyFail ==
  /\ cur.stage = "r_verify"
  /\ LET serv == [i \in {1, 2} |-> Servable(hdr.slots[i].ver, dpages)] IN Verify(hdr.primary, hdr.tpc, serv).err
  /\ bad' = TRUE /\ cur' = None
  /\ UNCHANGED <<parent, gone, pins, hdr, dgod, dslots, dpages, pend, vparts, nextVer, nextTxn, acked, visible, crashes, grows>>

\* do_repair succeeded (verification reads only); clear_recovery_required(): header write (+ flush: RClearSync)
RVerifyClear ==
  /\ cur.stage = "r_verify"
  /\ LET serv == [i \in {1, 2} |-> Servable(hdr.slots[i].ver, dpages)]
         v == Verify(hdr.primary, hdr.tpc, serv) IN
       /\ ~v.err
       /\ hdr' = [hdr EXCEPT !.primary = v.p, !.rec = FALSE]
       /\ Settle(hdr.slots[v.p].ver)
       /\ cur' = [cur EXCEPT !.stage = "r_csync", !.ver = hdr.slots[v.p].ver]
  /\ pend' = pend \o HdrWrites(hdr')
  /\ UNCHANGED <<parent, gone, pins, dgod, dslots, dpages, vparts, nextVer, nextTxn, acked, visible, crashes, grows>>

RClearSync ==
  /\ cur.stage = "r_csync"
  /\ Persist
  /\ cur' = [cur EXCEPT !.stage = "r_slot"]
  /\ UNCHANGED <<parent, gone, pins, hdr, vparts, nextVer, nextTxn, acked, visible, crashes, grows, bad>>

\* the repair commit (two-phase): the same roots under the next transaction id; no page is written
RSlot ==
  /\ cur.stage = "r_slot"
  /\ hdr' = [hdr EXCEPT !.slots[Other(hdr.primary)] = Slot(hdr.slots[hdr.primary].txn + 1, cur.ver)]
  /\ pend' = pend \o HdrWrites(hdr')
  /\ cur' = [cur EXCEPT !.stage = "r_sync1"]
  /\ UNCHANGED <<parent, gone, pins, dgod, dslots, dpages, vparts, nextVer, nextTxn, acked, visible, crashes, grows, bad>>

RSync1 ==
  /\ cur.stage = "r_sync1"
  /\ IF RepairSync THEN Persist ELSE UNCHANGED <<dgod, dslots, dpages, pend>>
  /\ cur' = [cur EXCEPT !.stage = "r_swap"]
  /\ UNCHANGED <<parent, gone, pins, hdr, vparts, nextVer, nextTxn, acked, visible, crashes, grows, bad>>

RSwap ==
  /\ cur.stage = "r_swap"
  /\ hdr' = [hdr EXCEPT !.primary = Other(hdr.primary), !.tpc = TRUE]
  /\ pend' = pend \o HdrWrites(hdr')
  /\ cur' = [cur EXCEPT !.stage = "r_sync2"]
  /\ UNCHANGED <<parent, gone, pins, dgod, dslots, dpages, vparts, nextVer, nextTxn, acked, visible, crashes, grows, bad>>

\* the open returns (begin_writable() is AsIs(TRUE) + a sync)
RSync2 ==
  /\ cur.stage = "r_sync2"
  /\ Persist
  /\ visible' = cur.ver /\ acked' = IF cur.ver < acked THEN acked ELSE cur.ver
  /\ nextTxn' = hdr.slots[hdr.primary].txn + 1
  /\ cur' = None
  /\ UNCHANGED <<parent, gone, pins, hdr, vparts, nextVer, crashes, grows, bad>>

Recovery == RFinalize \/ RFinalSync \/ RQuick \/ RVerifyFail \/ RVerifyClear \/ RClearSync \/ RSlot \/ RSync1 \/ RSwap \/ RSync2

Next ==
  \/ WritePage \/ (\E k \in {"1pc", "2pc"}, sp \in BOOLEAN, G \in SUBSET Reach(visible) : Begin(k, sp, G)) \/ SetSlot(nextTxn) \/ WriteHdr1 \/ SkipHdr1 \/ Sync1 \/ Swap \/ Sync2
  \/ NonDurable(nextTxn) \/ AsIs(TRUE) \/ IdleSync \/ PreSync \/ Crash \/ Recovery

Spec == Init /\ [][Next]_cvars

-----------------------------------------------------------------------------
\* C01: every recovery finds a servable commit point that is not older than the last acknowledged
\* durable commit
RecoveryOk == ~bad

\* the slot the durable god byte names is servable whenever nothing is in flight for it: the
\* primary is never overwritten in place
PrimaryServable ==
  (cur.stage = "idle" /\ pend = <<>>) => Servable(dslots[dgod.primary].ver, dpages)

\* an acknowledged commit is on the storage
AckedDurable == Servable(acked, dpages)

TypeOK ==
  /\ hdr.primary \in {1, 2} /\ dgod.primary \in {1, 2}
  /\ acked \in 0..MaxVer /\ visible \in 0..MaxVer
=============================================================================
