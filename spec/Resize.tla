------------------------------- MODULE Resize -------------------------------
(***************************************************************************)
(* The file grows and shrinks (TransactionalMemory::grow, try_shrink and   *)
(* the tail of commit()) while commits and crashes go on (C01 "while the   *)
(* file grows or shrinks", C11, C20 "never shrinks it below a page it      *)
(* still uses").                                                           *)
(*                                                                         *)
(* Three things describe the size of a database and none of them is        *)
(* written together with another: the length of the file (set_len), the    *)
(* region counts in the header (not checksummed, shared by both commit     *)
(* slots, rewritten with every header write) and the layout in memory.     *)
(* The code's discipline, one action per backend call:                     *)
(*   grow      set_len(longer); sync; only then does the layout in memory  *)
(*             (and with it any later header write) name the new length    *)
(*   shrink    inside commit(): the layout in memory is reduced, the       *)
(*             header with the smaller counts and the new slot is written  *)
(*             and flushed (all flushes of the commit), and only then      *)
(*             set_len(shorter) - not synced                               *)
(*   open      with the recovery flag set the counts are not trusted: the  *)
(*             layout is rebuilt from the length of the file               *)
(*             (RecoverOps!LayoutDecision, bound to the code by            *)
(*             RecoverTrace.tla)                                           *)
(*                                                                         *)
(* Lengths are in pages.  A version (what one commit publishes) needs the  *)
(* file to be at least need[v] pages long.  The commit protocol itself is  *)
(* Commit.tla's business: here a header write is atomic and carries the    *)
(* slots, and the pages of a version are on the storage when its slot is.  *)
(*                                                                         *)
(* Seeded-bad variants:  GrowSync = FALSE (no sync between set_len and the *)
(* first use of the new space); ShrinkKeepsOld = FALSE (the file is cut    *)
(* down to what the new commit needs, although the commit it supersedes -  *)
(* which readers may still hold and to which a recovery may fall back -    *)
(* reaches further).  Cutting the file BEFORE the smaller header is        *)
(* durable (ShrinkFirst) turns out to be harmless while the recovery flag  *)
(* is set: the layout is rebuilt from the length and the cut never goes    *)
(* below a page in use; TLC confirms (MC_Resize_shrinkfirst.cfg passes).   *)
(***************************************************************************)
EXTENDS RecoverOps, Sequences, FiniteSets, TLC

CONSTANTS H, M,          \* region geometry: header pages per region, data pages of a full region
          MaxQ,          \* longest file, in pages
          MaxVer, MaxCrash,
          GrowSync, ShrinkFirst, ShrinkKeepsOld

VARIABLES
  blen,     \* length of the storage as the backend reports it now (every set_len issued so far)
  dlen,     \* length on the durable image
  dh,       \* header on the durable image: [q (pages the region counts describe), prim, slots, rec]
  mh,       \* header in memory (its q is the layout in memory)
  pend,     \* unsynced backend calls, in order: [k |-> "len", q] | [k |-> "hdr", h]
  need,     \* version -> pages the file must have for it
  cur,      \* version being built (0: none), cstage
  cstage,
  nextVer, crashes, bad

vars == <<blen, dlen, dh, mh, pend, need, cur, cstage, nextVer, crashes, bad>>

ValidQ == {q \in (H + 2)..MaxQ : LayoutFromLen(q, 0, H, M).ok}
Slots(a, b) == <<a, b>>

Init ==
  /\ blen \in ValidQ /\ blen <= H + 3 /\ dlen = blen
  /\ dh = [q |-> blen, prim |-> 1, slots |-> Slots(0, 0), rec |-> TRUE] /\ mh = dh
  /\ pend = <<>> /\ need = (0 :> 0 @@ 1 :> 0) /\ cur = 0 /\ cstage = "idle"
  /\ nextVer = 1 /\ crashes = 0 /\ bad = FALSE

Persist ==
  LET lens == SelectSeq(pend, LAMBDA w : w.k = "len")
      hdrs == SelectSeq(pend, LAMBDA w : w.k = "hdr")
  IN /\ dlen' = IF lens = <<>> THEN dlen ELSE lens[Len(lens)].q
     /\ dh' = IF hdrs = <<>> THEN dh ELSE hdrs[Len(hdrs)].h
     /\ pend' = <<>>

\* The two rules of the discipline, as the trace specification (ResizeTrace.tla) applies them to the calls of the real code:
\* a header may name only space whose set_len is durable; the file is cut only to what the durable header names
HdrAllowed(q) == q <= dlen
TrimAllowed(q) == dh.q = q /\ \A i \in 1..Len(pend) : pend[i].k # "hdr"

\* a write transaction starts using space: need[cur] may rise up to the layout in memory
Begin ==
  /\ cstage = "idle" /\ nextVer <= MaxVer
  /\ cur' = nextVer /\ cstage' = "writing" /\ nextVer' = nextVer + 1
  /\ need' = (need @@ (nextVer + 1) :> 0)
  /\ UNCHANGED <<blen, dlen, dh, mh, pend, crashes, bad>>

Use(q) ==
  /\ cstage = "writing" /\ q > need[cur] /\ q <= mh.q
  /\ bad' = (bad \/ q > blen)                       \* C20: a page write beyond the current length of the storage
  /\ need' = [need EXCEPT ![cur] = q]
  /\ UNCHANGED <<blen, dlen, dh, mh, pend, cur, cstage, nextVer, crashes>>

\* grow(): set_len, sync_file, then the layout in memory
GrowSetLen(q) ==
  /\ cstage = "writing" /\ q \in ValidQ /\ q > mh.q
  /\ blen' = q /\ pend' = Append(pend, [k |-> "len", q |-> q])
  /\ cstage' = "growing"
  /\ UNCHANGED <<dlen, dh, mh, need, cur, nextVer, crashes, bad>>

GrowDone ==
  /\ cstage = "growing"
  /\ IF GrowSync THEN Persist ELSE UNCHANGED <<dlen, dh, pend>>
  /\ mh' = [mh EXCEPT !.q = blen]
  /\ cstage' = "writing"
  /\ UNCHANGED <<blen, need, cur, nextVer, crashes, bad>>

\* the pages both slots and the transaction hold: try_shrink() only gives up trailing FREE pages
InUse == LET a == IF ShrinkKeepsOld THEN need[mh.slots[1]] ELSE 0
             b == IF ShrinkKeepsOld THEN need[mh.slots[2]] ELSE 0
             c == need[cur] IN
         IF a >= b /\ a >= c THEN a ELSE IF b >= c THEN b ELSE c

\* commit(): optionally reduce the layout in memory first; header with counts and the new slot; flush
CommitHdr(q) ==
  /\ cstage = "writing"
  /\ q \in ValidQ /\ q <= mh.q /\ q >= InUse /\ q >= H + 2
  /\ LET sec == Other(mh.prim)
         h2 == [mh EXCEPT !.q = q, !.slots[sec] = cur, !.prim = sec] IN
       /\ mh' = h2
       /\ IF ShrinkFirst /\ q < blen
          THEN blen' = q /\ pend' = pend \o <<[k |-> "len", q |-> q], [k |-> "hdr", h |-> h2]>>
          ELSE blen' = blen /\ pend' = Append(pend, [k |-> "hdr", h |-> h2])
  /\ bad' = (bad \/ ~HdrAllowed(q))
  /\ cstage' = "flush"
  /\ UNCHANGED <<dlen, dh, need, cur, nextVer, crashes>>

CommitFlush ==
  /\ cstage = "flush"
  /\ Persist
  /\ cstage' = "trim"
  /\ UNCHANGED <<blen, mh, need, cur, nextVer, crashes, bad>>

\* if shrunk { storage.resize(header.layout().len()) } - not synced
CommitTrim ==
  /\ cstage = "trim"
  /\ IF mh.q < blen
     THEN blen' = mh.q /\ pend' = Append(pend, [k |-> "len", q |-> mh.q]) /\ bad' = (bad \/ ~TrimAllowed(mh.q))
     ELSE UNCHANGED <<blen, pend, bad>>
  /\ cur' = 0 /\ cstage' = "idle"
  /\ UNCHANGED <<dlen, dh, mh, need, nextVer, crashes>>

\* abort: the space stays (the layout in memory keeps what grow() added)
Abort ==
  /\ cstage = "writing"
  /\ need' = [need EXCEPT ![cur] = 0]
  /\ cur' = 0 /\ cstage' = "idle"
  /\ UNCHANGED <<blen, dlen, dh, mh, pend, nextVer, crashes, bad>>

\* clean close: the header with the recovery flag cleared and the counts of the layout in memory, flushed
Close ==
  /\ cstage = "idle"
  /\ mh' = [mh EXCEPT !.rec = FALSE]
  /\ pend' = Append(pend, [k |-> "hdr", h |-> mh'])
  /\ bad' = (bad \/ ~HdrAllowed(mh.q))
  /\ cstage' = "closing"
  /\ UNCHANGED <<blen, dlen, dh, need, cur, nextVer, crashes>>

CloseFlush ==
  /\ cstage = "closing" /\ Persist /\ cstage' = "closed"
  /\ UNCHANGED <<blen, mh, need, cur, nextVer, crashes, bad>>

\* open of a cleanly closed file: the counts are trusted, so they must describe the file exactly; begin_writable()
Reopen ==
  /\ cstage = "closed"
  /\ LET ld == LayoutDecision(dh.rec, dlen, 0, H, M, 0, 0, dh.q, 0) IN
       bad' = (bad \/ ld.err \/ dlen # dh.q \/ dh.rec)
  /\ mh' = [dh EXCEPT !.rec = TRUE]
  /\ pend' = Append(pend, [k |-> "hdr", h |-> mh'])
  /\ cstage' = "opening"
  /\ UNCHANGED <<blen, dlen, dh, need, cur, nextVer, crashes>>

ReopenFlush ==
  /\ cstage = "opening" /\ Persist /\ cstage' = "idle"
  /\ UNCHANGED <<blen, mh, need, cur, nextVer, crashes, bad>>

\* any other sync (a later flush)
Sync == cstage \in {"idle", "writing"} /\ Persist /\ UNCHANGED <<blen, mh, need, cur, cstage, nextVer, crashes, bad>>

\* The process dies: any subset of the unsynced calls reached the storage, in order.  The file is opened again
\* (recovery flag set): layout from the length; the slot it may serve must lie inside it.
RECURSIVE Apply(_, _, _, _)
Apply(ws, S, len, h) ==
  IF ws = <<>> THEN [len |-> len, h |-> h]
  ELSE LET i == Len(pend) - Len(ws) + 1
           w == Head(ws) IN
       IF i \notin S THEN Apply(Tail(ws), S, len, h)
       ELSE IF w.k = "len" THEN Apply(Tail(ws), S, w.q, h) ELSE Apply(Tail(ws), S, len, w.h)

Crash ==
  /\ crashes < MaxCrash
  /\ \E S \in SUBSET (1..Len(pend)) :
       LET d == Apply(pend, S, dlen, dh)
           ld == LayoutDecision(d.h.rec, d.len, 0, H, M, 0, 0, d.h.q, 0)
           \* (a cleanly closed file whose counts describe it exactly keeps them; a longer one is treated like a recovery)
           q == IF ~d.h.rec /\ d.len = d.h.q THEN d.h.q ELSE 1 + ld.full * (H + M) + (IF ld.trailing > 0 THEN H + ld.trailing ELSE 0)
       IN /\ bad' = (bad \/ ld.err                                      \* the open is refused
                         \/ need[d.h.slots[d.h.prim]] > q                \* the commit it serves names pages beyond the end
                         \/ need[d.h.slots[Other(d.h.prim)]] > q)        \* (the slot it may fall back to likewise)
          /\ dlen' = d.len /\ blen' = d.len
          \* (the open writes the header with the rebuilt counts back and flushes: Commit.tla's RFinalize)
          /\ dh' = [d.h EXCEPT !.q = IF ld.err THEN d.h.q ELSE q, !.rec = TRUE] /\ mh' = dh'
  /\ pend' = <<>> /\ cur' = 0 /\ cstage' = "idle" /\ crashes' = crashes + 1
  /\ need' = [v \in DOMAIN need |-> IF v = cur /\ cur # 0 THEN 0 ELSE need[v]]
  /\ UNCHANGED nextVer

Next ==
  \/ Begin \/ (\E q \in 1..MaxQ : Use(q) \/ GrowSetLen(q) \/ CommitHdr(q)) \/ GrowDone \/ CommitFlush \/ CommitTrim \/ Abort \/ Sync \/ Close \/ CloseFlush \/ Reopen \/ ReopenFlush \/ Crash

Spec == Init /\ [][Next]_vars

-----------------------------------------------------------------------------
\* every recovery finds a layout, and the commits it may serve lie inside the file; no write beyond the storage
Safe == ~bad

\* the layout in memory never names more than the storage has
WithinStorage == mh.q <= blen \/ cstage = "trim"

\* C20: the storage is never cut below a page still in use - the commit a reader may hold (the one the new commit
\* supersedes) included
ReadersWithin == need[mh.slots[1]] <= blen /\ need[mh.slots[2]] <= blen

\* whatever is durable: the header's counts never exceed the durable length by more than a pending trim explains,
\* i.e. the file is never shorter than what the durable header's slots need
DurableCovers == need[dh.slots[1]] <= dlen /\ need[dh.slots[2]] <= dlen
=============================================================================
