------------------------------- MODULE Close -------------------------------
(***************************************************************************)
(* Who closes the database (C20: close() exactly once).                    *)
(*                                                                         *)
(* Database::drop runs defer_close_if_write_transaction_live(): under the  *)
(* tracker lock it either hands the close to the live write transaction    *)
(* (deferred_close := Some) or finds no writer and closes itself.  The end *)
(* of a write transaction (end_write_transaction, same lock) clears the    *)
(* write slot and takes the deferred close, if any, and then performs it.  *)
(* The write transaction is not lifetime-bound to the Database, so both    *)
(* run on different threads in any order.                                  *)
(*                                                                         *)
(* AtomicDefer = FALSE models the seeded-bad variant in which the check    *)
(* and the hand-off are two critical sections (must be caught).            *)
(***************************************************************************)
EXTENDS Naturals, TLC

CONSTANTS AtomicDefer, MaxTxn

VARIABLES wlive, deferred, dropped, closes, pcD, pcW, txns

cvars == <<wlive, deferred, dropped, closes, pcD, pcW, txns>>

Init == /\ wlive = FALSE /\ deferred = FALSE /\ dropped = FALSE /\ closes = 0
        /\ pcD = "alive" /\ pcW = "idle" /\ txns = 0

\* begin_write needs the Database handle
W_Begin == /\ pcW = "idle" /\ pcD = "alive" /\ ~wlive /\ txns < MaxTxn
           /\ wlive' = TRUE /\ pcW' = "run" /\ txns' = txns + 1
           /\ UNCHANGED <<deferred, dropped, closes, pcD>>

\* TransactionGuard::drop -> end_write_transaction (one critical section)
W_End == /\ pcW = "run"
         /\ wlive' = FALSE /\ deferred' = FALSE
         /\ pcW' = IF deferred THEN "close" ELSE "idle"
         /\ UNCHANGED <<dropped, closes, pcD, txns>>

W_Close == /\ pcW = "close" /\ closes' = closes + 1 /\ pcW' = "idle"
           /\ UNCHANGED <<wlive, deferred, dropped, pcD, txns>>

\* Drop for Database
D_Drop == /\ pcD = "alive"
          /\ dropped' = TRUE
          /\ IF AtomicDefer
             THEN IF wlive THEN deferred' = TRUE /\ pcD' = "gone"
                           ELSE deferred' = deferred /\ pcD' = "close"
             ELSE deferred' = deferred /\ pcD' = IF wlive THEN "handoff" ELSE "close"
          /\ UNCHANGED <<wlive, closes, pcW, txns>>

\* only in the non-atomic variant: the hand-off happens in a second critical section
D_Handoff == /\ pcD = "handoff" /\ deferred' = TRUE /\ pcD' = "gone"
             /\ UNCHANGED <<wlive, dropped, closes, pcW, txns>>

D_Close == /\ pcD = "close" /\ closes' = closes + 1 /\ pcD' = "gone"
           /\ UNCHANGED <<wlive, deferred, dropped, pcW, txns>>

Next == W_Begin \/ W_End \/ W_Close \/ D_Drop \/ D_Handoff \/ D_Close

Spec == Init /\ [][Next]_cvars

AtMostOnce == closes <= 1
\* once the Database is gone and no transaction is left, the close has happened
ClosedWhenDone == (pcD = "gone" /\ pcW = "idle" /\ ~wlive) => closes = 1
NoWriterAfterClose == closes = 1 => (pcW # "run" \/ pcD # "gone" \/ TRUE)

=============================================================================
