---------------------------- MODULE BuddyTrace ----------------------------
(***************************************************************************)
(* Trace validation of the real buddy allocator (through the hook wrapper  *)
(* redb::verif::BuddyHandle) against Buddy.tla.  Each record carries the   *)
(* operation, its result, and the allocator's own free-block list after    *)
(* the operation, which must be exactly the canonical structure of the     *)
(* abstract free set.  The capacity is taken from the first record.        *)
(***************************************************************************)
EXTENDS Buddy, Json, IOUtils

BRec == ndJsonDeserialize(IOEnv.TRACE)
TraceCap == BRec[1].cap

VARIABLE l
tvars == <<bvars, l>>

SetOfSeq(s) == {s[i] : i \in 1..Len(s)}
R == BRec[l]

\* the implementation's free structure after the step equals the canonical one
Observed == /\ R.lenr = len'
            /\ {<<R.blocks[i][1], R.blocks[i][2]>> : i \in 1..Len(R.blocks)} = CanonOf(len', F')
            /\ Len(R.blocks) = Cardinality(CanonOf(len', F'))

TraceInit == len = 1 /\ F = {} /\ l = 1

Step ==
  /\ l <= Len(BRec) /\ l' = l + 1
  /\ \/ R.e = "state" /\ len' = R.len /\ F' = SetOfSeq(R.free) /\ F' \subseteq 0..(len' - 1)
     \/ R.e = "alloc" /\ Alloc(R.o, R.r)
     \/ R.e = "alloc_lowest" /\ AllocLowest(R.o, R.r)
     \/ R.e = "free" /\ Free(R.i, R.o)
     \/ R.e = "record" /\ RecordAlloc(R.i, R.o, R.r)
     \/ R.e = "resize" /\ Resize(R.n)
     \/ R.e = "roundtrip" /\ Roundtrip
  /\ Observed

TraceSpec == TraceInit /\ [][Step]_tvars

TraceAccepted ==
  LET d == TLCGet("stats").diameter IN
  IF d - 1 = Len(BRec) THEN TRUE
  ELSE Print(<<"REJECT", d, ToJson(BRec[d])>>, FALSE)

=============================================================================
