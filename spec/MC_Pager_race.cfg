SPECIFICATION Spec
CONSTANTS
  Pages = {p1, p2, p3, p4}
  Readers = {r1}
  Sps = {s1}
  MaxTxn = 3
  MaxSp = 2
  MaxTouch = 1
  HorizonSlack = 0
  AtomicBeginRead = FALSE
SYMMETRY Symm
INVARIANTS TypeOK Owner1 Pinned ReaderSeesCommitted AllocRecordsOk
PROPERTY AbortRestores
CHECK_DEADLOCK FALSE
