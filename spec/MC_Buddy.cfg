SPECIFICATION Spec
CONSTANT Cap = 8
INVARIANTS TypeOK CanonCoversF CanonDisjoint CanonMerged RefusalIffNothing
CHECK_DEADLOCK FALSE
