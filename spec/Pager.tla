------------------------------- MODULE Pager -------------------------------
(***************************************************************************)
(* Mechanism-level model of redb's page ownership: copy-on-write inside a  *)
(* write transaction, the pending-free queues (DATA_FREED / SYSTEM_FREED / *)
(* the in-memory records of non-durable commits), the allocation records   *)
(* kept for savepoints, the transaction tracker (read registrations,       *)
(* pending non-durable commits, savepoints), durable commits with their    *)
(* post-commit epilogue, non-durable commits, abort, savepoint restore.    *)
(*                                                                         *)
(* One action per critical section of the code (DESIGN.md appendix A).     *)
(* Steps of the writer between two accesses to shared state (tracker,      *)
(* published root) are merged: only the writer touches the rest.           *)
(*                                                                         *)
(* TLC checks, on every reachable state of small instances, the            *)
(* properties of C02 / C03 / C05 / C06 / C07 as invariants (Owner1, Pinned *)
(* AllocRecordsOk of PagerInv.tla through the projection Proj, plus        *)
(* ReaderSeesCommitted, OneWriter, AbortRestores).                         *)
(***************************************************************************)
EXTENDS Naturals, FiniteSets, Sequences, TLC

CONSTANTS
  Pages,      \* the pages of the file (model values, symmetric)
  Readers,    \* reader threads
  Sps,        \* savepoint handles
  MaxTxn,     \* bound on transaction ids
  MaxTouch,   \* bound on copy-on-write steps per transaction
  MaxSp,      \* bound on the number of savepoints ever created
  HorizonSlack, \* 0 in the real rule; 1 models the "oldest + 2" mistake (must be caught)
  AtomicBeginRead \* TRUE: begin_read reads id and root under one lock (the code since the fix recorded in
                  \* known_findings.txt); FALSE: the root is read later, outside the lock (must be caught)

VARIABLES
  alloc,     \* allocated pages
  unp,       \* pages allocated by non-durable commits (UnpersistedState.pages)
  post,      \* the epilogue's system pages (post_commit_allocations), subset of unp
  unpFreed,  \* in-memory data-freed records of non-durable commits: txn -> pages
  unpAlloc,  \* in-memory allocation records of non-durable commits: txn -> pages
  ver,       \* txn id -> committed version [data, sys, dfreed, sfreed, atbl]
  latest,    \* id of the version readers are served (durable or not)
  durable,   \* id of the last durable version
  tr,        \* the transaction tracker
  rd,        \* reader -> [st, id, root]
  sp,        \* savepoint handle -> [st, txn, root]
  w          \* the write transaction (program counter and locals)

vars == <<alloc, unp, post, unpFreed, unpAlloc, ver, latest, durable, tr, rd, sp, w>>

-----------------------------------------------------------------------------
EmptyF == <<>>
Dom(f) == DOMAIN f
Rng(f) == {f[x] : x \in DOMAIN f}
UnionRng(f) == UNION Rng(f)
Restrict(f, S) == [x \in S |-> f[x]]
Without(f, S) == [x \in DOMAIN f \ S |-> f[x]]
\* merge of two txn -> page-set maps
Merge(f, g) == [x \in DOMAIN f \cup DOMAIN g |->
                  (IF x \in DOMAIN f THEN f[x] ELSE {}) \cup (IF x \in DOMAIN g THEN g[x] ELSE {})]
AddTo(f, t, S) == IF S = {} THEN f ELSE Merge(f, t :> S)
MinOf(S) == CHOOSE x \in S : \A y \in S : x <= y

Inc(b, id) == IF id \in DOMAIN b THEN [b EXCEPT ![id] = @ + 1] ELSE b @@ (id :> 1)
Dec(b, id) == IF b[id] = 1 THEN Without(b, {id}) ELSE [b EXCEPT ![id] = @ - 1]

Free == Pages \ alloc
NoW == [pc |-> "idle"]

EmptyVer == [data |-> {}, sys |-> {}, dfreed |-> EmptyF, sfreed |-> EmptyF, atbl |-> EmptyF]

Init ==
  /\ alloc = {} /\ unp = {} /\ post = {} /\ unpFreed = EmptyF /\ unpAlloc = EmptyF
  /\ ver = (0 :> EmptyVer)
  /\ latest = 0 /\ durable = 0
  /\ tr = [live |-> EmptyF, next |-> 0, wlive |-> FALSE, pend |-> EmptyF, unproc |-> {}, validSp |-> EmptyF, nextSp |-> 1]
  /\ rd = [r \in Readers |-> [st |-> "idle"]]
  /\ sp = [s \in Sps |-> [st |-> "none"]]
  /\ w = NoW

-----------------------------------------------------------------------------
(* Readers: Database::begin_read = register (tracker lock, reads the latest *)
(* id), then - outside any lock - read the root.                           *)

R_Register(r) ==
  /\ rd[r].st = "idle"
  /\ rd' = [rd EXCEPT ![r] = IF AtomicBeginRead THEN [st |-> "read", id |-> latest, root |-> latest]
                                                 ELSE [st |-> "reg", id |-> latest]]
  /\ tr' = [tr EXCEPT !.live = Inc(@, latest)]
  /\ UNCHANGED <<alloc, unp, post, unpFreed, unpAlloc, ver, latest, durable, sp, w>>

R_ReadRoot(r) ==
  /\ rd[r].st = "reg"
  /\ rd' = [rd EXCEPT ![r] = [st |-> "read", id |-> rd[r].id, root |-> latest]]
  /\ UNCHANGED <<alloc, unp, post, unpFreed, unpAlloc, ver, latest, durable, tr, sp, w>>

R_Drop(r) ==
  /\ rd[r].st = "read"
  /\ rd' = [rd EXCEPT ![r] = [st |-> "idle"]]
  /\ tr' = [tr EXCEPT !.live = Dec(@, rd[r].id)]
  /\ UNCHANGED <<alloc, unp, post, unpFreed, unpAlloc, ver, latest, durable, sp, w>>

-----------------------------------------------------------------------------
(* Savepoint handles dropped from any thread: deallocate_savepoint takes   *)
(* the tracker lock twice.                                                 *)

SP_Drop1(s) ==
  /\ sp[s].st \in {"valid", "invalid"}
  /\ sp' = [sp EXCEPT ![s].st = "dropping"]
  /\ tr' = [tr EXCEPT !.validSp = Without(@, {s})]
  /\ UNCHANGED <<alloc, unp, post, unpFreed, unpAlloc, ver, latest, durable, rd, w>>

SP_Drop2(s) ==
  /\ sp[s].st = "dropping"
  /\ sp' = [sp EXCEPT ![s] = [st |-> "none"]]
  /\ tr' = [tr EXCEPT !.live = Dec(@, sp[s].txn)]
  /\ UNCHANGED <<alloc, unp, post, unpFreed, unpAlloc, ver, latest, durable, rd, w>>

-----------------------------------------------------------------------------
(* The write transaction *)

W_Begin ==
  /\ w.pc = "idle" /\ ~tr.wlive /\ tr.next < MaxTxn
  /\ tr' = [tr EXCEPT !.wlive = TRUE, !.next = @ + 1]
  /\ w' = [pc |-> "run", id |-> tr.next + 1, base |-> latest,
           data |-> ver[latest].data, sys |-> ver[latest].sys,
           dfreed |-> ver[latest].dfreed, sfreed |-> ver[latest].sfreed, atbl |-> ver[latest].atbl,
           freedData |-> {}, freedSys |-> {}, allocAll |-> {}, allocD |-> {},
           tracking |-> "unset", dirty |-> FALSE, touches |-> 0, restored |-> 0, didRestore |-> FALSE,
           aborted |-> FALSE, inval |-> {},
           allocAtBegin |-> alloc, h |-> 0, spH |-> 0, postFrees |-> {}, stored |-> FALSE]
  /\ UNCHANGED <<alloc, unp, post, unpFreed, unpAlloc, ver, latest, durable, rd, sp>>

\* first open of a table: the transaction becomes dirty; allocation tracking stays on only if a
\* savepoint exists at that moment (TableNamespace::set_dirty)
TrackingNext == IF w.tracking = "unset" THEN (IF DOMAIN tr.validSp # {} THEN "on" ELSE "off") ELSE w.tracking
Tracking == TrackingNext = "on"

\* copy-on-write of the data tree: page R (if any) is replaced, page N (if any) is new
W_Touch(R, N) ==
  /\ w.pc = "run" /\ w.touches < MaxTouch
  /\ R \subseteq w.data /\ N \subseteq Free /\ Cardinality(R) <= 1 /\ Cardinality(N) <= 1 /\ R \cup N # {}
  /\ LET uncommitted == R \cap w.allocAll IN
       /\ alloc' = (alloc \ uncommitted) \cup N
       /\ w' = [w EXCEPT !.data = (@ \ R) \cup N,
                         !.freedData = @ \cup (R \ uncommitted),
                         !.allocAll = (@ \ uncommitted) \cup N,
                         !.allocD = IF Tracking THEN (@ \ uncommitted) \cup N ELSE @,
                         !.tracking = TrackingNext, !.dirty = TRUE, !.touches = @ + 1]
  /\ UNCHANGED <<unp, post, unpFreed, unpAlloc, ver, latest, durable, tr, rd, sp>>

\* ephemeral_savepoint(): only in a clean transaction; registers a read of the latest commit
W_Savepoint(s) ==
  /\ w.pc = "run" /\ ~w.dirty /\ sp[s].st = "none" /\ tr.nextSp <= MaxSp
  /\ sp' = [sp EXCEPT ![s] = [st |-> "valid", txn |-> latest, root |-> latest, ord |-> tr.nextSp]]
  /\ tr' = [tr EXCEPT !.live = Inc(@, latest), !.validSp = @ @@ (s :> latest), !.nextSp = @ + 1]
  /\ UNCHANGED <<alloc, unp, post, unpFreed, unpAlloc, ver, latest, durable, rd, w>>

\* restore_savepoint(s): no table open (so nothing uncommitted is referenced by handles)
W_Restore(s) ==
  /\ w.pc = "run" /\ sp[s].st = "valid" /\ s \in DOMAIN tr.validSp /\ s \notin w.inval
  /\ LET t == sp[s].txn
         later == {x \in DOMAIN w.atbl : x > t}
         laterU == {x \in DOMAIN unpAlloc : x > t}
         tracked == w.allocD
     IN /\ alloc' = alloc \ tracked                       \* tracked allocations of this transaction
        /\ w' = [w EXCEPT !.data = ver[sp[s].root].data,
                          !.dfreed = Without(@, {x \in DOMAIN @ : x > t}),
                          !.freedData = UNION {w.atbl[x] : x \in later} \cup UNION {unpAlloc[x] : x \in laterU},
                          !.allocAll = @ \ tracked, !.allocD = {},
                          !.dirty = TRUE, !.tracking = TrackingNext, !.restored = t, !.didRestore = TRUE,
                          !.inval = @ \cup {x \in DOMAIN tr.validSp : sp[x].ord > sp[s].ord}]
  /\ UNCHANGED <<unp, post, unpFreed, unpAlloc, ver, latest, durable, tr, rd, sp>>

\* one copy-on-write of the system tree (writing the bookkeeping tables): page o replaced by n
SysCow(sys, allocAll, freedSys, n, o) ==
  IF o \notin sys THEN [sys |-> sys \cup {n}, freed |-> freedSys, gone |-> {}]      \* the tree grows
  ELSE [sys |-> (sys \ {o}) \cup {n},
        freed |-> IF o \in allocAll THEN freedSys ELSE freedSys \cup {o},
        gone |-> IF o \in allocAll THEN {o} ELSE {}]

\* which page a system-tree write replaces: any page of the tree, or none while the tree is small
Olds(sys) == IF Cardinality(sys) < 2 THEN sys \cup {CHOOSE x \in Pages : x \notin sys} ELSE sys

-----------------------------------------------------------------------------
(* Durable commit *)

OldestLive == IF DOMAIN tr.live = {} THEN 0 ELSE MinOf(DOMAIN tr.live)
HasLive == DOMAIN tr.live # {}

\* adopt the epilogue's pages, write out the in-memory freed records, store this transaction's
\* freed pages, compute the horizon from the oldest live read, free what is older
D_Horizon ==
  /\ w.pc = "run"
  /\ LET adopted == post
         uf == IF w.didRestore THEN Without(unpFreed, {x \in DOMAIN unpFreed : x > w.restored}) ELSE unpFreed
         df1 == Merge(w.dfreed, uf)
         df2 == AddTo(df1, w.id, w.freedData)
         h == IF HasLive THEN OldestLive + 1 + HorizonSlack ELSE w.id
         goneD == {x \in DOMAIN df2 : x < h}
         goneS == {x \in DOMAIN w.sfreed : x < h}
         freedNow == UNION {df2[x] : x \in goneD} \cup UNION {w.sfreed[x] : x \in goneS}
     IN /\ alloc' = alloc \ freedNow
        /\ unp' = unp \ adopted
        /\ post' = {}
        /\ unpFreed' = EmptyF
        /\ tr' = [tr EXCEPT !.unproc = @ \ (goneD \cup goneS)]
        /\ w' = [w EXCEPT !.pc = "d_flush", !.h = h, !.allocAll = @ \cup adopted,
                          !.dfreed = Without(df2, goneD), !.sfreed = Without(@, goneS), !.freedData = {}]
  /\ UNCHANGED <<unpAlloc, ver, latest, durable, rd, sp>>

\* flush the allocation records, purge those older than the oldest surviving savepoint, build the
\* system root
D_Flush(n, o) ==
  /\ w.pc = "d_flush" /\ n \in Free /\ o \in Olds(w.sys)
  /\ LET at1 == AddTo(Merge(w.atbl, unpAlloc), w.id, w.allocD)
         surviving == {s \in DOMAIN tr.validSp : s \notin w.inval}
         oldest == IF surviving = {} THEN MaxTxn + 10 ELSE MinOf({tr.validSp[s] : s \in surviving})
         at2 == Without(at1, {x \in DOMAIN at1 : x < oldest})
         c == SysCow(w.sys, w.allocAll, w.freedSys, n, o)
     IN /\ alloc' = (alloc \ c.gone) \cup {n}
        /\ unpAlloc' = EmptyF
        /\ w' = [w EXCEPT !.pc = "d_publish", !.atbl = at2, !.spH = oldest, !.sys = c.sys, !.freedSys = c.freed,
                          !.allocAll = (@ \ c.gone) \cup {n}]
  /\ UNCHANGED <<unp, post, unpFreed, ver, latest, durable, tr, rd, sp>>

\* TransactionalMemory::commit: the new root becomes the durable primary and the served root
D_Publish ==
  /\ w.pc = "d_publish"
  /\ ver' = ver @@ (w.id :> [data |-> w.data, sys |-> w.sys, dfreed |-> w.dfreed, sfreed |-> w.sfreed, atbl |-> w.atbl])
  /\ latest' = w.id /\ durable' = w.id
  /\ unp' = {}
  /\ w' = [w EXCEPT !.pc = "d_after", !.allocAll = {}]
  /\ UNCHANGED <<alloc, post, unpFreed, unpAlloc, tr, rd, sp>>

\* clear_pending_non_durable_commits, free the system pages replaced by this commit, apply the
\* staged savepoint invalidations
D_After ==
  /\ w.pc = "d_after"
  /\ LET anc == tr.pend
         live1 == [id \in {x \in DOMAIN tr.live : tr.live[x] > Cardinality({n \in DOMAIN anc : anc[n] = x})} |->
                     tr.live[id] - Cardinality({n \in DOMAIN anc : anc[n] = id})]
     IN tr' = [tr EXCEPT !.pend = EmptyF, !.live = live1, !.validSp = Without(@, w.inval)]
  /\ alloc' = alloc \ w.freedSys
  /\ sp' = [s \in Sps |-> IF s \in w.inval /\ sp[s].st = "valid" THEN [sp[s] EXCEPT !.st = "invalid"] ELSE sp[s]]
  /\ w' = [w EXCEPT !.pc = "e_horizon", !.freedSys = {}]
  /\ UNCHANGED <<unp, post, unpFreed, unpAlloc, ver, latest, durable, rd>>

\* the epilogue: horizon recomputed (clamped to the savepoint horizon), data pages freed, the
\* result published as the non-durable commit id+1
E_Horizon ==
  /\ w.pc = "e_horizon"
  /\ LET h0 == IF HasLive THEN OldestLive + 1 + HorizonSlack ELSE w.id + 1
         h == IF w.spH <= MaxTxn /\ w.spH + 1 < h0 THEN w.spH + 1 ELSE h0
         goneD == {x \in DOMAIN w.dfreed : x < h}
         freedNow == UNION {w.dfreed[x] : x \in goneD}
     IN IF freedNow = {}
        THEN /\ w' = [w EXCEPT !.pc = "end"]
             /\ UNCHANGED <<alloc, tr>>
        ELSE /\ alloc' = alloc \ freedNow
             /\ tr' = [tr EXCEPT !.unproc = @ \ goneD]
             /\ w' = [w EXCEPT !.pc = "e_build", !.dfreed = Without(@, goneD)]
  /\ UNCHANGED <<unp, post, unpFreed, unpAlloc, ver, latest, durable, rd, sp>>

E_Build(n, o) ==
  /\ w.pc = "e_build" /\ n \in Free /\ w.id < MaxTxn /\ o \in Olds(w.sys)
  /\ LET c == SysCow(w.sys, {}, {}, n, o) IN
       /\ alloc' = alloc \cup {n}
       /\ w' = [w EXCEPT !.pc = "e_publish", !.sys = c.sys, !.sfreed = AddTo(@, w.id + 1, c.freed),
                         !.allocAll = {n}, !.stored = c.freed # {}]
  /\ UNCHANGED <<unp, post, unpFreed, unpAlloc, ver, latest, durable, tr, rd, sp>>

E_Publish ==
  /\ w.pc = "e_publish"
  /\ ver' = ver @@ (w.id + 1 :> [data |-> w.data, sys |-> w.sys, dfreed |-> w.dfreed, sfreed |-> w.sfreed, atbl |-> w.atbl])
  /\ latest' = w.id + 1
  /\ unp' = unp \cup w.allocAll /\ post' = post \cup w.allocAll
  /\ w' = [w EXCEPT !.pc = "e_register", !.allocAll = {}]
  /\ UNCHANGED <<alloc, unpFreed, unpAlloc, durable, tr, rd, sp>>

E_Register ==
  /\ w.pc = "e_register"
  /\ tr' = [tr EXCEPT !.next = w.id + 1, !.pend = @ @@ (w.id + 1 :> w.id), !.live = Inc(@, w.id),
                      !.unproc = IF w.stored THEN @ \cup {w.id + 1} ELSE @]
  /\ w' = [w EXCEPT !.pc = "end"]
  /\ UNCHANGED <<alloc, unp, post, unpFreed, unpAlloc, ver, latest, durable, rd, sp>>

-----------------------------------------------------------------------------
(* Non-durable commit *)

OldestLiveND ==
  LET c == {x \in DOMAIN tr.live : x \in DOMAIN tr.pend} IN IF c = {} THEN 0 ELSE MinOf(c)

N_Horizon ==
  /\ w.pc = "run"
  /\ LET uf1 == IF w.didRestore THEN Without(unpFreed, {x \in DOMAIN unpFreed : x > w.restored}) ELSE unpFreed
         uf2 == AddTo(uf1, w.id, w.freedData)
         c == {x \in DOMAIN tr.live : x \in DOMAIN tr.pend}
         h == IF c = {} THEN w.id ELSE MinOf(c) + 1
         first == IF tr.unproc = {} THEN h ELSE MinOf(tr.unproc)
         cand == {x \in DOMAIN uf2 : x >= first /\ x < h}
         \* only unpersisted pages may be reclaimed by a non-durable commit
         freedNow == UNION {uf2[x] \cap unp : x \in cand}
         candS == {x \in DOMAIN w.sfreed : x >= first /\ x < h /\ x \in tr.unproc}
         freedS == UNION {w.sfreed[x] \cap unp : x \in candS}
         uf3 == [x \in {y \in DOMAIN uf2 : uf2[y] \ freedNow # {}} |-> uf2[x] \ freedNow]
         sf3 == [x \in {y \in DOMAIN w.sfreed : w.sfreed[y] \ freedS # {}} |-> w.sfreed[x] \ freedS]
     IN /\ alloc' = alloc \ (freedNow \cup freedS)
        /\ unp' = unp \ (freedNow \cup freedS)
        /\ post' = post \ (freedNow \cup freedS)
        /\ unpAlloc' = [x \in {y \in DOMAIN unpAlloc : unpAlloc[y] \ freedNow # {}} |-> unpAlloc[x] \ freedNow]
        /\ unpFreed' = uf3
        /\ tr' = [tr EXCEPT !.unproc = @ \ (cand \cup candS)]
        /\ w' = [w EXCEPT !.pc = "n_build", !.h = h, !.sfreed = sf3, !.stored = w.freedData # {}, !.freedData = {}]
  /\ UNCHANGED <<ver, latest, durable, rd, sp>>

N_Build(n, o) ==
  /\ w.pc = "n_build" /\ n \in Free /\ o \in Olds(w.sys)
  /\ LET c == SysCow(w.sys, w.allocAll, {}, n, o)
         unpers == c.freed \cap unp            \* freed after the publish (post-commit frees)
         keep == c.freed \ unp
     IN /\ alloc' = (alloc \ c.gone) \cup {n}
        /\ w' = [w EXCEPT !.pc = "n_publish", !.sys = c.sys, !.sfreed = AddTo(@, w.id, keep),
                          !.allocAll = (@ \ c.gone) \cup {n}, !.postFrees = unpers,
                          !.stored = @ \/ keep # {}]
  /\ UNCHANGED <<unp, post, unpFreed, unpAlloc, ver, latest, durable, tr, rd, sp>>

N_Publish ==
  /\ w.pc = "n_publish"
  /\ ver' = ver @@ (w.id :> [data |-> w.data, sys |-> w.sys, dfreed |-> w.dfreed, sfreed |-> w.sfreed, atbl |-> w.atbl])
  /\ latest' = w.id
  /\ unp' = unp \cup w.allocAll
  /\ w' = [w EXCEPT !.pc = "n_register"]
  /\ UNCHANGED <<alloc, post, unpFreed, unpAlloc, durable, tr, rd, sp>>

N_Register ==
  /\ w.pc = "n_register"
  /\ unpAlloc' = AddTo(unpAlloc, w.id, w.allocD)
  /\ tr' = [tr EXCEPT !.pend = @ @@ (w.id :> durable), !.live = Inc(@, durable),
                      !.unproc = IF w.stored THEN @ \cup {w.id} ELSE @,
                      !.validSp = Without(@, w.inval)]
  /\ sp' = [s \in Sps |-> IF s \in w.inval /\ sp[s].st = "valid" THEN [sp[s] EXCEPT !.st = "invalid"] ELSE sp[s]]
  /\ alloc' = alloc \ w.postFrees
  /\ unp' = unp \ w.postFrees
  /\ post' = post \ w.postFrees
  /\ w' = [w EXCEPT !.pc = "end", !.allocAll = {}, !.postFrees = {}]
  /\ UNCHANGED <<unpFreed, ver, latest, durable, rd>>

-----------------------------------------------------------------------------
(* Abort / end *)

W_Abort ==
  /\ w.pc = "run"
  /\ alloc' = alloc \ w.allocAll          \* rollback_all
  /\ w' = [w EXCEPT !.pc = "end", !.allocAll = {}, !.aborted = TRUE]
  /\ UNCHANGED <<unp, post, unpFreed, unpAlloc, ver, latest, durable, tr, rd, sp>>

W_End ==
  /\ w.pc = "end"
  /\ tr' = [tr EXCEPT !.wlive = FALSE]
  /\ w' = NoW
  /\ UNCHANGED <<alloc, unp, post, unpFreed, unpAlloc, ver, latest, durable, rd, sp>>

-----------------------------------------------------------------------------
Next ==
  \/ \E r \in Readers : R_Register(r) \/ R_ReadRoot(r) \/ R_Drop(r)
  \/ \E s \in Sps : SP_Drop1(s) \/ SP_Drop2(s) \/ W_Savepoint(s) \/ W_Restore(s)
  \/ W_Begin \/ W_Abort \/ W_End
  \/ \E R \in SUBSET Pages, N \in SUBSET Pages : W_Touch(R, N)
  \/ D_Horizon \/ D_Publish \/ D_After \/ E_Horizon \/ E_Publish \/ E_Register
  \/ \E n \in Pages, o \in Pages : D_Flush(n, o) \/ E_Build(n, o) \/ N_Build(n, o)
  \/ N_Horizon \/ N_Publish \/ N_Register

Spec == Init /\ [][Next]_vars

-----------------------------------------------------------------------------
(* Invariants *)

\* the projection onto the accounting record of PagerInv.tla, at transaction boundaries
AtBoundary == w.pc = "idle"
Cur == ver[latest]

OwnersOf(v) == v.data \cup v.sys \cup UnionRng(v.dfreed) \cup UnionRng(v.sfreed) \cup UnionRng(unpFreed)

SumCard(f) == LET RECURSIVE S(_) S(D) == IF D = {} THEN 0 ELSE LET x == CHOOSE y \in D : TRUE IN Cardinality(f[x]) + S(D \ {x})
              IN S(DOMAIN f)

\* C06: at every transaction boundary every allocated page has exactly one owner
Owner1 ==
  AtBoundary =>
    /\ alloc = OwnersOf(Cur)
    /\ Cardinality(Cur.data) + Cardinality(Cur.sys) + SumCard(Cur.dfreed) + SumCard(Cur.sfreed) + SumCard(unpFreed)
         = Cardinality(OwnersOf(Cur))

\* C02 / C06 / C07: in EVERY state, the pages of the durable commit, of every reader's snapshot and
\* of every valid savepoint are allocated (hence never rewritten: pages are written only when
\* freshly allocated)
\* readers and savepoints only ever read the data tree; the system tree is read by writers and by
\* recovery, so only the durable commit pins it
PinnedRoots == {rd[r].root : r \in {x \in Readers : rd[x].st = "read"}}
               \cup {sp[s].root : s \in {x \in Sps : sp[x].st = "valid"}}
Pinned ==
  /\ ver[durable].data \cup ver[durable].sys \subseteq alloc
  /\ \A t \in PinnedRoots : ver[t].data \subseteq alloc

\* C03: a reader's registered id is never newer than the root it reads, and the root is a
\* committed version
ReaderSeesCommitted ==
  \A r \in Readers : rd[r].st = "read" => rd[r].id <= rd[r].root /\ rd[r].root \in DOMAIN ver

\* the allocation records never name a free page
AllocRecordsOk ==
  /\ AtBoundary => UnionRng(Cur.atbl) \subseteq alloc
  /\ AtBoundary => UnionRng(unpAlloc) \subseteq alloc
  /\ unp \subseteq alloc /\ post \subseteq unp

\* a non-durable commit never frees a page the durable commit can reach
DurableIntact == ver[durable].data \cup ver[durable].sys \subseteq alloc

TypeOK ==
  /\ alloc \subseteq Pages
  /\ latest \in DOMAIN ver /\ durable \in DOMAIN ver /\ durable <= latest

\* C05: an aborted transaction gives back exactly what it took
AbortRestores ==
  [][(w.pc = "run" /\ w'.pc = "end" /\ w'.aborted) => alloc' = w.allocAtBegin]_vars

\* used to bound the model
Constraint == tr.next <= MaxTxn

Symm == Permutations(Pages) \cup Permutations(Readers) \cup Permutations(Sps)

=============================================================================
