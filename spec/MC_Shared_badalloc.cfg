SPECIFICATION Spec
CONSTANTS Workers = {1, 2}
          Pages = {1, 2, 3, 4, 5}
          MaxOps = 2
          MaxSp = 2
          LockedSavepoint = TRUE
          LockedAlloc = FALSE
INVARIANTS TypeOK NoSharedPage TrackingOk Accounting Eligibility
CHECK_DEADLOCK FALSE
