------------------------------ MODULE Compact ------------------------------
(***************************************************************************)
(* Database::compact() as an algorithm on page positions (C13).            *)
(*                                                                         *)
(* The committed state is a forest of pages (table trees under the two     *)
(* master trees); every page sits at a position of the file.  One pass     *)
(* (WriteTransaction::compact_pages + commit + drain_pending_free_pages):  *)
(*   - walk the pages from the highest position down;                      *)
(*   - for a page not yet relocated take the LOWEST free position          *)
(*     (allocate_lowest - it extends the file if nothing is free);         *)
(*     if it is lower than the page's own position the page moves there,   *)
(*     and every ancestor of the page that has not moved yet is rewritten  *)
(*     too (copy on write: its child pointer changes) - each to the lowest *)
(*     free position at that moment, wherever that is;                     *)
(*     otherwise the position is given back and the pass ends;             *)
(*   - positions vacated in a pass become free only after its commit;      *)
(*   - after the commit the file is trimmed to its highest used position.  *)
(* compact() repeats passes until one moves nothing.                       *)
(*                                                                         *)
(* TLC checks, for EVERY forest shape over N pages and EVERY placement in  *)
(* a file of up to MaxPos positions: the loop ends within Bound passes     *)
(* (no cycle), the forest is the same forest afterwards, no two pages ever *)
(* share a position, the file is never longer at the end than at the       *)
(* start although a pass may extend it on the way, and at the end the file *)
(* has no hole at all.  Pages are of one size here (order 0).              *)
(***************************************************************************)
EXTENDS Naturals, FiniteSets, Sequences, SequencesExt, TLC

CONSTANTS N, MaxPos, Bound

Nodes == 1..N

VARIABLES parent,   \* Node -> parent node, 0 for a root
          pos,      \* Node -> position
          len,      \* length of the file (highest position it has)
          len0,     \* length when compact() was called
          passes, done

vars == <<parent, pos, len, len0, passes, done>>

RECURSIVE Ancestors(_, _)
Ancestors(par, n) == IF par[n] = 0 THEN {} ELSE {par[n]} \cup Ancestors(par, par[n])

\* forests: parent[n] < n rules out cycles and covers every shape up to renaming
Forests == {f \in [Nodes -> 0..N] : \A n \in Nodes : f[n] < n}
Placements == {p \in [Nodes -> 1..MaxPos] : \A a, b \in Nodes : a # b => p[a] # p[b]}

MaxOf(S) == CHOOSE x \in S : \A y \in S : y <= x
MinOf(S) == CHOOSE x \in S : \A y \in S : x <= y

Init ==
  /\ parent \in Forests /\ pos \in Placements
  /\ len = MaxOf({pos[n] : n \in Nodes}) /\ len0 = len      \* (the drain before the first pass has trimmed the file)
  /\ passes = 0 /\ done = FALSE

\* lowest position that is neither occupied in the committed state (vacated ones stay occupied until the commit)
\* nor handed out in this pass; beyond the end of the file if there is none (allocate_lowest grows the file)
Lowest(taken) == MinOf((1..(MaxPos + N + 1)) \ taken)

\* the not yet relocated ancestors of a moved page, one after the other, each to the lowest free position at that moment
RECURSIVE PlaceAll(_, _, _)
PlaceAll(seq, moved, taken) ==
  IF seq = <<>> THEN [moved |-> moved, taken |-> taken]
  ELSE LET q == Lowest(taken) IN PlaceAll(Tail(seq), (Head(seq) :> q) @@ moved, taken \cup {q})

\* one pass: `order` = pages from the highest position down; `moved` = the relocation map built so far
RECURSIVE Walk(_, _, _)
Walk(order, moved, taken) ==
  IF order = <<>> THEN moved
  ELSE LET p == Head(order) IN
       IF p \in DOMAIN moved THEN Walk(Tail(order), moved, taken)
       ELSE LET q == Lowest(taken) IN
            IF q < pos[p]
            THEN LET anc == {a \in Ancestors(parent, p) : a \notin DOMAIN moved}
                     res == PlaceAll(SetToSortSeq(anc, LAMBDA a, b : a > b), (p :> q) @@ moved, taken \cup {q})
                 IN Walk(Tail(order), res.moved, res.taken)
            ELSE moved          \* the position is given back; the pass ends here

Pass ==
  /\ ~done
  /\ LET order == SetToSortSeq(Nodes, LAMBDA a, b : pos[a] > pos[b])
         moved == Walk(order, <<>>, {pos[n] : n \in Nodes})
     IN IF DOMAIN moved = {}
        THEN done' = TRUE /\ UNCHANGED <<pos, len, passes>>
        ELSE /\ pos' = [n \in Nodes |-> IF n \in DOMAIN moved THEN moved[n] ELSE pos[n]]
             /\ len' = MaxOf({pos'[n] : n \in Nodes})          \* drain + ShrinkPolicy::Maximum
             /\ passes' = passes + 1 /\ UNCHANGED done
  /\ UNCHANGED <<parent, len0>>

Spec == Init /\ [][Pass]_vars

-----------------------------------------------------------------------------
NoSharedPosition == \A a, b \in Nodes : a # b => pos[a] # pos[b]
Terminates == passes <= Bound
\* when compact() returns: not longer than before, and no hole below the highest page
EndState == done => (len <= len0 /\ {pos[n] : n \in Nodes} = 1..N)
\* (a pass may extend the file on the way: TLC reports how far with LongestOnTheWay)
NeverLonger == len <= len0
=============================================================================
