---------------------------- MODULE KvDispatch ----------------------------
(***************************************************************************)
(* One record (event) -> the Kv action it is an instance of.  A record has *)
(* the field e (the API call), the call's arguments, and r (the result).   *)
(* Shared by KvTrace (records come from the real code) and MC_Kv (records  *)
(* are enumerated over small constants with the result computed).          *)
(***************************************************************************)
EXTENDS Kv

\* a read through a read transaction opens the table first: if that fails (the table does not exist in
\* the snapshot, or has another kind / other types) the call reports exactly that error
RdErr(R) ==
  IF ~("src" \in DOMAIN R) \/ R.src = "w" \/ ~("kind" \in DOMAIN R) \/ ~SrcOk(R.src) THEN ""
  ELSE LET T == Tables(R.src) IN
       IF R.n \notin DOMAIN T THEN "TableDoesNotExist" ELSE MatchErr(T, R.n, R.kind, R.kt, R.vt, TRUE)

\* holding an iterator / the values of a multimap key opens the table first, like any read through a read transaction
HoldErr(R, kind) ==
  IF ~SrcOk(R.src) THEN ""
  ELSE LET T == Tables(R.src) IN
       IF R.n \notin DOMAIN T THEN "TableDoesNotExist" ELSE MatchErr(T, R.n, kind, R.kt, R.vt, TRUE)

Do(R) ==
  \/ /\ R.e = "hold" /\ HoldErr(R, "t") # "" /\ IsE(R.r, HoldErr(R, "t")) /\ UNCHANGED kvVars
  \/ /\ R.e = "mhold" /\ HoldErr(R, "m") # "" /\ IsE(R.r, HoldErr(R, "m")) /\ UNCHANGED kvVars
  \/ /\ R.e \in {"get", "len", "edge", "range", "mget", "mrange", "rcursor"} /\ RdErr(R) # ""
     /\ IsE(R.r, RdErr(R)) /\ UNCHANGED kvVars
  \/ R.e = "bw"      /\ BeginWrite(R.r)
  \/ R.e = "dur"     /\ SetDurability(R.d, R.r)
  \/ R.e = "cbegin"  /\ CommitBegin
  \/ R.e = "cend"    /\ CommitEnd(R.r)
  \/ R.e = "abort"   /\ Abort(R.r)
  \/ R.e = "br"      /\ BeginRead(R.h, R.r)
  \/ R.e = "dr"      /\ DropRead(R.h)
  \/ R.e = "brs"     /\ BeginReadStart(R.h)
  \/ R.e = "bre"     /\ BeginReadEnd(R.h, R.r)
  \/ R.e = "open"    /\ OpenW(R.n, R.kind, R.kt, R.vt, R.r)
  \/ R.e = "close"   /\ CloseW(R.n)
  \/ R.e = "ropen"   /\ OpenR(R.h, R.n, R.kind, R.kt, R.vt, R.r)
  \/ R.e = "rename"  /\ Rename(R.a, R.b, R.kind, R.r)
  \/ R.e = "delete"  /\ Delete(R.a, R.kind, R.r)
  \/ R.e = "list"    /\ List(R.src, R.kind, R.r)
  \/ R.e = "get" /\ RdErr(R) = ""     /\ Get(R.src, R.n, R.k, R.r)
  \/ R.e = "len" /\ RdErr(R) = ""     /\ LenOp(R.src, R.n, R.r)
  \/ R.e = "edge" /\ RdErr(R) = ""    /\ Edge(R.src, R.n, R.last, R.r)
  \/ R.e = "range" /\ RdErr(R) = ""   /\ RangeOp(R.src, R.n, R.lo, R.hi, R.cnt, R.rev, R.alt, R.r)
  \/ R.e = "ins"     /\ Insert(R.n, R.k, R.v, R.r)
  \/ R.e = "insr"    /\ InsertReserve(R.n, R.k, R.v, R.r)
  \/ R.e = "getmut"  /\ GetMut(R.n, R.k, R.v, R.r)
  \/ R.e = "entry"   /\ EntryOp(R.n, R.k, R.v, R.variant, R.r)
  \/ R.e = "rem"     /\ Remove(R.n, R.k, R.r)
  \/ R.e = "pop"     /\ Pop(R.n, R.last, R.r)
  \/ R.e = "retain"  /\ Retain(R.n, R.lo, R.hi, R.p, R.r)
  \/ R.e = "extract" /\ Extract(R.n, R.lo, R.hi, R.p, R.cnt, R.rev, R.alt, R.r)
  \/ R.e = "predpanic" /\ PredicatePanic(R.n)
  \/ R.e = "cur_open" /\ CurOpen(R.n, R.b, R.upper, R.r)
  \/ R.e = "cur"     /\ CurOp(R.op, R.k, R.v, R.r)
  \/ R.e = "cur_close" /\ CurClose(R.r)
  \/ R.e = "rcursor" /\ RdErr(R) = "" /\ RCursor(R.src, R.n, R.b, R.upper, R.ops, R.r)
  \/ R.e = "mins"    /\ MInsert(R.n, R.k, R.v, R.r)
  \/ R.e = "mrem"    /\ MRemove(R.n, R.k, R.v, R.r)
  \/ R.e = "mremall" /\ MRemoveAll(R.n, R.k, R.r)
  \/ R.e = "mget" /\ RdErr(R) = ""    /\ MGet(R.src, R.n, R.k, R.r)
  \/ R.e = "mrange" /\ RdErr(R) = ""  /\ MRange(R.src, R.n, R.lo, R.hi, R.rev, R.r)
  \/ R.e = "hold"    /\ Hold(R.it, R.src, R.n, R.lo, R.hi, R.r)
  \/ R.e = "itnext"  /\ ItNext(R.it, R.cnt, R.rev, R.r)
  \/ R.e = "itdrop"  /\ ItDrop(R.it)
  \/ R.e = "mhold"   /\ MHold(R.it, R.src, R.n, R.k, R.r)
  \/ R.e = "mitnext" /\ MItNext(R.it, R.cnt, R.rev, R.r)
  \/ R.e = "uhold"   /\ UHold(R.it, R.src, R.n, R.kind, R.r)
  \/ R.e = "ustats"  /\ UStats(R.it, R.r, R.first)
  \/ R.e = "spe"     /\ EphSavepoint(R.s, R.r)
  \/ R.e = "spdrop"  /\ EphDrop(R.s)
  \/ R.e = "spp"     /\ PersSavepoint(R.r)
  \/ R.e = "spdel"   /\ DeletePersSavepoint(R.id, R.r)
  \/ R.e = "splist"  /\ ListPersSavepoints(R.r)
  \/ R.e = "spreste" /\ RestoreEph(R.s, R.r)
  \/ R.e = "sprestp" /\ RestorePers(R.id, R.r)
  \/ R.e = "compact" /\ Compact(R.r, R)
  \/ R.e = "integrity" /\ CheckIntegrity(R.r, R.stale, R)
  \/ R.e = "reopen"  /\ Reopen(R.obs)
  \/ R.e = "crash"   /\ Crash(R.obs)
  \/ R.e = "probe"   /\ CrashProbe(R)
  \/ R.e = "cprobe"  /\ CorruptProbe(R)
  \/ R.e = "dump"    /\ Dump(R.src, R.obs)

=============================================================================
