SPECIFICATION TraceSpec
CONSTANTS Pages = {1, 2, 3, 4, 5, 6, 7, 8}
          MaxCache = 1000000
          MaxVal = 100000000
          Faults = 100000000
          LoseOnFailedWriteback = FALSE
INVARIANT TraceInv
POSTCONDITION TraceAccepted
CHECK_DEADLOCK FALSE
