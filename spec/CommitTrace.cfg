SPECIFICATION TraceSpec
CONSTANTS MaxVer = 1000000
          MaxParts = 100000000
          MaxCrash = 0
          MaxGrow = 100000000
          TornHeader = FALSE
          SyncBeforeFlip = TRUE
          PickNewer = TRUE
          SavepointTwoPhase = FALSE
          SavepointPreFlush = TRUE
          RepairSync = TRUE
INVARIANT TraceInv
POSTCONDITION TraceAccepted
CHECK_DEADLOCK FALSE
