SPECIFICATION Spec
CONSTANTS Workers = {1, 2, 3}
          Pages = {1, 2, 3, 4, 5, 6}
          MaxOps = 2
          MaxSp = 3
          LockedSavepoint = TRUE
          LockedAlloc = TRUE
INVARIANTS TypeOK NoSharedPage TrackingOk Accounting Eligibility
CHECK_DEADLOCK FALSE
