SPECIFICATION TraceSpec
CONSTANTS H = 0
          M = 4
          MaxQ = 4
          MaxVer = 1
          MaxCrash = 0
          GrowSync = TRUE
          ShrinkFirst = FALSE
          ShrinkKeepsOld = TRUE
POSTCONDITION TraceAccepted
CHECK_DEADLOCK FALSE
