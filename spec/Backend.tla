------------------------------ MODULE Backend ------------------------------
(***************************************************************************)
(* The usage contract of redb::StorageBackend (C20), as a state machine    *)
(* over the calls redb makes on one backend instance:                      *)
(*   - reads and writes lie within the current length;                     *)
(*   - nothing is called after close(), and close() is called exactly once *)
(*     by the time redb is done with the backend (Database dropped and no  *)
(*     transaction left, or the open failed);                              *)
(*   - a backend opened read-only sees no write, set_len or sync_data.     *)
(* "Never shrinks below a page still in use" shows up here as a later read *)
(* or write beyond the length.                                             *)
(***************************************************************************)
EXTENDS Naturals, Sequences, TLC

VARIABLES len, closed, closes, ro

bkVars == <<len, closed, closes, ro>>

Init == len = 0 /\ closed = FALSE /\ closes = 0 /\ ro = FALSE

\* the backend is handed to redb (Builder::create_with_backend / open)
Open(n, readonly) == len' = n /\ closed' = FALSE /\ closes' = 0 /\ ro' = readonly

CallLen == ~closed /\ UNCHANGED bkVars
Read(off, n) == ~closed /\ off + n <= len /\ UNCHANGED bkVars
Write(off, n) == ~closed /\ ~ro /\ off + n <= len /\ UNCHANGED bkVars
SetLen(n) == ~closed /\ ~ro /\ len' = n /\ UNCHANGED <<closed, closes, ro>>
Sync == ~closed /\ ~ro /\ UNCHANGED bkVars
Close == ~closed /\ closed' = TRUE /\ closes' = closes + 1 /\ UNCHANGED <<len, ro>>
\* redb has let go of the backend: by now it must have been closed, exactly once
Done == closed /\ closes = 1 /\ UNCHANGED bkVars

=============================================================================
