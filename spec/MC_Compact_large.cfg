SPECIFICATION Spec
CONSTANTS N = 5
          MaxPos = 6
          Bound = 14
INVARIANTS NoSharedPosition Terminates EndState
CHECK_DEADLOCK FALSE
