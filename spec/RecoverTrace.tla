---------------------------- MODULE RecoverTrace ----------------------------
(***************************************************************************)
(* Conformance of the open-time decisions: one record per (deduplicated)   *)
(* crash image the real code was given.  `pre` is the image as the         *)
(* independent decoder sees it, `post` the header after redb opened it (or *)
(* the error).  The record is accepted iff `post` is what RecoverOps says  *)
(* for `pre`: the same refusal, or the same slot chosen, by the quick path *)
(* (header untouched but for the flags) or by a repair commit (the other   *)
(* slot rewritten with the chosen slot's roots under the next id, primary  *)
(* swapped, two-phase flag set), and the region counts rebuilt from the    *)
(* length of the file.                                                     *)
(*                                                                         *)
(* Whether a slot holds a current allocator-state table (the quick path)   *)
(* is read by the decoder as well (decoder/allocator_state_txn).           *)
(***************************************************************************)
EXTENDS RecoverOps, Json, IOUtils, TLC, Sequences

KRec == ndJsonDeserialize(IOEnv.TRACE)
VARIABLE l
R == KRec[l]

Allowed(rc) ==
  LET pre == rc.pre
      post == rc.post
      hok == [s \in {1, 2} |-> pre.slots[s].hok]
      serv == [s \in {1, 2} |-> pre.slots[s].serv]
      h == [primary |-> pre.primary, tpc |-> pre.tpc, rec |-> pre.rec, slots |-> [s \in {1, 2} |-> [txn |-> pre.slots[s].txn]]]
      ld == LayoutDecision(pre.rec, pre.q, pre.r, pre.H, pre.M, pre.full, pre.trailing, pre.stored_q, pre.stored_r)
      \* the file is shorter than the stored region counts say although recovery is required: no crash leaves that (the
      \* file is cut only after a header with the smaller counts is durable), somebody cut the file
      cut == pre.rec /\ (pre.q < pre.stored_q \/ (pre.q = pre.stored_q /\ pre.r < pre.stored_r))
  IN \* what a crash leaves (records of the crash driver, not files built by opencases): the file is never shorter than the
     \* stored counts say, its length always maps onto a layout, and the open succeeds (Resize.tla: Safe; C01)
     /\ rc.src = "crash" => (~cut /\ ~ld.err /\ post.err = "")
     /\ \E ast \in [{1, 2} -> BOOLEAN] :
       \* the saved allocator state: read by the independent decoder (the table's transaction id equals the slot's);
       \* TLC chooses only where the decoder could not read the system tree
       /\ \A s \in {1, 2} : pre.slots[s].astate # "unknown" => ast[s] = (pre.slots[s].astate = "yes")
       /\ LET d == Decide(h, hok, serv, ast, ld.err) IN
          IF d.err THEN post.err = "Corrupted" \/ (cut /\ post.err = "Io")      \* (the Io case: see below)
          \* A cut file (outside every listed property; named here so that the rest of such records is still judged):
          \*  - the repair marks the pages of the pending-free records allocated; one beyond the new end is refused;
          \*  - the quick path shrinks the saved allocator state to the file and asserts that the cut pages were free.
          ELSE IF cut /\ ~d.quick /\ post.err = "Corrupted" THEN TRUE
          ELSE IF cut /\ d.quick /\ post.err = "panic" THEN TRUE
          \*  - a slot names a page beyond the new end and verifying it reads there: the backend refuses
          \*    (known_findings.txt: C20 read-beyond-end-of-cut-file; the C20 check reports it)
          ELSE IF cut /\ post.err = "Io" THEN TRUE
          ELSE /\ post.err = ""
               /\ post.rec /\ post.tpc                                  \* begin_writable; quick path or two-phase repair commit
               /\ post.full = ld.full /\ post.trailing = ld.trailing
               /\ LET c == d.chosen IN
                  IF d.quick
                  THEN /\ post.primary = c
                       \* (a slot that is not rewritten keeps its bytes, a bad checksum included)
                       /\ \A s \in {1, 2} : post.slots[s].txn = pre.slots[s].txn /\ post.slots[s].eq[s] /\ post.slots[s].hok = pre.slots[s].hok
                  ELSE /\ post.primary = Other(c)
                       /\ post.slots[Other(c)].txn = pre.slots[c].txn + 1 /\ post.slots[Other(c)].eq[c] /\ post.slots[Other(c)].hok
                       /\ post.slots[c].txn = pre.slots[c].txn /\ post.slots[c].eq[c] /\ post.slots[c].hok = pre.slots[c].hok

TraceInit == l = 1
Step == l <= Len(KRec) /\ l' = l + 1 /\ R.e = "recover" /\ Allowed(R)
TraceSpec == TraceInit /\ [][Step]_l

TraceAccepted ==
  LET d == TLCGet("stats").diameter IN
  IF d - 1 = Len(KRec) THEN TRUE
  ELSE Print(<<"REJECT", d, ToJson(KRec[d])>>, FALSE)
=============================================================================
