SPECIFICATION Spec
CONSTANTS Pages = {1, 2, 3}
          MaxCache = 2
          MaxVal = 4
          Faults = 1
          LoseOnFailedWriteback = FALSE
INVARIANTS TypeOK Transparent ReadsTruth CleanReadsFind NoStaleShadow Budget
CHECK_DEADLOCK FALSE
