SPECIFICATION Spec
CONSTANTS H = 1
          M = 3
          MaxQ = 12
          MaxVer = 4
          MaxCrash = 2
          GrowSync = TRUE
          ShrinkFirst = FALSE
          ShrinkKeepsOld = TRUE
INVARIANTS Safe WithinStorage DurableCovers ReadersWithin
CHECK_DEADLOCK FALSE
