------------------------------- MODULE Buddy -------------------------------
(***************************************************************************)
(* The buddy page allocator of one region, as its clients rely on it.      *)
(*                                                                         *)
(* Abstract state: the region's length len (pages 0..len-1) and the set F  *)
(* of free pages.  A block of order o at index i covers the pages          *)
(* i*2^o .. (i+1)*2^o - 1.  The allocator keeps no record of who holds     *)
(* what, so everything it promises is a function of (len, F):              *)
(*   - a block handed out is aligned, inside the region, and was entirely  *)
(*     free (hence disjoint from every other live block);                  *)
(*   - a request is refused only if no aligned, entirely free block of     *)
(*     that order exists - which also says that freed space is allocatable *)
(*     again at the largest order its neighbours allow;                    *)
(*   - alloc_lowest returns the lowest such block;                         *)
(*   - the free structure the implementation keeps is the canonical one:   *)
(*     maximal aligned blocks (Canon), so save / reload preserves all of   *)
(*     this.                                                               *)
(***************************************************************************)
EXTENDS Naturals, FiniteSets, Sequences, TLC

CONSTANTS Cap        \* region capacity in pages (a power of two in the checked configurations)

VARIABLES len, F

bvars == <<len, F>>

Pow2(o) == 2 ^ o

\* the largest order this region supports: floor(log2(Cap)), capped as in the code
RECURSIVE Log2(_)
Log2(n) == IF n <= 1 THEN 0 ELSE 1 + Log2(n \div 2)
MaxOrder == Log2(Cap)
Orders == 0..MaxOrder

Block(i, o) == (i * Pow2(o))..((i + 1) * Pow2(o) - 1)
InRegion(i, o) == (i + 1) * Pow2(o) <= len
FreeBlock(i, o) == InRegion(i, o) /\ Block(i, o) \subseteq F
FreeBlocksAt(o) == {i \in 0..(Cap \div Pow2(o)) : FreeBlock(i, o)}

\* the canonical free structure: a free block is recorded at order o iff it is entirely free and
\* either o is the top order or its parent block is not entirely free (buddies are merged)
FreeBlockIn(n, S, i, o) == (i + 1) * Pow2(o) <= n /\ Block(i, o) \subseteq S
CanonOf(n, S) == {<<i, o>> \in (0..Cap) \X Orders :
                    /\ FreeBlockIn(n, S, i, o)
                    /\ (o = MaxOrder \/ ~FreeBlockIn(n, S, i \div 2, o + 1))}
Canon == CanonOf(len, F)

Init == len \in 1..Cap /\ F = 0..(len - 1)

\* alloc(o) returned res: <<i>> or <<>> (refused)
Alloc(o, res) ==
  /\ o \in 0..(MaxOrder + 1)
  /\ IF res = <<>>
     THEN (o > MaxOrder \/ FreeBlocksAt(o) = {}) /\ UNCHANGED bvars
     ELSE /\ o <= MaxOrder /\ res[1] \in FreeBlocksAt(o)
          /\ F' = F \ Block(res[1], o) /\ UNCHANGED len

\* alloc_lowest(o): the lowest index
AllocLowest(o, res) ==
  /\ Alloc(o, res)
  /\ res # <<>> => \A j \in FreeBlocksAt(o) : res[1] <= j

\* free(i, o): the block must be entirely allocated
Free(i, o) ==
  /\ o \in Orders /\ InRegion(i, o) /\ Block(i, o) \cap F = {}
  /\ F' = F \cup Block(i, o) /\ UNCHANGED len

\* record_alloc(i, o) returned ok: marks a specific block allocated; refused if it is out of range,
\* of an unsupported order, or not entirely free
RecordAlloc(i, o, ok) ==
  /\ ok = (o <= MaxOrder /\ FreeBlock(i, o))
  /\ IF ok THEN F' = F \ Block(i, o) /\ UNCHANGED len ELSE UNCHANGED bvars

\* resize(n): new pages are free; a region is only ever shrunk by trailing free pages (the caller,
\* try_shrink, guarantees it and the implementation asserts it)
Resize(n) ==
  /\ n \in 1..Cap
  /\ n < len => (n..(len - 1)) \subseteq F
  /\ len' = n
  /\ F' = IF n >= len THEN F \cup (len..(n - 1)) ELSE F \cap (0..(n - 1))

\* to_vec / from_bytes: nothing changes
Roundtrip == UNCHANGED bvars

Next ==
  \/ \E o \in 0..(MaxOrder + 1) :
       \/ \E i \in FreeBlocksAt(o) : Alloc(o, <<i>>)
       \/ Alloc(o, <<>>)
       \/ \E i \in FreeBlocksAt(o) : AllocLowest(o, <<i>>)
  \/ \E o \in Orders, i \in 0..Cap : Free(i, o) \/ RecordAlloc(i, o, TRUE)
  \/ \E n \in 1..Cap : Resize(n)

Spec == Init /\ [][Next]_bvars

-----------------------------------------------------------------------------
TypeOK == len \in 1..Cap /\ F \subseteq 0..(len - 1)

\* the canonical structure covers exactly F, with pairwise disjoint blocks
CanonCoversF == UNION {Block(b[1], b[2]) : b \in Canon} = F
CanonDisjoint == \A a, b \in Canon : a # b => Block(a[1], a[2]) \cap Block(b[1], b[2]) = {}
\* no two recorded free blocks are buddies (merged as far as the region allows)
CanonMerged ==
  \A a, b \in Canon : (a # b /\ a[2] = b[2] /\ a[2] < MaxOrder) => (a[1] \div 2 # b[1] \div 2)
\* a request can be refused only when the canonical structure has nothing of that order or larger
RefusalIffNothing ==
  \A o \in Orders : (FreeBlocksAt(o) = {}) <=> (\A b \in Canon : b[2] < o)

=============================================================================
