SPECIFICATION TourSpec
CONSTANTS
  Mode = "multimap"
  Keys = {0, 1, 2}
  Vals = {0, 1, 2}
  MaxHist = 1
  MaxPath = 0
  Emit = FALSE
VIEW View
INVARIANT TypeOK
CHECK_DEADLOCK FALSE
