------------------------------- MODULE Kv -------------------------------
(***************************************************************************)
(* redb as its users see it: a sequence of commit points, one write        *)
(* transaction at a time, snapshot readers, savepoints, crash / reopen.    *)
(*                                                                         *)
(* This module is the ORACLE.  Every action takes the arguments of one     *)
(* public API call plus the result the implementation returned (res) and   *)
(* is enabled only if that result is the one the specification computes.   *)
(* KvTrace.tla binds the arguments to recorded executions of the real      *)
(* code; MC_Kv*.tla quantify them over small constants.                    *)
(*                                                                         *)
(* Keys and values are naturals.  The harness maps them order-preservingly *)
(* onto concrete keys of the table's key type (u64, byte strings, str) and *)
(* onto value byte strings of chosen lengths, and maps bytes read back to  *)
(* the same naturals by comparing every byte (unknown bytes become -1,     *)
(* which no state of this specification contains).                         *)
(***************************************************************************)
EXTENDS Naturals, Integers, Sequences, FiniteSets, TLC

VARIABLES
  hist,      \* sequence of commit points; hist[1] is the freshly created database
  dur,       \* index of the newest commit point known to be durable
  inflight,  \* <<>> or <<db>>: a commit() has been entered and has not returned
  wtx,       \* the write transaction (wtx.on = FALSE when there is none)
  readers,   \* read transaction handle -> index into hist
  rpend,     \* begin_read() calls in flight on other threads: handle -> Len(hist) when the call started
  eph,       \* ephemeral savepoint handle -> [ord, idx, valid]
  nextOrd,   \* creation counter shared by all savepoints ("created after" = larger ord)
  its,       \* held iterator handle -> [idx, t, rem]  (guards/iterators outliving calls)
  latch      \* "ok" | "failed": after a failed commit writes are refused until reopen

kvVars == <<hist, dur, inflight, wtx, readers, rpend, eph, nextOrd, its, latch>>

-----------------------------------------------------------------------------
(* Generic helpers *)

Ok(x)  == [ok |-> x]
Err(e) == [err |-> e]
IsErr(r) == "err" \in DOMAIN r
IsOk(r) == "ok" \in DOMAIN r
IsE(r, e) == IsErr(r) /\ r.err = e      \* the error variant; the message is not part of the contract
None == <<>>
Some(x) == <<x>>

Min2(a, b) == IF a <= b THEN a ELSE b
Range(s) == {s[i] : i \in DOMAIN s}
Del(f, k) == [x \in DOMAIN f \ {k} |-> f[x]]
Put(f, k, v) == (k :> v) @@ f
EmptyFn == <<>>

-----------------------------------------------------------------------------
(* A database state *)

EmptyDb == [t |-> EmptyFn, psp |-> EmptyFn]

NewTable(kind, kt, vt) == [kind |-> kind, kt |-> kt, vt |-> vt, c |-> EmptyFn]

Latest == hist[Len(hist)]

NoTx == [on |-> FALSE]

\* a bound is [t |-> "u"] | [t |-> "i", k |-> n] | [t |-> "e", k |-> n]
AboveLo(k, lo) == CASE lo.t = "u" -> TRUE [] lo.t = "i" -> k >= lo.k [] lo.t = "e" -> k > lo.k
BelowHi(k, hi) == CASE hi.t = "u" -> TRUE [] hi.t = "i" -> k <= hi.k [] hi.t = "e" -> k < hi.k
Sel(c, lo, hi) == {k \in DOMAIN c : AboveLo(k, lo) /\ BelowHi(k, hi)}

\* a predicate over keys is [m |-> modulus, r |-> remainder]; pred(k) <=> k % m = r
Holds(p, k) == (k % p.m) = p.r

-----------------------------------------------------------------------------
(* Consumption of a double-ended iterator.                                 *)
(*                                                                         *)
(* res is the sequence of <<key, value>> the implementation produced when  *)
(* asked for at most n items of the selection S (keys) of content c,       *)
(* starting from the back iff rev and switching ends after every item iff  *)
(* alt.  Stated declaratively (no sorting): the items taken from the front *)
(* are increasing, those from the back decreasing, all front items are     *)
(* below all back items, everything not taken lies strictly between, and   *)
(* nothing is skipped or invented.                                         *)

IsFront(i, rev, alt) == IF alt THEN ((i % 2 = 1) = ~rev) ELSE ~rev

ValueOf(c, k) == c[k]

ValidTake(res, S, c, n, rev, alt) ==
  LET len == Len(res)
      F == {i \in 1..len : IsFront(i, rev, alt)}
      B == (1..len) \ F
      taken == {res[i][1] : i \in 1..len}
  IN /\ len = Min2(n, Cardinality(S))
     /\ \A i \in 1..len : res[i][1] \in S /\ res[i][2] = ValueOf(c, res[i][1])
     /\ IF ~alt
        THEN /\ \A i \in 1..(len - 1) :
                  IF rev THEN res[i][1] > res[i+1][1] ELSE res[i][1] < res[i+1][1]
             /\ len > 0 =>
                  \A k \in S \ taken : IF rev THEN k < res[len][1] ELSE k > res[len][1]
        ELSE /\ \A i, j \in F : i < j => res[i][1] < res[j][1]
             /\ \A i, j \in B : i < j => res[i][1] > res[j][1]
             /\ \A i \in F, j \in B : res[i][1] < res[j][1]
             /\ \A k \in S \ taken :
                  /\ \A i \in F : k > res[i][1]
                  /\ \A j \in B : k < res[j][1]

TakenKeys(res) == {res[i][1] : i \in 1..Len(res)}

-----------------------------------------------------------------------------
(* Multimap content: key -> non-empty set of values.  Flattened view: the   *)
(* set of pairs.                                                           *)

MPairs(c) == UNION {{<<k, v>> : v \in c[k]} : k \in DOMAIN c}
MLen(c) == Cardinality(MPairs(c))
MVals(c, k) == IF k \in DOMAIN c THEN c[k] ELSE {}
MIns(c, k, v) == Put(c, k, MVals(c, k) \cup {v})
MRem(c, k, v) == IF MVals(c, k) \ {v} = {} THEN Del(c, k) ELSE Put(c, k, c[k] \ {v})

\* res is a sequence of values in increasing order enumerating exactly the set V
IsSortedEnum(res, V) ==
  /\ Len(res) = Cardinality(V)
  /\ \A i \in 1..Len(res) : res[i] \in V
  /\ \A i \in 1..(Len(res) - 1) : res[i] < res[i+1]

\* res is a sequence of <<key, <<values...>>>> for the selection S, direction rev
ValidMRange(res, S, c, rev) ==
  /\ Len(res) = Cardinality(S)
  /\ \A i \in 1..Len(res) : res[i][1] \in S /\ IsSortedEnum(res[i][2], c[res[i][1]])
  /\ \A i \in 1..(Len(res) - 1) :
        IF rev THEN res[i][1] > res[i+1][1] ELSE res[i][1] < res[i+1][1]

-----------------------------------------------------------------------------
(* A full observation of a database (tables with contents, persistent      *)
(* savepoint ids), as the harness dumps it after open.  obs.tables is a    *)
(* sequence of [name, kind, kt, vt, c] where c is a sequence of <<k, v>>    *)
(* (normal) or <<k, <<v...>>>> (multimap) in iteration order; obs.psp is a *)
(* sequence of ids.                                                        *)

ObsTableMatches(o, tb) ==
  /\ o.kind = tb.kind /\ o.kt = tb.kt /\ o.vt = tb.vt
  /\ Len(o.c) = Cardinality(DOMAIN tb.c)
  /\ \A i \in 1..Len(o.c) : o.c[i][1] \in DOMAIN tb.c
  /\ \A i \in 1..(Len(o.c) - 1) : o.c[i][1] < o.c[i+1][1]
  /\ IF tb.kind = "t"
     THEN \A i \in 1..Len(o.c) : o.c[i][2] = tb.c[o.c[i][1]]
     ELSE \A i \in 1..Len(o.c) : IsSortedEnum(o.c[i][2], tb.c[o.c[i][1]])

ObsTablesMatch(obs, T) ==
  /\ {obs.tables[i].name : i \in 1..Len(obs.tables)} = DOMAIN T
  /\ Len(obs.tables) = Cardinality(DOMAIN T)
  /\ \A i \in 1..Len(obs.tables) : ObsTableMatches(obs.tables[i], T[obs.tables[i].name])

ObsMatches(obs, db) ==
  /\ "tables" \in DOMAIN obs          \* an open that failed or panicked shows nothing
  /\ ObsTablesMatch(obs, db.t)
  /\ Range(obs.psp) = DOMAIN db.psp
  /\ Len(obs.psp) = Cardinality(DOMAIN db.psp)

\* the commit points a crash may expose (C01): not older than the last durable one, not newer
\* than the last requested one
CrashCandidates == {hist[i] : i \in dur..Len(hist)} \cup Range(inflight)
CrashAtomic(obs) == \E db \in CrashCandidates : ObsMatches(obs, db)

-----------------------------------------------------------------------------
Init ==
  /\ hist = <<EmptyDb>>
  /\ dur = 1
  /\ inflight = <<>>
  /\ wtx = NoTx
  /\ readers = EmptyFn
  /\ rpend = EmptyFn
  /\ eph = EmptyFn
  /\ nextOrd = 1
  /\ its = EmptyFn
  /\ latch = "ok"

-----------------------------------------------------------------------------
(* Transactions *)

BeginWrite(res) ==
  /\ ~wtx.on
  /\ IF latch = "ok"
     THEN /\ res = Ok(0)
          /\ wtx' = [on |-> TRUE, t |-> Latest.t, psp |-> Latest.psp, open |-> {},
                     dirty |-> FALSE, poisoned |-> FALSE, d |-> "imm", base |-> Len(hist),
                     pspMod |-> FALSE, inval |-> {}, tainted |-> FALSE, cur |-> <<>>]
     ELSE /\ IsErr(res)
          /\ UNCHANGED wtx
  /\ UNCHANGED <<hist, dur, inflight, readers, rpend, eph, nextOrd, its, latch>>

SetDurability(d, res) ==
  /\ wtx.on
  /\ IF wtx.pspMod /\ d # "imm"
     THEN IsE(res, "PersistentSavepointModified") /\ UNCHANGED wtx
     ELSE res = Ok(0) /\ wtx' = [wtx EXCEPT !.d = d]
  /\ UNCHANGED <<hist, dur, inflight, readers, rpend, eph, nextOrd, its, latch>>

\* the state a commit of the current write transaction would produce
Candidate == [t |-> wtx.t, psp |-> wtx.psp]

\* effects of a completed commit on the ephemeral savepoint handles: restores staged in the
\* transaction invalidate later savepoints
EphAfterCommit == [h \in DOMAIN eph |->
                     IF eph[h].ord \in wtx.inval THEN [eph[h] EXCEPT !.valid = FALSE] ELSE eph[h]]

\* commit() entered: nothing is decided yet, a crash from here on may expose the candidate
CommitBegin ==
  /\ wtx.on /\ wtx.open = {} /\ inflight = <<>>
  /\ inflight' = IF wtx.poisoned THEN <<>> ELSE <<Candidate>>
  /\ UNCHANGED <<hist, dur, wtx, readers, rpend, eph, nextOrd, its, latch>>

\* commit() returned res
CommitEnd(res) ==
  /\ wtx.on /\ wtx.open = {}
  /\ wtx' = NoTx
  /\ IF wtx.poisoned
     THEN /\ IsE(res, "TransactionPoisoned")
          /\ inflight' = <<>>
          /\ UNCHANGED <<hist, dur, eph, latch>>
     ELSE IF ~IsErr(res)
     THEN \* (C08: once a storage error has been reported no commit is accepted until the database is reopened)
          /\ latch = "ok" /\ ~wtx.tainted
          /\ hist' = Append(hist, Candidate)
          /\ dur' = IF wtx.d = "imm" THEN Len(hist) + 1 ELSE dur
          /\ eph' = EphAfterCommit
          /\ inflight' = <<>>
          /\ UNCHANGED latch
     ELSE \* a commit that failed for any other reason: applied entirely or not at all, which of the
          \* two is not known - and what later transactions of this process see need not be what
          \* the storage holds.  Writes are refused from now on.  Either later reads see the
          \* commit (it joins hist) or they do not, and then it stays a possible outcome of the
          \* next recovery (it stays in flight until the database is reopened).
          /\ latch' = "failed"
          /\ \/ /\ inflight' = <<Candidate>>
                /\ UNCHANGED <<hist, dur, eph>>
             \/ /\ hist' = Append(hist, Candidate)
                /\ eph' = EphAfterCommit
                /\ inflight' = <<>>
                /\ UNCHANGED dur
  /\ UNCHANGED <<readers, rpend, nextOrd, its>>

\* abort(), or the transaction handle dropped: nothing remains.  Ephemeral savepoints created
\* inside the transaction stay usable (they captured the committed state).
Abort(res) ==
  /\ wtx.on /\ wtx.open = {}
  /\ res = Ok(0) \/ IsErr(res)
  /\ wtx' = NoTx
  /\ UNCHANGED <<hist, dur, inflight, readers, rpend, eph, nextOrd, its, latch>>

BeginRead(h, res) ==
  /\ h \notin DOMAIN readers
  /\ IF IsErr(res)
     THEN UNCHANGED readers
     ELSE readers' = Put(readers, h, Len(hist))
  /\ UNCHANGED <<hist, dur, inflight, wtx, rpend, eph, nextOrd, its, latch>>

\* begin_read() called from another thread while commits go on: the call starts (BeginReadStart) and
\* returns (BeginReadEnd); its snapshot is some commit point completed in between - not older than
\* the latest commit completed when it started, not newer than the latest completed when it returned
BeginReadStart(h) ==
  /\ h \notin DOMAIN readers /\ h \notin DOMAIN rpend
  /\ rpend' = Put(rpend, h, Len(hist))
  /\ UNCHANGED <<hist, dur, inflight, wtx, readers, eph, nextOrd, its, latch>>

BeginReadEnd(h, res) ==
  /\ h \in DOMAIN rpend
  /\ rpend' = Del(rpend, h)
  /\ IF IsErr(res) THEN UNCHANGED readers
     ELSE \E i \in rpend[h]..Len(hist) : readers' = Put(readers, h, i)
  /\ UNCHANGED <<hist, dur, inflight, wtx, eph, nextOrd, its, latch>>

DropRead(h) ==
  /\ h \in DOMAIN readers
  /\ readers' = Del(readers, h)
  /\ UNCHANGED <<hist, dur, inflight, wtx, rpend, eph, nextOrd, its, latch>>

-----------------------------------------------------------------------------
(* The catalog.  src = "w" for the write transaction, otherwise a reader.  *)

Tables(src) == IF src = "w" THEN wtx.t ELSE hist[readers[src]].t
SrcOk(src) == IF src = "w" THEN wtx.on ELSE src \in DOMAIN readers

KindErr(stored) == IF stored = "m" THEN "TableIsMultimap" ELSE "TableIsNotMultimap"

\* the error open/rename/delete report for table name n requested as (kind, kt, vt), or "" if none
\* (typed = FALSE for the untyped entry points rename/delete)
MatchErr(T, n, kind, kt, vt, typed) ==
  IF T[n].kind # kind THEN KindErr(T[n].kind)
  ELSE IF typed /\ (T[n].kt # kt \/ T[n].vt # vt) THEN "TableTypeMismatch"
  ELSE ""

\* open_table / open_multimap_table in the write transaction
OpenW(n, kind, kt, vt, res) ==
  /\ wtx.on
  /\ IF n \in wtx.open
     THEN IsE(res, "TableAlreadyOpen") /\ UNCHANGED wtx
     ELSE IF n \in DOMAIN wtx.t /\ MatchErr(wtx.t, n, kind, kt, vt, TRUE) # ""
     THEN /\ IsE(res, MatchErr(wtx.t, n, kind, kt, vt, TRUE))
          /\ UNCHANGED wtx                         \* a failed open does not make the transaction dirty
     ELSE /\ res = Ok(0)
          /\ wtx' = [wtx EXCEPT !.open = @ \cup {n}, !.dirty = TRUE,
                                !.t = IF n \in DOMAIN @ THEN @ ELSE Put(@, n, NewTable(kind, kt, vt))]
  /\ UNCHANGED <<hist, dur, inflight, readers, rpend, eph, nextOrd, its, latch>>

\* the table handle is dropped
CloseW(n) ==
  /\ wtx.on /\ n \in wtx.open
  /\ wtx' = [wtx EXCEPT !.open = @ \ {n}]
  /\ UNCHANGED <<hist, dur, inflight, readers, rpend, eph, nextOrd, its, latch>>

\* open in a read transaction: no state, only the result
OpenR(h, n, kind, kt, vt, res) ==
  /\ h \in DOMAIN readers
  /\ LET T == Tables(h) IN
     IF n \notin DOMAIN T THEN IsE(res, "TableDoesNotExist")
     ELSE IF MatchErr(T, n, kind, kt, vt, TRUE) # "" THEN IsE(res, MatchErr(T, n, kind, kt, vt, TRUE))
     ELSE res = Ok(0)
  /\ UNCHANGED kvVars

Rename(a, b, kind, res) ==
  /\ wtx.on
  /\ LET T == wtx.t IN
     IF a \in wtx.open THEN IsE(res, "TableAlreadyOpen") /\ wtx' = [wtx EXCEPT !.dirty = TRUE]
     ELSE IF a \notin DOMAIN T THEN IsE(res, "TableDoesNotExist") /\ wtx' = [wtx EXCEPT !.dirty = TRUE]
     ELSE IF T[a].kind # kind THEN IsE(res, KindErr(T[a].kind)) /\ wtx' = [wtx EXCEPT !.dirty = TRUE]
     ELSE IF a = b THEN res = Ok(0) /\ wtx' = [wtx EXCEPT !.dirty = TRUE]
     ELSE IF b \in DOMAIN T
     THEN /\ IsE(res, IF T[b].kind # kind THEN KindErr(T[b].kind) ELSE "TableExists")
          /\ wtx' = [wtx EXCEPT !.dirty = TRUE]
     ELSE /\ res = Ok(0)
          /\ wtx' = [wtx EXCEPT !.dirty = TRUE, !.t = Put(Del(T, a), b, T[a])]
  /\ UNCHANGED <<hist, dur, inflight, readers, rpend, eph, nextOrd, its, latch>>

Delete(a, kind, res) ==
  /\ wtx.on
  /\ LET T == wtx.t IN
     IF a \in wtx.open THEN IsE(res, "TableAlreadyOpen") /\ wtx' = [wtx EXCEPT !.dirty = TRUE]
     ELSE IF a \notin DOMAIN T THEN res = Ok(FALSE) /\ wtx' = [wtx EXCEPT !.dirty = TRUE]
     ELSE IF T[a].kind # kind THEN IsE(res, KindErr(T[a].kind)) /\ wtx' = [wtx EXCEPT !.dirty = TRUE]
     ELSE res = Ok(TRUE) /\ wtx' = [wtx EXCEPT !.dirty = TRUE, !.t = Del(T, a)]
  /\ UNCHANGED <<hist, dur, inflight, readers, rpend, eph, nextOrd, its, latch>>

\* list_tables / list_multimap_tables: res is a sequence of names in any order without repeats
List(src, kind, res) ==
  /\ IsOk(res)
  /\ SrcOk(src)
  /\ LET T == Tables(src) IN
       /\ Range(res.ok) = {n \in DOMAIN T : T[n].kind = kind}
       /\ Len(res.ok) = Cardinality(Range(res.ok))
  /\ UNCHANGED kvVars

-----------------------------------------------------------------------------
(* Reads of a normal table, from the write transaction or from a reader.   *)
(* The table must exist in that view (the harness opens it first).         *)

Content(src, n) == Tables(src)[n].c
ReadOk(src, n, kind) ==
  /\ SrcOk(src) /\ n \in DOMAIN Tables(src) /\ Tables(src)[n].kind = kind
  /\ src = "w" => n \in wtx.open

Get(src, n, k, res) ==
  /\ ReadOk(src, n, "t")
  /\ res = Ok(IF k \in DOMAIN Content(src, n) THEN Some(Content(src, n)[k]) ELSE None)
  /\ UNCHANGED kvVars

LenOp(src, n, res) ==
  /\ SrcOk(src) /\ n \in DOMAIN Tables(src)
  /\ res = Ok(IF Tables(src)[n].kind = "t" THEN Cardinality(DOMAIN Content(src, n))
                                           ELSE MLen(Content(src, n)))
  /\ UNCHANGED kvVars

\* first() / last()
Edge(src, n, last, res) ==
  /\ IsOk(res)
  /\ ReadOk(src, n, "t")
  /\ LET c == Content(src, n) IN
     IF DOMAIN c = {} THEN res = Ok(None)
     ELSE /\ Len(res.ok) = 2 /\ res.ok[1] \in DOMAIN c /\ res.ok[2] = c[res.ok[1]]
          /\ \A k \in DOMAIN c : IF last THEN k <= res.ok[1] ELSE k >= res.ok[1]
  /\ UNCHANGED kvVars

\* range(lo..hi), consumed up to n items
RangeOp(src, n, lo, hi, cnt, rev, alt, res) ==
  /\ IsOk(res)
  /\ ReadOk(src, n, "t")
  /\ LET c == Content(src, n) IN ValidTake(res.ok, Sel(c, lo, hi), c, cnt, rev, alt)
  /\ UNCHANGED kvVars

-----------------------------------------------------------------------------
(* Mutations of a normal table (write transaction, handle open) *)

WOk(n, kind) == wtx.on /\ n \in wtx.open /\ wtx.t[n].kind = kind
SetC(n, c) == wtx' = [wtx EXCEPT !.t[n].c = c]
Rest == UNCHANGED <<hist, dur, inflight, readers, rpend, eph, nextOrd, its, latch>>

\* insert: returns the previous value
Insert(n, k, v, res) ==
  /\ WOk(n, "t")
  /\ LET c == wtx.t[n].c IN
       /\ res = Ok(IF k \in DOMAIN c THEN Some(c[k]) ELSE None)
       /\ SetC(n, Put(c, k, v))
  /\ Rest

\* insert_reserve + fill: returns nothing
InsertReserve(n, k, v, res) ==
  /\ WOk(n, "t") /\ res = Ok(0)
  /\ SetC(n, Put(wtx.t[n].c, k, v))
  /\ Rest

\* get_mut + AccessGuardMut::insert(v): res is the value seen before the replacement
GetMut(n, k, v, res) ==
  /\ WOk(n, "t")
  /\ LET c == wtx.t[n].c IN
       IF k \in DOMAIN c THEN res = Ok(Some(c[k])) /\ SetC(n, Put(c, k, v))
                         ELSE res = Ok(None) /\ UNCHANGED wtx
  /\ Rest

\* entry(k): variant = "or_insert" | "and_modify_or_insert" | "occ_insert" | "occ_remove" |
\*   "vac_insert".  res = <<was_occupied, value finally stored or removed>>
EntryOp(n, k, v, variant, res) ==
  /\ WOk(n, "t")
  /\ LET c == wtx.t[n].c
         occ == k \in DOMAIN c
     IN CASE variant = "or_insert" ->
               /\ res = Ok(<<occ, IF occ THEN c[k] ELSE v>>)
               /\ IF occ THEN UNCHANGED wtx ELSE SetC(n, Put(c, k, v))
          [] variant = "and_modify_or_insert" ->     \* and_modify(|g| g.insert(v)).or_insert(v)
               /\ res = Ok(<<occ, v>>)
               /\ SetC(n, Put(c, k, v))
          [] variant = "occ_insert" ->               \* Occupied: insert(v) returns old; Vacant: nothing
               /\ res = Ok(<<occ, IF occ THEN c[k] ELSE v>>)
               /\ IF occ THEN SetC(n, Put(c, k, v)) ELSE UNCHANGED wtx
          [] variant = "occ_remove" ->               \* Occupied: remove() returns old; Vacant: nothing
               /\ res = Ok(<<occ, IF occ THEN c[k] ELSE v>>)
               /\ IF occ THEN SetC(n, Del(c, k)) ELSE UNCHANGED wtx
          [] variant = "vac_insert" ->               \* Vacant: insert(v); Occupied: get()
               /\ res = Ok(<<occ, IF occ THEN c[k] ELSE v>>)
               /\ IF occ THEN UNCHANGED wtx ELSE SetC(n, Put(c, k, v))
  /\ Rest

Remove(n, k, res) ==
  /\ WOk(n, "t")
  /\ LET c == wtx.t[n].c IN
       IF k \in DOMAIN c THEN res = Ok(Some(c[k])) /\ SetC(n, Del(c, k))
                         ELSE res = Ok(None) /\ UNCHANGED wtx
  /\ Rest

\* pop_first / pop_last
Pop(n, last, res) ==
  /\ IsOk(res)
  /\ WOk(n, "t")
  /\ LET c == wtx.t[n].c IN
     IF DOMAIN c = {} THEN res = Ok(None) /\ UNCHANGED wtx
     ELSE /\ Len(res.ok) = 2 /\ res.ok[1] \in DOMAIN c /\ res.ok[2] = c[res.ok[1]]
          /\ \A k \in DOMAIN c : IF last THEN k <= res.ok[1] ELSE k >= res.ok[1]
          /\ SetC(n, Del(c, res.ok[1]))
  /\ Rest

\* retain_in(lo..hi, keep = pred): removes the selected keys for which pred is false
Retain(n, lo, hi, p, res) ==
  /\ WOk(n, "t") /\ res = Ok(0)
  /\ LET c == wtx.t[n].c
         gone == {k \in Sel(c, lo, hi) : ~Holds(p, k)}
     IN SetC(n, [k \in DOMAIN c \ gone |-> c[k]])
  /\ Rest

\* extract_from_if(lo..hi, pred), consumed up to cnt items, then dropped: removes exactly the
\* entries that were returned
Extract(n, lo, hi, p, cnt, rev, alt, res) ==
  /\ IsOk(res)
  /\ WOk(n, "t")
  /\ LET c == wtx.t[n].c
         S == {k \in Sel(c, lo, hi) : Holds(p, k)}
     IN /\ ValidTake(res.ok, S, c, cnt, rev, alt)
        /\ SetC(n, [k \in DOMAIN c \ TakenKeys(res.ok) |-> c[k]])
  /\ Rest

\* the predicate handed to retain / extract_if panicked part-way: some entries are gone, others not.  The
\* transaction is poisoned - commit() refuses it, so the half-applied change can never be committed
PredicatePanic(n) ==
  /\ WOk(n, "t")
  /\ wtx' = [wtx EXCEPT !.poisoned = TRUE]
  /\ Rest

-----------------------------------------------------------------------------
(* Gap cursors (C18).  A cursor on table n sits in a gap of the sorted key  *)
(* sequence: L is the set of keys before the gap.  Inserts are accepted iff *)
(* the key sorts strictly between the gap's neighbours (entries inserted    *)
(* through the cursor count as neighbours at once, however the             *)
(* implementation batches them); nothing is ever overwritten.              *)

MaxS(S) == CHOOSE x \in S : \A y \in S : y <= x
MinS(S) == CHOOSE x \in S : \A y \in S : x <= y
CurOn == wtx.on /\ wtx.cur # <<>>
CurC == wtx.t[wtx.cur[1].n].c
CurL == wtx.cur[1].L
CurR == DOMAIN CurC \ CurL
PrevEntry == IF CurL = {} THEN None ELSE <<MaxS(CurL), CurC[MaxS(CurL)]>>
NextEntry == IF CurR = {} THEN None ELSE <<MinS(CurR), CurC[MinS(CurR)]>>
SetCur(c, L) == wtx' = [wtx EXCEPT !.t[wtx.cur[1].n].c = c, !.cur = <<[n |-> wtx.cur[1].n, L |-> L]>>]
InGap(k) == (CurL = {} \/ MaxS(CurL) < k) /\ (CurR = {} \/ k < MinS(CurR))

\* lower_bound_mut(bound) (upper = FALSE) / upper_bound_mut(bound) (upper = TRUE)
CurOpen(n, b, upper, res) ==
  /\ WOk(n, "t") /\ wtx.cur = <<>> /\ res = Ok(0)
  /\ LET c == wtx.t[n].c
         L == IF upper THEN {k \in DOMAIN c : BelowHi(k, b)} ELSE {k \in DOMAIN c : ~AboveLo(k, b)}
     IN wtx' = [wtx EXCEPT !.cur = <<[n |-> n, L |-> L]>>]
  /\ Rest

CurOp(op, k, v, res) ==
  /\ CurOn
  /\ CASE op = "peek_next" -> res = Ok(NextEntry) /\ UNCHANGED wtx
       [] op = "peek_prev" -> res = Ok(PrevEntry) /\ UNCHANGED wtx
       [] op = "next" -> /\ res = Ok(NextEntry)
                         /\ IF CurR = {} THEN UNCHANGED wtx ELSE SetCur(CurC, CurL \cup {MinS(CurR)})
       [] op = "prev" -> /\ res = Ok(PrevEntry)
                         /\ IF CurL = {} THEN UNCHANGED wtx ELSE SetCur(CurC, CurL \ {MaxS(CurL)})
       [] op = "ins_before" -> IF InGap(k) THEN res = Ok(0) /\ SetCur(Put(CurC, k, v), CurL \cup {k})
                                           ELSE IsE(res, "UnorderedKey") /\ UNCHANGED wtx
       [] op = "ins_after" -> IF InGap(k) THEN res = Ok(0) /\ SetCur(Put(CurC, k, v), CurL)
                                          ELSE IsE(res, "UnorderedKey") /\ UNCHANGED wtx
       [] op = "rem_next" -> /\ res = Ok(NextEntry)
                             /\ IF CurR = {} THEN UNCHANGED wtx ELSE SetCur(Del(CurC, MinS(CurR)), CurL)
       [] op = "rem_prev" -> /\ res = Ok(PrevEntry)
                             /\ IF CurL = {} THEN UNCHANGED wtx
                                ELSE SetCur(Del(CurC, MaxS(CurL)), CurL \ {MaxS(CurL)})
  /\ Rest

\* close(), or the cursor dropped: pending inserts are in the table
CurClose(res) ==
  /\ CurOn /\ res = Ok(0)
  /\ wtx' = [wtx EXCEPT !.cur = <<>>]
  /\ Rest

\* A read-only gap cursor (ReadableTable::lower_bound / upper_bound) on any table handle: the whole
\* session is one step since nothing changes; ops and rs are the calls and their results in order
RECURSIVE RCurWalk(_, _, _, _)
RCurWalk(c, L, ops, rs) ==
  IF ops = <<>> THEN TRUE
  ELSE LET Rt == DOMAIN c \ L
           nx == IF Rt = {} THEN None ELSE <<MinS(Rt), c[MinS(Rt)]>>
           pv == IF L = {} THEN None ELSE <<MaxS(L), c[MaxS(L)]>>
           op == ops[1]
           L2 == CASE op = "next" -> (IF Rt = {} THEN L ELSE L \cup {MinS(Rt)})
                   [] op = "prev" -> (IF L = {} THEN L ELSE L \ {MaxS(L)})
                   [] OTHER -> L
       IN /\ rs[1] = Ok(IF op \in {"peek_next", "next"} THEN nx ELSE pv)
          /\ RCurWalk(c, L2, Tail(ops), Tail(rs))

RCursor(src, n, b, upper, ops, res) ==
  /\ ReadOk(src, n, "t")
  /\ (src = "w" => wtx.cur = <<>>)
  /\ Len(res.rs) = Len(ops)
  /\ LET c == Content(src, n)
         L == IF upper THEN {k \in DOMAIN c : BelowHi(k, b)} ELSE {k \in DOMAIN c : ~AboveLo(k, b)}
     IN RCurWalk(c, L, ops, res.rs)
  /\ UNCHANGED kvVars

-----------------------------------------------------------------------------
(* Multimap tables *)

MInsert(n, k, v, res) ==
  /\ WOk(n, "m")
  /\ LET c == wtx.t[n].c IN
       /\ res = Ok(v \in MVals(c, k))
       /\ SetC(n, MIns(c, k, v))
  /\ Rest

MRemove(n, k, v, res) ==
  /\ WOk(n, "m")
  /\ LET c == wtx.t[n].c IN
       /\ res = Ok(v \in MVals(c, k))
       /\ IF v \in MVals(c, k) THEN SetC(n, MRem(c, k, v)) ELSE UNCHANGED wtx
  /\ Rest

\* remove_all(k): returns the removed values in increasing order
MRemoveAll(n, k, res) ==
  /\ IsOk(res)
  /\ WOk(n, "m")
  /\ LET c == wtx.t[n].c IN
       /\ IsSortedEnum(res.ok, MVals(c, k))
       /\ IF k \in DOMAIN c THEN SetC(n, Del(c, k)) ELSE UNCHANGED wtx
  /\ Rest

\* get(k): res = <<values in order, MultimapValue::len()>>
MGet(src, n, k, res) ==
  /\ IsOk(res)
  /\ ReadOk(src, n, "m")
  /\ IsSortedEnum(res.ok[1], MVals(Content(src, n), k))
  /\ res.ok[2] = Cardinality(MVals(Content(src, n), k))
  /\ UNCHANGED kvVars

MRange(src, n, lo, hi, rev, res) ==
  /\ IsOk(res)
  /\ ReadOk(src, n, "m")
  /\ LET c == Content(src, n) IN ValidMRange(res.ok, Sel(c, lo, hi), c, rev)
  /\ UNCHANGED kvVars

-----------------------------------------------------------------------------
(* Held iterators: an (owned) range iterator created over a view and       *)
(* consumed later, possibly after the transaction handle that produced it  *)
(* is gone and after any number of later commits.                          *)

Hold(it, src, n, lo, hi, res) ==
  /\ it \notin DOMAIN its /\ src # "w" /\ ReadOk(src, n, "t") /\ res = Ok(0)
  /\ its' = Put(its, it, [idx |-> readers[src], t |-> n, rem |-> Sel(Content(src, n), lo, hi)])
  /\ UNCHANGED <<hist, dur, inflight, wtx, readers, rpend, eph, nextOrd, latch>>

ItNext(it, cnt, rev, res) ==
  /\ IsOk(res)
  /\ it \in DOMAIN its
  /\ LET c == hist[its[it].idx].t[its[it].t].c IN
       /\ ValidTake(res.ok, its[it].rem, c, cnt, rev, FALSE)
       /\ its' = [its EXCEPT ![it].rem = @ \ TakenKeys(res.ok)]
  /\ UNCHANGED <<hist, dur, inflight, wtx, readers, rpend, eph, nextOrd, latch>>

\* The values of one multimap key (MultimapValue / OwnedMultimapValue), kept like an iterator: `rem` = the values not yet
\* taken; taking cnt from the front (or the back) yields the smallest (greatest) remaining ones in order
MHold(it, src, n, k, res) ==
  /\ it \notin DOMAIN its /\ src # "w" /\ ReadOk(src, n, "m") /\ res = Ok(0)
  /\ its' = Put(its, it, [idx |-> readers[src], t |-> n, rem |-> MVals(Content(src, n), k)])
  /\ UNCHANGED <<hist, dur, inflight, wtx, readers, rpend, eph, nextOrd, latch>>

MItNext(it, cnt, rev, res) ==
  /\ IsOk(res) /\ it \in DOMAIN its
  /\ LET rem == its[it].rem
         taken == Range(res.ok) IN
       /\ Len(res.ok) = Min2(cnt, Cardinality(rem)) /\ Cardinality(taken) = Len(res.ok) /\ taken \subseteq rem
       /\ \A i \in 1..(Len(res.ok) - 1) : IF rev THEN res.ok[i] > res.ok[i+1] ELSE res.ok[i] < res.ok[i+1]
       /\ \A v \in taken, w \in rem \ taken : IF rev THEN v > w ELSE v < w
       /\ its' = [its EXCEPT ![it].rem = rem \ taken]
  /\ UNCHANGED <<hist, dur, inflight, wtx, readers, rpend, eph, nextOrd, latch>>

\* An untyped table handle (open_untyped_table / open_untyped_multimap_table of a read transaction): like an owned
\* iterator it may outlive the read transaction; it answers len() and stats().  What it answers never changes (first =
\* what it answered when it was opened), and its length is the number of entries of the table in its snapshot.
UHold(it, src, n, kind, res) ==
  /\ it \notin DOMAIN its /\ src # "w" /\ SrcOk(src) /\ n \in DOMAIN Tables(src) /\ Tables(src)[n].kind = kind /\ res = Ok(0)
  /\ its' = Put(its, it, [idx |-> readers[src], t |-> n, rem |-> {}])
  /\ UNCHANGED <<hist, dur, inflight, wtx, readers, rpend, eph, nextOrd, latch>>

UStats(it, res, first) ==
  /\ it \in DOMAIN its
  /\ res = first /\ IsOk(res)
  /\ LET tb == hist[its[it].idx].t[its[it].t] IN
       res.ok[1] = IF tb.kind = "t" THEN Cardinality(DOMAIN tb.c) ELSE MLen(tb.c)
  /\ UNCHANGED kvVars

ItDrop(it) ==
  /\ it \in DOMAIN its
  /\ its' = Del(its, it)
  /\ UNCHANGED <<hist, dur, inflight, wtx, readers, rpend, eph, nextOrd, latch>>

-----------------------------------------------------------------------------
(* Savepoints *)

\* ephemeral_savepoint(): handle s
EphSavepoint(s, res) ==
  /\ wtx.on /\ s \notin DOMAIN eph
  /\ IF wtx.dirty
     THEN IsE(res, "InvalidSavepoint") /\ UNCHANGED <<eph, nextOrd, wtx>>
     ELSE /\ res = Ok(0)
          /\ eph' = Put(eph, s, [ord |-> nextOrd, idx |-> wtx.base, valid |-> TRUE])
          /\ nextOrd' = nextOrd + 1
          /\ UNCHANGED wtx
  /\ UNCHANGED <<hist, dur, inflight, readers, rpend, its, latch>>

\* the Savepoint handle is dropped (any time, any thread)
EphDrop(s) ==
  /\ s \in DOMAIN eph
  /\ eph' = Del(eph, s)
  /\ UNCHANGED <<hist, dur, inflight, wtx, readers, rpend, nextOrd, its, latch>>

\* persistent_savepoint(): res.ok is the id
PersSavepoint(res) ==
  /\ wtx.on
  /\ IF wtx.d # "imm" THEN IsE(res, "ImmediateDurabilityRequired") /\ UNCHANGED <<wtx, nextOrd>>
     ELSE IF wtx.dirty THEN IsE(res, "InvalidSavepoint") /\ UNCHANGED <<wtx, nextOrd>>
     ELSE /\ IsOk(res)
          /\ \A id \in DOMAIN wtx.psp : res.ok > id
          /\ \A id \in DOMAIN Latest.psp : res.ok > id
          /\ wtx' = [wtx EXCEPT !.psp = Put(@, res.ok, [idx |-> wtx.base, ord |-> nextOrd]),
                                !.pspMod = TRUE]
          /\ nextOrd' = nextOrd + 1
  /\ UNCHANGED <<hist, dur, inflight, readers, rpend, eph, its, latch>>

DeletePersSavepoint(id, res) ==
  /\ wtx.on
  /\ IF wtx.d # "imm" THEN IsE(res, "ImmediateDurabilityRequired") /\ UNCHANGED wtx
     ELSE IF id \notin DOMAIN wtx.psp THEN res = Ok(FALSE) /\ UNCHANGED wtx
     ELSE res = Ok(TRUE) /\ wtx' = [wtx EXCEPT !.psp = Del(@, id), !.pspMod = TRUE]
  /\ UNCHANGED <<hist, dur, inflight, readers, rpend, eph, nextOrd, its, latch>>

ListPersSavepoints(res) ==
  /\ IsOk(res)
  /\ wtx.on
  /\ Range(res.ok) = DOMAIN wtx.psp /\ Len(res.ok) = Cardinality(DOMAIN wtx.psp)
  /\ UNCHANGED kvVars

\* restore_savepoint: sp = [ord, idx] of an ephemeral handle or of a persistent savepoint
RestoreCore(ord, idx, valid, res) ==
  /\ wtx.on /\ wtx.open = {}
  /\ IF ~valid \/ ord \in wtx.inval
     THEN IsE(res, "InvalidSavepoint") /\ UNCHANGED wtx
     ELSE IF wtx.d # "imm" /\ \E id \in DOMAIN wtx.psp : wtx.psp[id].ord > ord
     THEN IsE(res, "ImmediateDurabilityRequired") /\ UNCHANGED wtx
     ELSE /\ res = Ok(0)
          /\ wtx' = [wtx EXCEPT
                !.t = hist[idx].t,
                !.dirty = TRUE,
                !.inval = @ \cup ((ord + 1)..(nextOrd - 1)),
                !.psp = [id \in {i \in DOMAIN wtx.psp : wtx.psp[i].ord <= ord} |-> wtx.psp[id]],
                !.pspMod = @ \/ (\E id \in DOMAIN wtx.psp : wtx.psp[id].ord > ord)]
  /\ UNCHANGED <<hist, dur, inflight, readers, rpend, eph, nextOrd, its, latch>>

RestoreEph(s, res) ==
  /\ s \in DOMAIN eph
  /\ RestoreCore(eph[s].ord, eph[s].idx, eph[s].valid, res)

\* get_persistent_savepoint(id) followed by restore_savepoint
RestorePers(id, res) ==
  /\ wtx.on
  /\ IF id \notin DOMAIN wtx.psp
     THEN IsE(res, "InvalidSavepoint") /\ UNCHANGED kvVars
     ELSE RestoreCore(wtx.psp[id].ord, wtx.psp[id].idx, TRUE, res)

-----------------------------------------------------------------------------
(* Whole-database operations *)

\* a deviation of the code that known_findings.txt lists: reported, not rejected
Known(sig, R) == PrintT(<<"KNOWN", sig, R.run, R.i>>)

\* compact(): contents unchanged; refuses with savepoints / readers; never makes the file larger;
\* finishes in a number of passes bounded by the size of the file (R carries the storage length before
\* and after, the number of sync_data calls and the number of pages of the file before)
Compact(res, R) ==
  /\ ~wtx.on
  \* KNOWN FINDING C13/compact-grows-a-compacted-file: a compact() that finds nothing to move (Ok(FALSE)) on a file the previous
  \* compact() has just trimmed may EXTEND the file (its forced commit finds no free page; the trailing region is grown and the
  \* pages the commit takes lie at its end).  Named as its own disjunct, reported through Known(), accepted only while
  \* known_findings.txt lists it.
  /\ ("len0" \in DOMAIN R /\ ~IsErr(res)) =>
        /\ R.syncs <= 8 * (R.pages0 + 8)
        /\ R.len1 <= R.len0 \/ (res = Ok(FALSE) /\ Known("C13/compact-grows-a-compacted-file", R))
  \* the end state is a fixpoint (Compact.tla): compact() called again at once moves nothing.  (It may still trim: with
  \* several regions each commit of the drain gives up one trailing region at most, and the drain stops when nothing is
  \* pending - seen on the real code, 197 120 -> 66 048 bytes by a call that reports "nothing compacted"; not a property.)
  /\ ("again" \in DOMAIN R /\ ~IsErr(res)) =>
        /\ R.again = Ok(FALSE)
        /\ R.len2 <= R.len1 \/ Known("C13/compact-grows-a-compacted-file", R)
  \* (after a reported storage error compact() is refused like every write; WHICH refusal it reports is not determined
  \* then: the savepoint registrations of a commit that failed stay in the tracker until the database is reopened)
  /\ IF latch # "ok" THEN IsErr(res)
     ELSE IF DOMAIN Latest.psp # {} THEN IsE(res, "PersistentSavepointExists")
     ELSE IF \E s \in DOMAIN eph : eph[s].valid THEN IsE(res, "EphemeralSavepointExists")
     ELSE IF DOMAIN readers # {} \/ DOMAIN its # {} \/ DOMAIN eph # {}
          THEN IsE(res, "TransactionInProgress")
     ELSE IsOk(res) /\ res.ok \in BOOLEAN
  /\ dur' = IF IsErr(res) THEN dur ELSE Len(hist)       \* its commits are durable
  /\ UNCHANGED <<hist, inflight, wtx, readers, rpend, eph, nextOrd, its, latch>>

\* check_integrity() on a healthy database.  stale = the layout in memory is ahead of the one in the
\* on-disk header (a transaction grew the file and ended without a durable commit).
\* KNOWN FINDING C11/integrity-false-after-unpersisted-growth: in that situation the real code reports
\* Ok(FALSE) ("repaired") although nothing is damaged; the deviation is named here as its own
\* disjunct, reported through Known(), and accepted only if known_findings.txt lists it.

CheckIntegrity(res, stale, R) ==
  /\ ~wtx.on
  /\ IF DOMAIN readers # {} \/ DOMAIN its # {} \/ (\E s \in DOMAIN eph : eph[s].valid)
     THEN IsE(res, "TransactionInProgress") /\ UNCHANGED dur
     ELSE IF latch # "ok" THEN IsErr(res) /\ UNCHANGED dur
     ELSE /\ IF res = Ok(TRUE) THEN TRUE
             ELSE IF stale /\ res = Ok(FALSE) THEN Known("C11/integrity-false-after-unpersisted-growth", R)
             ELSE FALSE
          /\ dur' = Len(hist)       \* pending non-durable commits become durable
  /\ UNCHANGED <<hist, inflight, wtx, readers, rpend, eph, nextOrd, its, latch>>

\* Database dropped cleanly and opened again; obs is the full dump after opening
Reopen(obs) ==
  /\ ~wtx.on /\ DOMAIN readers = {} /\ DOMAIN its = {}
  /\ IF latch = "ok"
     THEN /\ ObsMatches(obs, Latest)
          /\ UNCHANGED hist
     ELSE \* after a failed commit the close cannot promise more than a crash does
          /\ CrashAtomic(obs)
          /\ hist' = Append(hist, CHOOSE db \in CrashCandidates : ObsMatches(obs, db))
  /\ dur' = Len(hist')
  /\ eph' = EmptyFn /\ latch' = "ok" /\ inflight' = <<>>
  /\ UNCHANGED <<wtx, readers, rpend, nextOrd, its>>

\* the process stops here and the file is reopened; obs is the dump after recovery
Crash(obs) ==
  /\ CrashAtomic(obs)
  /\ hist' = Append(hist, CHOOSE db \in CrashCandidates : ObsMatches(obs, db))
  /\ dur' = Len(hist')
  /\ wtx' = NoTx /\ readers' = EmptyFn /\ rpend' = EmptyFn /\ eph' = EmptyFn /\ its' = EmptyFn
  /\ latch' = "ok" /\ inflight' = <<>>
  /\ UNCHANGED nextOrd

\* a hypothetical crash (on a copy of the storage): the run itself continues unchanged.
\* p.obs is what the reopened copy shows; p.integ the result of check_integrity() on it and p.same
\* whether the contents were unchanged by that check (C11: a recovered database is healthy)
\* KNOWN FINDING C19/v3-integrity-false-on-short-file: redb 3.0.0 never makes a file shorter than 258
\* pages (1 MiB of data pages, the header page and a tracker page); this code trims and grows files
\* below that, and on such a file 3.0.0's check_integrity() may answer Ok(FALSE) ("repaired") although
\* it shows exactly the contents this code shows.  Named as its own disjunct, reported through
\* Known(), accepted only while known_findings.txt lists it.
MinFileOf3 == 258 * 4096
CrashProbe(p) ==
  \* (a history WRITTEN by redb 3.0.0: how durable its commits are is that release's business, not a property of this code -
  \* one image of 3.0.0 lacked a commit 3.0.0 had acknowledged, and 3.0.0 itself showed the same; C19 asks for one commit point
  \* of the history, the same one the writing release shows (peer_same below), an integrity check that passes)
  /\ IF "writer" \in DOMAIN p /\ p.writer = "3.0.0"
     THEN \E db \in {hist[i] : i \in 1..Len(hist)} \cup Range(inflight) : ObsMatches(p.obs, db)
     ELSE CrashAtomic(p.obs)
  /\ "integ" \in DOMAIN p =>
        IF p.integ = Ok(TRUE) THEN p.same
        ELSE IF "reader" \in DOMAIN p /\ p.reader = "3.0.0" /\ p.integ = Ok(FALSE) /\ p.ilen < MinFileOf3
             THEN Known("C19/v3-integrity-false-on-short-file", p)
             ELSE FALSE
  \* C11: writing after a reopen never damages existing data (a transaction that adds one table)
  /\ "write_ok" \in DOMAIN p => p.write_ok
  \* C19: the image was opened by another release than the one that wrote it; both show the same
  /\ "peer_same" \in DOMAIN p => p.peer_same
  \* C07: each persistent savepoint the recovered database lists was restored (on a copy of the image):
  \* the result is exactly the state it captured
  /\ "psp_restored" \in DOMAIN p =>
        \E db \in CrashCandidates :
          /\ ObsMatches(p.obs, db)
          /\ \A i \in 1..Len(p.psp_restored) :
               LET x == p.psp_restored[i] IN
               /\ x.id \in DOMAIN db.psp /\ "tables" \in DOMAIN x.obs
               /\ ObsTablesMatch(x.obs, hist[db.psp[x.id].idx].t)
  /\ UNCHANGED kvVars

\* C12: a closed image of this history was altered (any bytes), opened, and check_integrity() was
\* called.  Either the damage is reported (the open fails, the check returns an error - a panic is
\* counted like an error: loud, not a false certificate), or the check returns Ok: then what the
\* database serves afterwards must be exactly one commit point of the history, and after Ok(FALSE)
\* ("repaired") a second check must return Ok(TRUE) with the same contents.
CorruptProbe(p) ==
  /\ (p.open = "ok" /\ IsOk(p.integ)) =>
        /\ \E i \in 1..Len(hist) :
              /\ ObsMatches(p.obs, hist[i])
              \* alterations inside the system tree: every persistent savepoint the certified database lists was restored
              \* (on a copy of the altered image) - the result is exactly the state it captured, or the restore is refused
              /\ "psp_restored" \in DOMAIN p =>
                    \A j \in 1..Len(p.psp_restored) :
                      LET x == p.psp_restored[j] IN
                      "tables" \in DOMAIN x.obs => (x.id \in DOMAIN hist[i].psp /\ ObsTablesMatch(x.obs, hist[hist[i].psp[x.id].idx].t))
        /\ (p.integ.ok = FALSE) => (p.integ2 = Ok(TRUE) /\ p.same2)
  /\ UNCHANGED kvVars

\* full dump through a view: must be exactly that view
Dump(src, obs) ==
  /\ SrcOk(src) /\ "tables" \in DOMAIN obs
  /\ src = "w" => wtx.open = {}
  /\ ObsTablesMatch(obs, Tables(src))
  /\ src = "w" => (Range(obs.psp) = DOMAIN wtx.psp /\ Len(obs.psp) = Cardinality(DOMAIN wtx.psp))
  /\ UNCHANGED kvVars

-----------------------------------------------------------------------------
(* Properties of the specification itself (checked by TLC on MC_Kv) *)

TypeOK ==
  /\ dur \in 1..Len(hist)
  /\ \A h \in DOMAIN readers : readers[h] \in 1..Len(hist)
  /\ Len(inflight) <= 1

\* hist is append-only and dur never decreases: commit points are never lost or reordered
HistAppendOnly == [][Len(hist') >= Len(hist) /\ SubSeq(hist', 1, Len(hist)) = hist /\ dur' >= dur]_kvVars

\* a reader's snapshot never moves
SnapshotFrozen == [][\A h \in DOMAIN readers \cap DOMAIN readers' : readers'[h] = readers[h]]_kvVars

\* an abandoned transaction leaves no trace in the commit history
AbortNoTrace == [][(wtx.on /\ ~wtx'.on /\ inflight = <<>> /\ Len(hist') = Len(hist)) => hist' = hist]_kvVars

=============================================================================
