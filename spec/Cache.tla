------------------------------- MODULE Cache -------------------------------
(***************************************************************************)
(* The page cache (src/tree_store/page_store/cached_file.rs): a write      *)
(* buffer and a read cache over the storage backend.  What the layers      *)
(* above rely on (C01, C02, C08): the cache is transparent - a read        *)
(* returns what was last written to that page, whatever has been buffered, *)
(* evicted, written back, flushed, or failed to be written in between; a   *)
(* flush leaves everything on the backend; a failed write-back loses       *)
(* nothing.                                                                *)
(*                                                                         *)
(* One action per API call of PagedCachedFile.  The pages a call writes    *)
(* back or evicts are chosen by LRU order in the code; here any choice the *)
(* budget rules allow is a step (the trace binds the choice, see           *)
(* CacheTrace.tla).                                                        *)
(*                                                                         *)
(*   truth[o]   what the last write to page o put there (0 = never)        *)
(*   file[o]    what the backend holds                                     *)
(*   wbuf       page -> data buffered for writing                          *)
(*   rcache     page -> data cached for reading                            *)
(*   dirty      pages written since the last barrier / flush: readers of   *)
(*              other transactions never ask for them, the writer reads    *)
(*              them with PageHint::None                                   *)
(*   flag       committed_pages_buffered                                   *)
(*   latched    a required backend call failed: every later call reports   *)
(*              the failure                                                *)
(*                                                                         *)
(* LoseOnFailedWriteback = TRUE is the seeded-bad variant: a best-effort   *)
(* write-back that fails drops the page from the buffer.                   *)
(***************************************************************************)
EXTENDS Naturals, FiniteSets, TLC

CONSTANTS Pages, MaxCache, MaxVal, Faults, LoseOnFailedWriteback

VARIABLES truth, file, wbuf, rcache, dirty, flag, latched, nextVal, faults

cavars == <<truth, file, wbuf, rcache, dirty, flag, latched, nextVal, faults>>

Dom(f) == DOMAIN f
Without(f, S) == [x \in DOMAIN f \ S |-> f[x]]
With(f, o, v) == [x \in DOMAIN f \cup {o} |-> IF x = o THEN v ELSE f[x]]
Empty == [x \in {} |-> 0]
Half == MaxCache \div 2

Init ==
  /\ truth = [o \in Pages |-> 0] /\ file = [o \in Pages |-> 0]
  /\ wbuf = Empty /\ rcache = Empty /\ dirty = {} /\ flag = FALSE /\ latched = FALSE
  /\ nextVal = 1 /\ faults = 0

\* where the data of page o is right now
Holds(o) == IF o \in Dom(wbuf) THEN wbuf[o] ELSE file[o]

\* what read(o, hint) hands out: the buffer first for PageHint::None, then the read cache, then - for a
\* clean page, if the flag says committed pages are buffered - the buffer, then the backend
Ret(o, clean) ==
  IF ~clean /\ o \in Dom(wbuf) THEN wbuf[o]
  ELSE IF o \in Dom(rcache) THEN rcache[o]
  ELSE IF clean /\ flag /\ o \in Dom(wbuf) THEN wbuf[o]
  ELSE file[o]

-----------------------------------------------------------------------------
\* Write-back of a set E of buffered pages, all successful
WroteBack(E) ==
  /\ E \subseteq Dom(wbuf)
  /\ file' = [o \in Pages |-> IF o \in E THEN wbuf[o] ELSE file[o]]

\* write(o): the page is (re)written with new data.  Rule 1: the buffer is held at half the budget by
\* writing back other pages (required writes: a failure fails the call and latches).  The read cache
\* entry of o is dropped; the read cache is evicted if the total exceeds the budget.
Write(o, E, R, fail) ==
  \* (once a failure is latched, a call that needs no backend call still goes through: the page is only buffered)
  /\ (latched => (E = {} /\ ~fail)) /\ nextVal <= MaxVal
  /\ E \subseteq Dom(wbuf) \ {o} /\ R \subseteq Dom(rcache)
  /\ o \in Dom(wbuf) => E = {}
  /\ IF fail
     THEN \* one required write-back fails: nothing is lost, the call reports the error
          /\ faults < Faults /\ faults' = faults + 1
          /\ E # {} /\ latched' = TRUE
          /\ \E ok \in SUBSET E : ok # E /\ WroteBack(ok) /\ wbuf' = Without(wbuf, ok) /\ dirty' = dirty \ ok
          /\ rcache' = Without(rcache, {o})
          /\ UNCHANGED <<truth, flag, nextVal>>
     ELSE /\ WroteBack(E)
          /\ wbuf' = With(Without(wbuf, E), o, nextVal)
          /\ rcache' = Without(rcache, {o} \cup R)
          /\ truth' = [truth EXCEPT ![o] = nextVal]
          /\ dirty' = (dirty \ E) \cup {o}
          /\ nextVal' = nextVal + 1
          /\ Cardinality(Dom(wbuf')) <= Half + 1
          /\ UNCHANGED <<flag, latched, faults>>

\* read(o, hint).  PageHint::None looks into the buffer first; PageHint::Clean only when the flag says
\* committed pages may be there.  A miss reads the backend, may write back committed buffered pages
\* to make room (best effort: a failure is neither reported nor latched, and must lose nothing), and
\* caches the page, evicting others if over budget.
Read(o, clean, E, lost, R, res) ==
  /\ latched => ((~clean /\ o \in Dom(wbuf)) \/ o \in Dom(rcache) \/ (clean /\ flag /\ o \in Dom(wbuf)))
  /\ clean => o \notin dirty
  /\ res = Ret(o, clean)
  /\ R \subseteq Dom(rcache) \cup {o}
  /\ IF (~clean /\ o \in Dom(wbuf)) \/ o \in Dom(rcache)
     THEN E = {} /\ lost = {} /\ R = {} /\ UNCHANGED <<file, wbuf, rcache, faults, dirty>>
     ELSE IF clean /\ flag /\ o \in Dom(wbuf)
     THEN /\ E = {} /\ lost = {} /\ R = {}
          /\ \/ rcache' = With(rcache, o, wbuf[o]) /\ Cardinality(Dom(rcache')) <= MaxCache
             \/ rcache' = rcache
          /\ UNCHANGED <<file, wbuf, faults, dirty>>
     ELSE \* the reclaim writes back the least recently used buffered pages, whoever they belong to (writing an
          \* uncommitted page out early is harmless: it lives at an offset nobody else reads)
          /\ E \subseteq Dom(wbuf) /\ (E # {} => flag)
          /\ lost \subseteq Dom(wbuf) \ E /\ (lost # {} => (flag /\ faults < Faults))
          /\ faults' = IF lost # {} THEN faults + 1 ELSE faults
          /\ WroteBack(E)
          \* a best-effort write-back that failed: the page stays buffered (unless the seeded-bad variant)
          /\ wbuf' = Without(wbuf, E \cup (IF LoseOnFailedWriteback THEN lost ELSE {}))
          /\ dirty' = dirty \ (E \cup (IF LoseOnFailedWriteback THEN lost ELSE {}))
          \* the page is cached, then the read cache is brought back under the budget (possibly at this page's expense)
          /\ rcache' = Without(With(rcache, o, file[o]), R)
  /\ UNCHANGED <<truth, flag, latched, nextVal>>

\* the backend read of a miss fails: the call reports it, the failure is latched, nothing else happens
ReadFail(o, clean) ==
  /\ ~latched /\ faults < Faults
  /\ clean => o \notin dirty
  /\ ~((~clean /\ o \in Dom(wbuf)) \/ o \in Dom(rcache) \/ (clean /\ flag /\ o \in Dom(wbuf)))
  /\ latched' = TRUE /\ faults' = faults + 1
  /\ UNCHANGED <<truth, file, wbuf, rcache, dirty, flag, nextVal>>

\* write(o, overwrite = false) of a page that is nowhere in the cache loads it from the backend first, after the
\* buffer has been brought under its budget (pages E written back): that read fails
WriteLoadFail(o, E, R) ==
  /\ ~latched /\ faults < Faults
  /\ o \notin Dom(wbuf) /\ o \notin Dom(rcache)
  /\ E \subseteq Dom(wbuf) /\ R \subseteq Dom(rcache)
  /\ WroteBack(E) /\ wbuf' = Without(wbuf, E) /\ dirty' = dirty \ E
  /\ rcache' = Without(rcache, R)       \* the read cache was brought under the budget before the load
  /\ latched' = TRUE /\ faults' = faults + 1
  /\ UNCHANGED <<truth, flag, nextVal>>

\* once a failure is latched every call reports it and changes nothing
Refused == latched /\ UNCHANGED cavars
\* (flush() with nothing buffered clears the flag before its sync is refused)
RefusedFlush ==
  /\ latched /\ flag' = (IF Dom(wbuf) = {} THEN FALSE ELSE flag)
  /\ UNCHANGED <<truth, file, wbuf, rcache, dirty, latched, nextVal, faults>>
\* (write() drops the read-cache entry of its page before it gets to the backend call that is refused)
RefusedWrite(o, R) ==
  /\ latched /\ R \subseteq Dom(rcache) /\ rcache' = Without(rcache, {o} \cup R)
  /\ UNCHANGED <<truth, file, wbuf, dirty, flag, latched, nextVal, faults>>

\* flush(): every buffered page is written (required), then the file is synced; the buffer is empty
\* and the flag cleared.  A failing write leaves the buffer as it is.
Flush(fail) ==
  /\ ~latched
  /\ IF fail
     THEN \* the buffer is flushed stripe by stripe: the stripes done before the failing write are empty (their pages
          \* moved to the read cache), the pages written in the failing stripe are on the backend and still buffered
          /\ faults < Faults /\ faults' = faults + 1 /\ Dom(wbuf) # {} /\ latched' = TRUE
          /\ \E done \in SUBSET Dom(wbuf), part \in SUBSET Dom(wbuf) :
               /\ done \cap part = {} /\ done \cup part # Dom(wbuf)
               /\ WroteBack(done \cup part)
               /\ wbuf' = Without(wbuf, done) /\ dirty' = dirty \ done
               /\ \E keep \in SUBSET done :
                    /\ Cardinality(Dom(rcache) \cup keep) <= MaxCache
                    /\ rcache' = [x \in Dom(rcache) \cup keep |-> IF x \in keep THEN wbuf[x] ELSE rcache[x]]
          /\ UNCHANGED <<truth, flag, nextVal>>
     ELSE /\ WroteBack(Dom(wbuf))
          /\ \E keep \in SUBSET Dom(wbuf) :
               /\ Cardinality(Dom(rcache) \cup keep) <= MaxCache
               /\ rcache' = [x \in Dom(rcache) \cup keep |-> IF x \in keep THEN wbuf[x] ELSE rcache[x]]
          /\ wbuf' = Empty /\ dirty' = {} /\ flag' = FALSE
          /\ UNCHANGED <<truth, latched, nextVal, faults>>

\* the sync at the end of flush() fails: everything was written, the failure is latched
FlushSyncFail ==
  /\ ~latched /\ faults < Faults /\ faults' = faults + 1 /\ latched' = TRUE
  /\ WroteBack(Dom(wbuf))
  /\ \E keep \in SUBSET Dom(wbuf) :
       /\ Cardinality(Dom(rcache) \cup keep) <= MaxCache
       /\ rcache' = [x \in Dom(rcache) \cup keep |-> IF x \in keep THEN wbuf[x] ELSE rcache[x]]
  /\ wbuf' = Empty /\ dirty' = {} /\ flag' = FALSE
  /\ UNCHANGED <<truth, nextVal>>

\* (the flag is set from the byte counter of the buffer; a write() that failed while loading its page leaves that
\* counter one page too high, so after a latched failure the flag may be set over an empty buffer - harmless)
Barrier ==
  /\ \/ flag' = (flag \/ Dom(wbuf) # {})
     \/ latched /\ flag' = TRUE
  /\ dirty' = {}
  /\ UNCHANGED <<truth, file, wbuf, rcache, latched, nextVal, faults>>

\* invalidate_cache(o) / invalidate_cache_all()
Invalidate(S) ==
  /\ rcache' = Without(rcache, S)
  /\ UNCHANGED <<truth, file, wbuf, dirty, flag, latched, nextVal, faults>>

\* cancel_pending_write(o): the page was freed before it was ever written out; its content no longer matters,
\* what the backend holds is what is there.  (free_helper() calls invalidate_cache() first: the caller's part.)
Cancel(o) ==
  /\ o \in Dom(wbuf) /\ o \notin Dom(rcache)
  /\ wbuf' = Without(wbuf, {o}) /\ dirty' = dirty \ {o}
  /\ truth' = [truth EXCEPT ![o] = file[o]]
  /\ UNCHANGED <<file, rcache, flag, latched, nextVal, faults>>

\* discard_write_buffer() followed by invalidate_cache_all() (clear_cache_and_reload() calls both): roll back to
\* what the backend holds.  The read cache may hold copies of buffered pages, so the caller has to clear it too.
Discard ==
  /\ wbuf' = Empty /\ dirty' = {} /\ flag' = FALSE
  /\ truth' = [o \in Pages |-> IF o \in Dom(wbuf) THEN file[o] ELSE truth[o]]
  /\ rcache' = Empty
  /\ UNCHANGED <<file, latched, nextVal, faults>>

Next ==
  \/ \E o \in Pages, E \in SUBSET Pages, R \in SUBSET Pages, f \in BOOLEAN : Write(o, E, R, f)
  \/ \E o \in Pages, c \in BOOLEAN, E \in SUBSET Pages, L \in SUBSET Pages, R \in SUBSET Pages : Read(o, c, E, L, R, Ret(o, c))
  \/ \E f \in BOOLEAN : Flush(f)
  \/ FlushSyncFail
  \/ \E o \in Pages, c \in BOOLEAN : ReadFail(o, c)
  \/ \E o \in Pages, E \in SUBSET Pages, R \in SUBSET Pages : WriteLoadFail(o, E, R)
  \/ Barrier \/ Discard
  \/ \E S \in SUBSET Pages : Invalidate(S)
  \/ \E o \in Pages : Cancel(o)

Spec == Init /\ [][Next]_cavars

-----------------------------------------------------------------------------
\* the cache is transparent: the data of every page is where a read finds it
Transparent ==
  /\ \A o \in Pages : Holds(o) = truth[o]
  /\ \A o \in Dom(rcache) : o \notin Dom(wbuf) => rcache[o] = truth[o]
\* every read a caller may issue returns the last write
ReadsTruth == ~latched => \A o \in Pages : /\ Ret(o, FALSE) = truth[o]
                                           /\ o \notin dirty => Ret(o, TRUE) = truth[o]
\* a page a reader may ask for with PageHint::Clean is found: in the read cache, in the buffer with the flag set,
\* or on the backend
CleanReadsFind == \A o \in Dom(wbuf) \ dirty : flag
\* a read-cache entry never shadows newer buffered data for a reader that skips the buffer
NoStaleShadow == \A o \in Dom(rcache) \cap Dom(wbuf) : rcache[o] = wbuf[o]
Budget == Cardinality(Dom(wbuf)) <= Half + 1 /\ Cardinality(Dom(rcache)) <= MaxCache + 1
TypeOK == Dom(wbuf) \subseteq Pages /\ Dom(rcache) \subseteq Pages /\ dirty \subseteq Dom(wbuf)
=============================================================================
