------------------------------- MODULE MC_Kv -------------------------------
(***************************************************************************)
(* Model-checking / generation harness for Kv.tla.                         *)
(*                                                                         *)
(* Steps (API calls with arguments) are enumerated over small constants,   *)
(* the result of each is COMPUTED here constructively (sorting etc.), and  *)
(* the step is then taken through KvDispatch!Do - so a step is enabled     *)
(* only if the constructive result satisfies the declarative rule of Kv    *)
(* (two formulations of the same semantics checking each other; an action  *)
(* that is never enabled shows up in -coverage).                           *)
(*                                                                         *)
(* With Emit = TRUE every generated transition is printed as one JSON line *)
(* ("TR", mode, source state, step with expected result, target state):    *)
(* the transition tour that /verif/harness replays against the real code.  *)
(***************************************************************************)
EXTENDS KvDispatch, Json, SequencesExt

CONSTANTS
  Mode,      \* "table" | "multimap" | "catalog" | "savepoint"
  Keys,      \* set of keys
  Vals,      \* set of values
  MaxHist,   \* bound on Len(hist)
  MaxPath,   \* bound on the number of steps of a behaviour (catalog / savepoint modes)
  Emit       \* print transitions

VARIABLE path   \* the steps taken so far (hidden from the fingerprint by VIEW)

mcVars == <<kvVars, path>>
View == kvVars

Sorted(S) == SetToSortSeq(S, <)

RECURSIVE TakeRec(_, _, _, _, _)
TakeRec(sorted, n, back, alt, acc) ==
  IF n = 0 \/ sorted = <<>> THEN acc
  ELSE LET x == IF back THEN sorted[Len(sorted)] ELSE sorted[1]
           rest == IF back THEN SubSeq(sorted, 1, Len(sorted) - 1) ELSE Tail(sorted)
       IN TakeRec(rest, n - 1, IF alt THEN ~back ELSE back, alt, Append(acc, x))

\* the items a double-ended iterator over selection S of content c yields
TakeSeq(S, c, n, rev, alt) ==
  LET ks == TakeRec(Sorted(S), n, rev, alt, <<>>) IN [i \in 1..Len(ks) |-> <<ks[i], c[ks[i]]>>]

Pairs(c) == LET ks == Sorted(DOMAIN c) IN [i \in 1..Len(ks) |-> <<ks[i], c[ks[i]]>>]
MPairsSeq(c) == LET ks == Sorted(DOMAIN c) IN [i \in 1..Len(ks) |-> <<ks[i], Sorted(c[ks[i]])>>]

Bounds == {[t |-> "u"]} \cup {[t |-> "i", k |-> k] : k \in Keys} \cup {[t |-> "e", k |-> k] : k \in Keys}
Preds == {[m |-> 2, r |-> 0], [m |-> 2, r |-> 1], [m |-> 1, r |-> 0]}
Unb == [t |-> "u"]

-----------------------------------------------------------------------------
(* Mode "table": one normal table "a", open in a write transaction *)

TC == wtx.t["a"].c

TableSteps ==
       {[e |-> "ins", n |-> "a", k |-> k, v |-> v] : k \in Keys, v \in Vals}
  \cup {[e |-> "insr", n |-> "a", k |-> k, v |-> v] : k \in Keys, v \in Vals}
  \cup {[e |-> "getmut", n |-> "a", k |-> k, v |-> v] : k \in Keys, v \in Vals}
  \cup {[e |-> "entry", n |-> "a", k |-> k, v |-> v, variant |-> x] : k \in Keys, v \in Vals,
          x \in {"or_insert", "and_modify_or_insert", "occ_insert", "occ_remove", "vac_insert"}}
  \cup {[e |-> "rem", n |-> "a", k |-> k] : k \in Keys}
  \cup {[e |-> "pop", n |-> "a", last |-> b] : b \in BOOLEAN}
  \cup {[e |-> "get", src |-> "w", n |-> "a", k |-> k] : k \in Keys}
  \cup {[e |-> "len", src |-> "w", n |-> "a"]}
  \cup {[e |-> "edge", src |-> "w", n |-> "a", last |-> b] : b \in BOOLEAN}
  \cup {[e |-> "range", src |-> "w", n |-> "a", lo |-> lo, hi |-> hi, cnt |-> cnt, rev |-> rev, alt |-> alt] :
          lo \in Bounds, hi \in Bounds, cnt \in {1, 99}, rev \in BOOLEAN, alt \in BOOLEAN}
  \cup {[e |-> "retain", n |-> "a", lo |-> lo, hi |-> hi, p |-> p] : lo \in Bounds, hi \in Bounds, p \in Preds}
  \cup {[e |-> "extract", n |-> "a", lo |-> lo, hi |-> hi, p |-> p, cnt |-> cnt, rev |-> rev, alt |-> alt] :
          lo \in {Unb, [t |-> "i", k |-> 1]}, hi \in {Unb, [t |-> "e", k |-> 3]}, p \in Preds,
          cnt \in {0, 1, 2, 99}, rev \in BOOLEAN, alt \in BOOLEAN}

Opt(c, k) == IF k \in DOMAIN c THEN <<c[k]>> ELSE <<>>
EdgeOf(c, last) ==
  IF DOMAIN c = {} THEN <<>>
  ELSE LET ks == Sorted(DOMAIN c) k == IF last THEN ks[Len(ks)] ELSE ks[1] IN <<k, c[k]>>

TableRes(s) ==
  LET c == TC occ == s.k \in DOMAIN c IN
  CASE s.e = "ins" -> Ok(Opt(c, s.k))
    [] s.e = "insr" -> Ok(0)
    [] s.e = "getmut" -> Ok(Opt(c, s.k))
    [] s.e = "entry" ->
         Ok(<<occ, IF s.variant = "and_modify_or_insert" THEN s.v ELSE IF occ THEN c[s.k] ELSE s.v>>)
    [] s.e = "rem" -> Ok(Opt(c, s.k))
    [] s.e = "pop" -> Ok(EdgeOf(c, s.last))
    [] s.e = "get" -> Ok(Opt(c, s.k))
    [] s.e = "len" -> Ok(Cardinality(DOMAIN c))
    [] s.e = "edge" -> Ok(EdgeOf(c, s.last))
    [] s.e = "range" -> Ok(TakeSeq(Sel(c, s.lo, s.hi), c, s.cnt, s.rev, s.alt))
    [] s.e = "retain" -> Ok(0)
    [] s.e = "extract" -> Ok(TakeSeq({k \in Sel(c, s.lo, s.hi) : Holds(s.p, k)}, c, s.cnt, s.rev, s.alt))

-----------------------------------------------------------------------------
(* Mode "multimap": one multimap table "a" *)

MultimapSteps ==
       {[e |-> "mins", n |-> "a", k |-> k, v |-> v] : k \in Keys, v \in Vals}
  \cup {[e |-> "mrem", n |-> "a", k |-> k, v |-> v] : k \in Keys, v \in Vals}
  \cup {[e |-> "mremall", n |-> "a", k |-> k] : k \in Keys}
  \cup {[e |-> "mget", src |-> "w", n |-> "a", k |-> k] : k \in Keys}
  \cup {[e |-> "mrange", src |-> "w", n |-> "a", lo |-> lo, hi |-> hi, rev |-> rev] :
          lo \in Bounds, hi \in Bounds, rev \in BOOLEAN}
  \cup {[e |-> "len", src |-> "w", n |-> "a"]}

RevSeq(s) == [i \in 1..Len(s) |-> s[Len(s) + 1 - i]]

MultimapRes(s) ==
  LET c == TC IN
  CASE s.e = "mins" -> Ok(s.v \in MVals(c, s.k))
    [] s.e = "mrem" -> Ok(s.v \in MVals(c, s.k))
    [] s.e = "mremall" -> Ok(Sorted(MVals(c, s.k)))
    [] s.e = "mget" -> Ok(<<Sorted(MVals(c, s.k)), Cardinality(MVals(c, s.k))>>)
    [] s.e = "mrange" ->
         LET ks == Sorted(Sel(c, s.lo, s.hi))
             fw == [i \in 1..Len(ks) |-> <<ks[i], Sorted(c[ks[i]])>>]
         IN Ok(IF s.rev THEN RevSeq(fw) ELSE fw)
    [] s.e = "len" -> Ok(MLen(c))

-----------------------------------------------------------------------------

Steps == IF Mode = "table" THEN TableSteps ELSE MultimapSteps
ResOf(s) == IF Mode = "table" THEN TableRes(s) ELSE MultimapRes(s)
StateOf(c) == IF Mode = "table" THEN Pairs(c) ELSE MPairsSeq(c)

ASSUME PrintT(<<"NSTEPS", Cardinality(Steps)>>)

MCInit ==
  /\ Init
  /\ path = <<>>

\* the initial state of the tour modes: a write transaction with table "a" open and empty
TourInit ==
  /\ hist = <<EmptyDb>> /\ dur = 1 /\ inflight = <<>> /\ readers = EmptyFn /\ rpend = EmptyFn /\ eph = EmptyFn
  /\ nextOrd = 1 /\ its = EmptyFn /\ latch = "ok"
  /\ wtx = [on |-> TRUE,
            t |-> ("a" :> NewTable(IF Mode = "table" THEN "t" ELSE "m", "K", "V")),
            psp |-> EmptyFn, open |-> {"a"}, dirty |-> TRUE, poisoned |-> FALSE, d |-> "imm",
            base |-> 1, pspMod |-> FALSE, inval |-> {}, tainted |-> FALSE, cur |-> <<>>]
  /\ path = <<>>

TourNext ==
  \E s \in Steps :
    LET R == s @@ [r |-> ResOf(s)] IN
      /\ Do(R)
      /\ path' = path
      /\ Emit => PrintT(<<"TR", ToJson([mode |-> Mode, src |-> StateOf(TC), step |-> R,
                                        dst |-> StateOf(wtx'.t["a"].c)])>>)

TourSpec == TourInit /\ [][TourNext]_mcVars

\* every step whose argument types fit is enabled in every state: the constructive result always
\* satisfies the declarative rule (checked as an invariant over the whole state graph)
AllEnabled == \A s \in Steps : ENABLED Do(s @@ [r |-> ResOf(s)])

=============================================================================
