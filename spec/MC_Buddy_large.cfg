SPECIFICATION Spec
CONSTANT Cap = 12
INVARIANTS TypeOK CanonCoversF CanonDisjoint CanonMerged RefusalIffNothing
CHECK_DEADLOCK FALSE
