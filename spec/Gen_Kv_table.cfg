SPECIFICATION TourSpec
CONSTANTS
  Mode = "table"
  Keys = {0, 1, 2, 3}
  Vals = {1, 2}
  MaxHist = 1
  MaxPath = 0
  Emit = TRUE
VIEW View
INVARIANT TypeOK
CHECK_DEADLOCK FALSE
