SPECIFICATION Spec
CONSTANTS N = 4
          MaxPos = 7
          Bound = 12
INVARIANTS NoSharedPosition Terminates EndState
CHECK_DEADLOCK FALSE
