SPECIFICATION Spec
CONSTANT PickNewer = TRUE
INVARIANT Sound
INVARIANT Newest
INVARIANT Available
INVARIANT FlagDiscipline
INVARIANT NewerId
INVARIANT Restartable
CHECK_DEADLOCK FALSE
