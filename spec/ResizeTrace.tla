---------------------------- MODULE ResizeTrace ----------------------------
(***************************************************************************)
(* The size discipline of Resize.tla applied to every backend call of real *)
(* histories (the traces of harness/src/bin/commitio.rs, the ones          *)
(* CommitTrace.tla judges for the commit protocol):                        *)
(*   page write   lies inside the current length of the storage            *)
(*   header write names no more space than the DURABLE length of the file  *)
(*                (Resize!HdrAllowed: grow() syncs its set_len first)      *)
(*   set_len      shorter: only to what the durable header names, with no  *)
(*                header write pending (Resize!TrimAllowed)                *)
(*   close        recovery flag clear on the storage, counts = length      *)
(* The region counts of every header write are converted to a length with  *)
(* the geometry of the same header.                                        *)
(***************************************************************************)
EXTENDS Resize, Json, IOUtils

ZRec == ndJsonDeserialize(IOEnv.TRACE)
VARIABLES l, P      \* position; page size of the current history
tvars == <<vars, l, P>>
Line == ZRec[l]
Ev(e) == l <= Len(ZRec) /\ Line.e = e /\ l' = l + 1

\* pages a header's counts describe
QOf(h) == 1 + h.regions[1] * (h.geom[1] + h.geom[2]) + (IF h.regions[2] > 0 THEN h.geom[1] + h.regions[2] ELSE 0)
HOf(h) == [q |-> QOf(h), prim |-> h.primary, slots |-> <<0, 0>>, rec |-> h.rec]
Keep == UNCHANGED <<mh, need, cur, cstage, nextVer, crashes>>

TReset ==
  /\ Ev("reset")
  /\ P' = Line.cfg.page_size
  /\ blen' = Line.len \div P' /\ dlen' = blen' /\ Line.len % P' = 0
  /\ dh' = HOf(Line.disk) /\ pend' = <<>> /\ bad' = FALSE
  /\ Keep

TPage ==
  /\ Ev("page")
  /\ Line.off + Line.len <= blen * P
  /\ UNCHANGED <<vars, P>>

THdr ==
  /\ Ev("hdr")
  /\ HdrAllowed(QOf(Line.h))
  /\ pend' = Append(pend, [k |-> "hdr", h |-> HOf(Line.h)])
  /\ UNCHANGED <<blen, dlen, dh, bad, P>> /\ Keep

TSetLen ==
  /\ Ev("setlen")
  /\ Line.len % P = 0
  /\ LET q == Line.len \div P IN
       /\ q < blen => TrimAllowed(q)
       /\ blen' = q /\ pend' = Append(pend, [k |-> "len", q |-> q])
  /\ UNCHANGED <<dlen, dh, bad, P>> /\ Keep

TSync == Ev("sync") /\ Persist /\ UNCHANGED <<blen, bad, P>> /\ Keep

TClose ==
  /\ Ev("bclose")
  /\ pend = <<>> /\ ~dh.rec /\ dh.q = dlen /\ dlen = blen
  /\ UNCHANGED <<vars, P>>

TOther ==
  /\ l <= Len(ZRec) /\ Line.e \in {"cbegin", "cend", "mbegin", "mend"} /\ l' = l + 1
  /\ UNCHANGED <<vars, P>>

TraceInit == Init /\ l = 1 /\ P = 512
TraceNext == TReset \/ TPage \/ THdr \/ TSetLen \/ TSync \/ TClose \/ TOther
TraceSpec == TraceInit /\ [][TraceNext]_tvars

TraceAccepted ==
  LET d == TLCGet("stats").diameter IN
  IF d - 1 = Len(ZRec) THEN TRUE
  ELSE Print(<<"REJECT", d, ToJson([e |-> ZRec[d].e, run |-> ZRec[d].run, i |-> ZRec[d].i])>>, FALSE)
=============================================================================
