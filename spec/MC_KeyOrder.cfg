SPECIFICATION Spec
CONSTANTS Alphabet = {0, 1, 2}
          MaxLen = 3
INVARIANT Holds
CHECK_DEADLOCK FALSE
