----------------------------- MODULE TypesTrace -----------------------------
(***************************************************************************)
(* Type identity of the table catalog (C17).  A table was created with a   *)
(* key or value type whose descriptor is `stored` and is opened - in a     *)
(* write or a read transaction, as a normal or a multimap table - with a   *)
(* type whose descriptor is `opened`.  A descriptor says: built-in or      *)
(* user-defined, the name, and for composites (tuples, Option, arrays)     *)
(* the descriptors of the parts, in order.                                 *)
(*                                                                         *)
(* Rule: the open succeeds iff the two descriptors are the same            *)
(* descriptor; otherwise it reports TableTypeMismatch.  In particular a    *)
(* user-defined type never passes for the built-in type of the same name   *)
(* and width - also not as a part of a tuple, wherever it stands.          *)
(* (Kv.tla states the same rule over the type names of the harness's       *)
(* table instantiations: MatchErr.)                                        *)
(***************************************************************************)
EXTENDS Json, IOUtils, TLC, Sequences, Naturals

YRec == ndJsonDeserialize(IOEnv.TRACE)
VARIABLE l
R == YRec[l]

Allowed(r) ==
  IF r.stored = r.opened
  THEN "ok" \in DOMAIN r.r
  ELSE "err" \in DOMAIN r.r /\ r.r.err = "TableTypeMismatch"

TraceInit == l = 1
Step == l <= Len(YRec) /\ l' = l + 1 /\ R.e = "typeopen" /\ Allowed(R)
TraceSpec == TraceInit /\ [][Step]_l

TraceAccepted ==
  LET d == TLCGet("stats").diameter IN
  IF d - 1 = Len(YRec) THEN TRUE
  ELSE Print(<<"REJECT", d, ToJson(YRec[d])>>, FALSE)
=============================================================================
