--------------------------- MODULE RecoverProofs ---------------------------
(***************************************************************************)
(* The design-level facts about the open-time decision that TLC checks for *)
(* transaction ids 1..3 (Recover.tla: Sound, Newest, Available), proved    *)
(* here with TLAPS for ARBITRARY transaction ids (the decision depends on  *)
(* the ids only through their order).                                      *)
(*                                                                         *)
(*   tlapm --threads 4 RecoverProofs.tla        (all obligations proved)   *)
(***************************************************************************)
EXTENDS RecoverOps, TLAPS

\* what the commit protocol guarantees about any image a crash can leave (Recover.tla: Environment)
Env(primary, tpc, hok, serv) ==
  /\ \A s \in {1, 2} : serv[s] => hok[s]
  /\ (tpc /\ hok[primary]) => serv[primary]

\* select_primary_slot, then do_repair (no saved allocator state: the quick path verifies nothing)
Chosen(primary, tpc, hok, serv, txn) == Verify(Select(primary, tpc, hok, txn, TRUE).p, tpc, serv)
Refused(primary, tpc, hok, serv, txn) == Select(primary, tpc, hok, txn, TRUE).err \/ Chosen(primary, tpc, hok, serv, txn).err

LEMMA SelRange ==
  ASSUME NEW primary \in {1, 2}, NEW tpc \in BOOLEAN, NEW hok \in [{1, 2} -> BOOLEAN], NEW txn \in [{1, 2} -> Nat]
  PROVE  Select(primary, tpc, hok, txn, TRUE).p \in {1, 2}
  BY DEF Select, Other

LEMMA SelHok ==
  ASSUME NEW primary \in {1, 2}, NEW tpc \in BOOLEAN, NEW hok \in [{1, 2} -> BOOLEAN], NEW txn \in [{1, 2} -> Nat]
  PROVE  LET s == Select(primary, tpc, hok, txn, TRUE) IN ~s.err => hok[s.p]
  BY DEF Select, Other

\* without the two-phase flag: the slot with a good checksum and the greater id (the primary on a tie)
LEMMA SelNewest ==
  ASSUME NEW primary \in {1, 2}, NEW hok \in [{1, 2} -> BOOLEAN], NEW txn \in [{1, 2} -> Nat]
  PROVE  LET s == Select(primary, FALSE, hok, txn, TRUE) IN
           /\ s.err <=> (~hok[1] /\ ~hok[2])
           /\ ~s.err => \A t \in {1, 2} : hok[t] => txn[t] <= txn[s.p]
  BY DEF Select, Other

LEMMA VerFacts ==
  ASSUME NEW p \in {1, 2}, NEW tpc \in BOOLEAN, NEW serv \in [{1, 2} -> BOOLEAN]
  PROVE  LET v == Verify(p, tpc, serv) IN
           /\ v.p \in {1, 2}
           /\ ~v.err => serv[v.p]
           /\ serv[p] => (v.p = p /\ ~v.err)
           /\ (~tpc /\ ~serv[p]) => (v.p = Other(p) /\ (v.err <=> ~serv[Other(p)]))
  BY DEF Verify, Other

THEOREM Sound ==
  ASSUME NEW primary \in {1, 2}, NEW tpc \in BOOLEAN,
         NEW hok \in [{1, 2} -> BOOLEAN], NEW serv \in [{1, 2} -> BOOLEAN], NEW txn \in [{1, 2} -> Nat]
  PROVE  ~Refused(primary, tpc, hok, serv, txn) =>
            LET c == Chosen(primary, tpc, hok, serv, txn) IN c.p \in {1, 2} /\ serv[c.p]
  <1> DEFINE sel == Select(primary, tpc, hok, txn, TRUE)
  <1>1. sel.p \in {1, 2} BY SelRange
  <1>2. LET v == Verify(sel.p, tpc, serv) IN v.p \in {1, 2} /\ (~v.err => serv[v.p]) BY <1>1, VerFacts
  <1> QED BY <1>2 DEF Refused, Chosen

THEOREM Newest ==
  ASSUME NEW primary \in {1, 2},
         NEW hok \in [{1, 2} -> BOOLEAN], NEW serv \in [{1, 2} -> BOOLEAN], NEW txn \in [{1, 2} -> Nat],
         Env(primary, FALSE, hok, serv)
  PROVE  ~Refused(primary, FALSE, hok, serv, txn) =>
            \A s \in {1, 2} : (hok[s] /\ serv[s]) => txn[s] <= txn[Chosen(primary, FALSE, hok, serv, txn).p]
  <1> DEFINE sel == Select(primary, FALSE, hok, txn, TRUE)
  <1>1. sel.p \in {1, 2} BY SelRange
  <1>2. ~sel.err => \A t \in {1, 2} : hok[t] => txn[t] <= txn[sel.p] BY SelNewest
  <1>3. CASE serv[sel.p]
        BY <1>1, <1>2, <1>3, VerFacts DEF Refused, Chosen
  <1>4. CASE ~serv[sel.p]
        \* the fallback is the other slot: the only other candidate
        <2>1. Verify(sel.p, FALSE, serv).p = Other(sel.p) BY <1>1, <1>4, VerFacts
        <2>2. \A s \in {1, 2} : serv[s] => s = Other(sel.p) BY <1>1, <1>4 DEF Other
        <2>3. \A s \in {1, 2} : txn[s] <= txn[s] OBVIOUS
        <2> QED BY <2>1, <2>2, <2>3 DEF Refused, Chosen
  <1> QED BY <1>3, <1>4

\* the file is refused only if nothing can be served
THEOREM Available ==
  ASSUME NEW primary \in {1, 2},
         NEW hok \in [{1, 2} -> BOOLEAN], NEW serv \in [{1, 2} -> BOOLEAN], NEW txn \in [{1, 2} -> Nat],
         Env(primary, FALSE, hok, serv)
  PROVE  Refused(primary, FALSE, hok, serv, txn) <=> ~(\E s \in {1, 2} : hok[s] /\ serv[s])
  <1> DEFINE sel == Select(primary, FALSE, hok, txn, TRUE)
  <1>1. sel.p \in {1, 2} BY SelRange
  <1>2. sel.err <=> (~hok[1] /\ ~hok[2]) BY SelNewest
  <1>3. ~sel.err => hok[sel.p] BY SelHok
  <1>4. CASE sel.err
        BY <1>2, <1>4 DEF Refused, Env
  <1>5. CASE ~sel.err /\ serv[sel.p]
        <2>1. ~Verify(sel.p, FALSE, serv).err BY <1>1, <1>5, VerFacts
        <2> QED BY <1>1, <1>3, <1>5, <2>1 DEF Refused, Chosen
  <1>6. CASE ~sel.err /\ ~serv[sel.p]
        <2>1. Verify(sel.p, FALSE, serv).err <=> ~serv[Other(sel.p)] BY <1>1, <1>6, VerFacts
        <2>2. Other(sel.p) \in {1, 2} BY <1>1 DEF Other
        <2>3. \A s \in {1, 2} : serv[s] => s = Other(sel.p) BY <1>1, <1>6 DEF Other
        <2>4. serv[Other(sel.p)] => hok[Other(sel.p)] BY <2>2 DEF Env
        <2> QED BY <1>6, <2>1, <2>2, <2>3, <2>4 DEF Refused, Chosen
  <1> QED BY <1>4, <1>5, <1>6

\* Decide (the operator Commit.tla, Recover.tla and RecoverTrace.tla use) is this composition
THEOREM DecideIsComposition ==
  ASSUME NEW primary \in {1, 2}, NEW tpc \in BOOLEAN,
         NEW hok \in [{1, 2} -> BOOLEAN], NEW serv \in [{1, 2} -> BOOLEAN], NEW txn \in [{1, 2} -> Nat]
  PROVE  LET h == [primary |-> primary, tpc |-> tpc, rec |-> TRUE, slots |-> [s \in {1, 2} |-> [txn |-> txn[s]]]]
             d == Decide(h, hok, serv, [s \in {1, 2} |-> FALSE], FALSE)
         IN /\ d.err <=> Refused(primary, tpc, hok, serv, txn)
            /\ ~d.err => d.chosen = Chosen(primary, tpc, hok, serv, txn).p
  <1> DEFINE h == [primary |-> primary, tpc |-> tpc, rec |-> TRUE, slots |-> [s \in {1, 2} |-> [txn |-> txn[s]]]]
  <1>1. [s \in {1, 2} |-> h.slots[s].txn] = txn OBVIOUS
  <1>2. Select(primary, tpc, hok, txn, TRUE).p \in {1, 2} BY SelRange
  <1> QED BY <1>1, <1>2 DEF Decide, Refused, Chosen
=============================================================================
