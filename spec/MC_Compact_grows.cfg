SPECIFICATION Spec
CONSTANTS N = 4
          MaxPos = 6
          Bound = 12
INVARIANTS NeverLonger
CHECK_DEADLOCK FALSE
