SPECIFICATION Spec
CONSTANTS Pages = {1, 2, 3}
          MaxCache = 2
          MaxVal = 5
          Faults = 2
          LoseOnFailedWriteback = FALSE
INVARIANTS TypeOK Transparent ReadsTruth CleanReadsFind NoStaleShadow Budget
CHECK_DEADLOCK FALSE
