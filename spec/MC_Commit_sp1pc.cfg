SPECIFICATION Spec
CONSTANTS MaxVer = 3
          MaxParts = 1
          MaxCrash = 1
          MaxGrow = 1
          TornHeader = FALSE
          SyncBeforeFlip = TRUE
          PickNewer = TRUE
          SavepointTwoPhase = FALSE
          RepairSync = TRUE
          SavepointPreFlush = FALSE
INVARIANTS TypeOK RecoveryOk PrimaryServable AckedDurable
CHECK_DEADLOCK FALSE
