SPECIFICATION Spec
CONSTANTS AtomicDefer = TRUE
          MaxTxn = 3
INVARIANTS AtMostOnce ClosedWhenDone
CHECK_DEADLOCK FALSE
