------------------------------- MODULE Shared -------------------------------
(***************************************************************************)
(* C16 - one write transaction used from several threads.                  *)
(*                                                                         *)
(* Every worker thread owns one table of the transaction: it opens it      *)
(* (TableNamespace::open_table under the tables lock; the first open calls *)
(* set_dirty, which turns allocation tracking off when no savepoint        *)
(* exists), then performs operations.  An operation allocates pages from   *)
(* the shared allocator (state lock of the page manager), records them in  *)
(* the shared allocation tracker if tracking is on, and moves the pages it *)
(* freed from its private list into the shared freed list                  *)
(* (merge_freed_pages, one short critical section).  Another thread calls  *)
(* ephemeral_savepoint() (dirty check + registration under the tables      *)
(* lock) and drops savepoints (tracker lock only).                         *)
(*                                                                         *)
(* Each labelled step below is one critical section of the code.           *)
(*   LockedSavepoint = FALSE   the dirty check and the registration of     *)
(*                             ephemeral_savepoint are two sections        *)
(*   LockedAlloc = FALSE       allocation reads and updates the free set   *)
(*                             in two sections                             *)
(* are the seeded-bad variants that the invariants must reject.            *)
(***************************************************************************)
EXTENDS Naturals, FiniteSets, Sequences, SequencesExt, TLC

CONSTANTS Workers,          \* worker threads = tables
          Pages,            \* page numbers
          MaxOps,           \* operations per worker
          MaxSp,            \* savepoint attempts of the savepoint thread
          LockedSavepoint, LockedAlloc

VARIABLES
  dirty,        \* WriteTransaction.dirty
  tracking,     \* allocated_pages tracker enabled
  spLive,       \* savepoints registered in the transaction tracker
  spMade,       \* savepoints this transaction handed out successfully
  spLate,       \* a savepoint was registered although a table had been opened already
  opened,       \* tables opened (set_dirty ran for them)
  free,         \* allocator free set
  owns,         \* worker -> pages its table references
  tracked,      \* pages recorded in the shared allocation tracker
  privFreed,    \* worker -> pages freed by the running operation, not yet merged
  freed,        \* shared freed list (as a bag: sequence)
  pc,           \* worker -> control state
  pick,         \* worker -> page chosen by the unlocked allocation variant
  ops,          \* worker -> operations done
  spc,          \* savepoint thread control state
  spTries

svars == <<dirty, tracking, spLive, spMade, spLate, opened, free, owns, tracked, privFreed, freed, pc, pick, ops, spc, spTries>>

None == 0
ASSUME None \notin Pages

Init ==
  /\ dirty = FALSE /\ tracking = TRUE /\ spLive = {} /\ spMade = {} /\ spLate = FALSE /\ opened = {}
  /\ free = Pages /\ owns = [w \in Workers |-> {}] /\ tracked = {}
  /\ privFreed = [w \in Workers |-> {}] /\ freed = <<>>
  /\ pc = [w \in Workers |-> "start"] /\ pick = [w \in Workers |-> None] /\ ops = [w \in Workers |-> 0]
  /\ spc = "idle" /\ spTries = 0

\* open_table: tables lock; set_dirty
Open(w) ==
  /\ pc[w] = "start"
  /\ dirty' = TRUE
  /\ tracking' = IF spLive = {} THEN FALSE ELSE tracking
  /\ opened' = opened \cup {w}
  /\ pc' = [pc EXCEPT ![w] = "ready"]
  /\ UNCHANGED <<spLive, spMade, spLate, free, owns, tracked, privFreed, freed, pick, ops, spc, spTries>>

\* an operation that allocates one page (copy-on-write of a leaf) and frees the page it replaces, if any
AllocLocked(w) ==
  /\ LockedAlloc /\ pc[w] = "ready" /\ ops[w] < MaxOps /\ free # {}
  /\ \E p \in free :
       /\ free' = free \ {p}
       /\ tracked' = IF tracking THEN tracked \cup {p} ELSE tracked
       /\ \E old \in owns[w] \cup {None} :
            /\ owns' = [owns EXCEPT ![w] = (@ \ {old}) \cup {p}]
            /\ privFreed' = [privFreed EXCEPT ![w] = IF old = None THEN @ ELSE @ \cup {old}]
  /\ pc' = [pc EXCEPT ![w] = "merge"]
  /\ UNCHANGED <<dirty, tracking, spLive, spMade, spLate, opened, freed, pick, ops, spc, spTries>>

\* the seeded-bad variant: choose a free page in one section, take it in another
AllocPick(w) ==
  /\ ~LockedAlloc /\ pc[w] = "ready" /\ ops[w] < MaxOps /\ free # {}
  /\ \E p \in free : pick' = [pick EXCEPT ![w] = p]
  /\ pc' = [pc EXCEPT ![w] = "take"]
  /\ UNCHANGED <<dirty, tracking, spLive, spMade, spLate, opened, free, owns, tracked, privFreed, freed, ops, spc, spTries>>

AllocTake(w) ==
  /\ pc[w] = "take"
  /\ free' = free \ {pick[w]}
  /\ tracked' = IF tracking THEN tracked \cup {pick[w]} ELSE tracked
  /\ owns' = [owns EXCEPT ![w] = @ \cup {pick[w]}]
  /\ pick' = [pick EXCEPT ![w] = None]
  /\ pc' = [pc EXCEPT ![w] = "merge"]
  /\ UNCHANGED <<dirty, tracking, spLive, spMade, spLate, opened, privFreed, freed, ops, spc, spTries>>

\* merge_freed_pages: the private list is appended to the shared one and emptied
Merge(w) ==
  /\ pc[w] = "merge"
  /\ freed' = freed \o SetToSeq(privFreed[w])
  /\ privFreed' = [privFreed EXCEPT ![w] = {}]
  /\ ops' = [ops EXCEPT ![w] = @ + 1]
  /\ pc' = [pc EXCEPT ![w] = "ready"]
  /\ UNCHANGED <<dirty, tracking, spLive, spMade, spLate, opened, free, owns, tracked, pick, spc, spTries>>

\* ephemeral_savepoint(): dirty check and registration under the tables lock
SavepointLocked ==
  /\ LockedSavepoint /\ spc = "idle" /\ spTries < MaxSp
  /\ spTries' = spTries + 1
  /\ IF dirty THEN UNCHANGED <<spLive, spMade, spLate>>
     ELSE /\ spLive' = spLive \cup {spTries + 1}
          /\ spMade' = spMade \cup {spTries + 1}
          /\ spLate' = (spLate \/ opened # {})
  /\ UNCHANGED <<dirty, tracking, opened, free, owns, tracked, privFreed, freed, pc, pick, ops, spc>>

SavepointCheck ==
  /\ ~LockedSavepoint /\ spc = "idle" /\ spTries < MaxSp
  /\ spTries' = spTries + 1
  /\ spc' = IF dirty THEN "idle" ELSE "register"
  /\ UNCHANGED <<dirty, tracking, spLive, spMade, spLate, opened, free, owns, tracked, privFreed, freed, pc, pick, ops>>

SavepointRegister ==
  /\ spc = "register"
  /\ spLive' = spLive \cup {spTries} /\ spMade' = spMade \cup {spTries}
  /\ spLate' = (spLate \/ opened # {})
  /\ spc' = "idle"
  /\ UNCHANGED <<dirty, tracking, opened, free, owns, tracked, privFreed, freed, pc, pick, ops, spTries>>

\* Savepoint::drop on another thread: deregisters under the tracker lock
DropSavepoint ==
  /\ \E s \in spLive : spLive' = spLive \ {s}
  /\ UNCHANGED <<dirty, tracking, spMade, spLate, opened, free, owns, tracked, privFreed, freed, pc, pick, ops, spc, spTries>>

Next ==
  \/ \E w \in Workers : Open(w) \/ AllocLocked(w) \/ AllocPick(w) \/ AllocTake(w) \/ Merge(w)
  \/ SavepointLocked \/ SavepointCheck \/ SavepointRegister \/ DropSavepoint

Spec == Init /\ [][Next]_svars

-----------------------------------------------------------------------------
SeqSet(s) == {s[i] : i \in 1..Len(s)}

\* no page ends up shared between tables
NoSharedPage == \A a, b \in Workers : a # b => owns[a] \cap owns[b] = {}

\* a savepoint that is live can be restored: every page allocated since must be in the tracker
TrackingOk == (spLive \cap spMade # {}) => (tracking /\ \A w \in Workers : owns[w] \subseteq tracked)

\* every page is free, owned by exactly one table, or freed - never two of them, never lost
Accounting ==
  /\ \A p \in Pages :
       Cardinality({w \in Workers : p \in owns[w]})
         + Cardinality({i \in 1..Len(freed) : freed[i] = p})
         + Cardinality({w \in Workers : p \in privFreed[w]})
         + (IF p \in free THEN 1 ELSE 0) = 1

\* a savepoint is handed out only while no table has been opened: savepoint eligibility
Eligibility == ~spLate

TypeOK ==
  /\ dirty \in BOOLEAN /\ tracking \in BOOLEAN /\ spLive \subseteq 1..MaxSp /\ free \subseteq Pages
  /\ \A w \in Workers : owns[w] \subseteq Pages /\ pc[w] \in {"start", "ready", "take", "merge"}

=============================================================================
