----------------------------- MODULE CacheTrace -----------------------------
(***************************************************************************)
(* Trace validation of the page cache: every call made on the real         *)
(* PagedCachedFile (through the cfg(redb_verif) wrapper CacheHandle, by    *)
(* harness/src/bin/cache.rs) with its result, followed by the projection   *)
(* of the real state - which pages the write buffer and the read cache     *)
(* hold, the committed-pages flag, and what the backend holds - must be a  *)
(* step of Cache.tla.  The projection fixes the pages a call wrote back or *)
(* evicted, so every line has one successor.                               *)
(***************************************************************************)
EXTENDS Cache, Json, IOUtils, Sequences

KRec == ndJsonDeserialize(IOEnv.TRACE)
VARIABLE l
kvars == <<cavars, l>>
Line == KRec[l]
Ev(e) == l <= Len(KRec) /\ Line.e = e /\ l' = l + 1
SetOf(s) == {s[i] : i \in 1..Len(s)}

\* the real state after the call is the state of the specification
Projected ==
  /\ Dom(wbuf') = SetOf(Line.wb) /\ Dom(rcache') = SetOf(Line.rc)
  /\ flag' = Line.flag
  /\ \A o \in Pages : file'[o] = Line.file[o]
  /\ latched' = Line.latched

TReset ==
  /\ Ev("creset")
  /\ truth' = [o \in Pages |-> 0] /\ file' = [o \in Pages |-> 0]
  /\ wbuf' = Empty /\ rcache' = Empty /\ dirty' = {} /\ flag' = FALSE /\ latched' = FALSE
  /\ nextVal' = 1 /\ faults' = 0

TWrite ==
  /\ Ev("cwrite")
  /\ LET o == Line.o IN
     IF Line.r = "ok"
     THEN /\ Line.v = nextVal
          /\ Write(o, (Dom(wbuf) \ {o}) \ SetOf(Line.wb), (Dom(rcache) \ {o}) \ SetOf(Line.rc), FALSE)
     ELSE \/ RefusedWrite(o, Dom(rcache) \ SetOf(Line.rc))
          \/ \E E \in SUBSET Dom(wbuf) : Write(o, E, {}, TRUE)
          \/ (~Line.ow /\ WriteLoadFail(o, Dom(wbuf) \ SetOf(Line.wb), Dom(rcache) \ SetOf(Line.rc)))
  /\ Projected

TRead ==
  /\ Ev("cread")
  /\ LET o == Line.o IN
     IF Line.r = "ok"
     THEN \E lost \in SUBSET (Dom(wbuf) \cap SetOf(Line.wb)), R \in {Dom(rcache) \ SetOf(Line.rc), (Dom(rcache) \cup {o}) \ SetOf(Line.rc)} :
            /\ (lost # {}) = (Line.failed > 0)
            /\ Read(o, Line.clean, Dom(wbuf) \ SetOf(Line.wb), lost, R, Line.v)
     ELSE Refused \/ ReadFail(o, Line.clean)
  /\ Projected

TFlush ==
  /\ Ev("cflush")
  /\ IF Line.r = "ok" THEN Flush(FALSE) ELSE (RefusedFlush \/ Flush(TRUE) \/ FlushSyncFail)
  /\ Projected

TBarrier == Ev("cbarrier") /\ Barrier /\ Projected
TInval == Ev("cinval") /\ Invalidate(SetOf(Line.pages)) /\ Projected
TCancel == Ev("ccancel") /\ (IF Line.o \in Dom(wbuf) THEN Cancel(Line.o) ELSE UNCHANGED cavars) /\ Projected
TDiscard == Ev("cdiscard") /\ Discard /\ Projected

TraceInit == Init /\ l = 1
TraceNext == TReset \/ TWrite \/ TRead \/ TFlush \/ TBarrier \/ TInval \/ TCancel \/ TDiscard
TraceSpec == TraceInit /\ [][TraceNext]_kvars

TraceAccepted ==
  LET d == TLCGet("stats").diameter IN
  IF d - 1 = Len(KRec) THEN TRUE
  ELSE Print(<<"REJECT", d, ToJson([e |-> KRec[d].e, run |-> KRec[d].run, i |-> KRec[d].i])>>, FALSE)

TraceInv == Transparent /\ ReadsTruth /\ NoStaleShadow
=============================================================================
