SPECIFICATION Spec
CONSTANTS MaxVer = 3
          MaxParts = 1
          MaxCrash = 1
          MaxGrow = 1
          TornHeader = FALSE
          SyncBeforeFlip = FALSE
          PickNewer = TRUE
          SavepointTwoPhase = FALSE
          RepairSync = TRUE
          SavepointPreFlush = TRUE
INVARIANTS TypeOK RecoveryOk PrimaryServable AckedDurable
CHECK_DEADLOCK FALSE
