----------------------------- MODULE RecoverOps -----------------------------
(***************************************************************************)
(* The decisions redb takes when it opens a file, as pure operators (no    *)
(* variables), one per function of the code:                               *)
(*                                                                         *)
(*   LayoutFromLen     UnrepairedDatabaseHeader::layout_from_file_len and  *)
(*                     DatabaseLayout::recalculate (header.rs, layout.rs)  *)
(*   LayoutDecision    the two branches of UnrepairedDatabaseHeader::      *)
(*                     finalize that reconcile the stored region counts    *)
(*                     with the length of the file                         *)
(*   Select            UnrepairedDatabaseHeader::select_primary_slot       *)
(*   Verify            Database::do_repair (primary_verifies, the fallback *)
(*                     to the other slot)                                  *)
(*                                                                         *)
(* Commit.tla uses Select and Verify in its Crash action (the design-level *)
(* argument for C01); RecoverTrace.tla uses all of them to decide, image   *)
(* by image, whether what the real code did with a crash image is what     *)
(* these operators say (the conformance binding).                          *)
(*                                                                         *)
(* Slots are numbered 1 and 2 (the code: 0 and 1).                         *)
(***************************************************************************)
EXTENDS Naturals

Other(i) == 3 - i

\* select_primary_slot.  hok[i]: the checksum over slot i of the header verifies; txn[i]: its transaction id.
\* pickNewer = FALSE is the seeded-bad variant of Commit.tla ("recovery ignores a newer valid secondary").
Select(primary, tpc, hok, txn, pickNewer) ==
  IF tpc
  THEN \* written by a two-phase commit: guaranteed valid, the secondary is not looked at
       [err |-> ~hok[primary], p |-> primary]
  ELSE IF ~hok[primary]
       THEN [err |-> ~hok[Other(primary)], p |-> Other(primary)]
       ELSE IF pickNewer /\ txn[Other(primary)] > txn[primary] /\ hok[Other(primary)]
            THEN [err |-> FALSE, p |-> Other(primary)]
            ELSE [err |-> FALSE, p |-> primary]

\* do_repair.  serv[i]: every checksum from slot i's two roots down verifies.
Verify(p1, tpc, serv) ==
  IF serv[p1] THEN [err |-> FALSE, p |-> p1]
  ELSE IF tpc THEN [err |-> TRUE, p |-> p1]             \* "Primary is corrupted despite 2-phase commit"
  ELSE [err |-> ~serv[Other(p1)], p |-> Other(p1)]      \* repair_primary_corrupted(); "All roots are corrupted"

\* The whole of it as one function of a header h over the image's slots (Recover.tla takes it apart into the steps that write the header; RecoverTrace.tla applies it to real images):
\* [err, chosen (a slot of h), quick]
Decide(h, hok, serv, astate, layoutErr) ==
  LET txn == [s \in {1, 2} |-> h.slots[s].txn]
      sel == Select(h.primary, h.tpc, hok, txn, TRUE)
  IN IF layoutErr \/ sel.err THEN [err |-> TRUE, chosen |-> 0, quick |-> FALSE]
     ELSE IF h.tpc /\ astate[sel.p] THEN [err |-> FALSE, chosen |-> sel.p, quick |-> TRUE]
     ELSE LET v == Verify(sel.p, h.tpc, serv) IN [err |-> v.err, chosen |-> IF v.err THEN 0 ELSE v.p, quick |-> FALSE]

-----------------------------------------------------------------------------
\* Geometry.  All lengths are in PAGES plus a remainder in bytes (q pages and r bytes, r < page size): TLC's integers
\* have 32 bits and a full region is 4 GiB.  H header pages per region, M data pages in a full region.
MaxRegions == 1000

\* layout_from_file_len / DatabaseLayout::recalculate: [ok, full, trailing] - the layout a file of q pages + r bytes
\* maps onto, if any.  (The code works in bytes: len > P + MaxRegions * R, len < P * (H + 2), remaining >= (H + 1) * P,
\* (remaining - H * P) / P, recalculated.len() = len; the same comparisons on (q, r).)
LayoutFromLen(q, r, H, M) ==
  LET Rp == H + M
      full == (q - 1) \div Rp
      remq == (q - 1) % Rp
      hasTrailing == remq >= H + 1
      trailing == IF hasTrailing THEN remq - H ELSE 0
  IN IF q > 1 + MaxRegions * Rp \/ (q = 1 + MaxRegions * Rp /\ r > 0) \/ q < H + 2
     THEN [ok |-> FALSE, full |-> 0, trailing |-> 0]
     ELSE [ok |-> r = 0 /\ (hasTrailing \/ remq = 0), full |-> full, trailing |-> trailing]

\* finalize(): [err, full, trailing] - the layout the database is opened with.  (sq, sr): the length the stored
\* region counts (full, trailing) describe.
LayoutDecision(rec, q, r, H, M, full, trailing, sq, sr) ==
  LET calc == LayoutFromLen(q, r, H, M)
      shorter == q < sq \/ (q = sq /\ r < sr)
      same == q = sq /\ r = sr
  IN IF rec
     THEN \* the stored counts may be torn: rebuilt from the length of the file
          [err |-> ~calc.ok, full |-> calc.full, trailing |-> calc.trailing]
     ELSE IF shorter THEN [err |-> TRUE, full |-> full, trailing |-> trailing]      \* "File truncated below stored layout"
     ELSE IF same THEN [err |-> FALSE, full |-> full, trailing |-> trailing]
     ELSE [err |-> ~calc.ok, full |-> calc.full, trailing |-> calc.trailing]
=============================================================================
