----------------------------- MODULE MC_KvPaths -----------------------------
(***************************************************************************)
(* Behaviours of Kv.tla for replay INTO the implementation (catalog,       *)
(* transaction and savepoint rules: C17, C05, C07, C03).                   *)
(*                                                                         *)
(* A step is an API call with its arguments; its result is not computed    *)
(* here a second time: it is whichever member of a small candidate set     *)
(* makes the corresponding action of Kv.tla enabled (the declarative rule  *)
(* is the single source of truth).  TLC runs in simulation mode; when a    *)
(* behaviour has reached PathLen steps it is printed as one JSON line      *)
(* ("PATH", steps with the results the specification demands, and after    *)
(* every commit the committed state).  harness/src/bin/paths.rs executes   *)
(* each on the real code and compares every result.                        *)
(***************************************************************************)
EXTENDS KvDispatch, Json, SequencesExt

CONSTANTS Names, PathLen

VARIABLE path
pvars == <<kvVars, path>>

Kinds == {"t", "m"}
VTs == {"u64", "bytes"}
SpNames == {"s1", "s2"}
Ids == 1..3                   \* persistent savepoint ids as the specification numbers them
Readers == {"r1", "r2"}
V == 3000001                  \* a value that exists in every value corpus of the harness
Errors == {"TableAlreadyOpen", "TableDoesNotExist", "TableExists", "TableTypeMismatch", "TableIsMultimap", "TableIsNotMultimap",
           "InvalidSavepoint", "ImmediateDurabilityRequired", "PersistentSavepointModified", "PersistentSavepointExists",
           "TransactionPoisoned"}

Steps ==
       {[e |-> "bw"], [e |-> "cbegin"], [e |-> "cend"], [e |-> "abort"], [e |-> "splist"], [e |-> "spp"]}
  \cup {[e |-> "dur", d |-> d] : d \in {"none", "imm"}}
  \cup {[e |-> "open", n |-> n, kind |-> k, kt |-> "u64", vt |-> vt] : n \in Names, k \in Kinds, vt \in VTs}
  \cup {[e |-> "close", n |-> n] : n \in Names}
  \cup {[e |-> "rename", a |-> a, b |-> b, kind |-> k] : a \in Names, b \in Names, k \in Kinds}
  \cup {[e |-> "delete", a |-> a, kind |-> k] : a \in Names, k \in Kinds}
  \cup {[e |-> "list", src |-> "w", kind |-> k] : k \in Kinds}
  \cup {[e |-> "ins", n |-> n, k |-> k, v |-> V] : n \in Names, k \in {0, 1}}
  \cup {[e |-> "rem", n |-> n, k |-> k] : n \in Names, k \in {0, 1}}
  \cup {[e |-> "mins", n |-> n, k |-> 0, v |-> v] : n \in Names, v \in {0, 1}}
  \cup {[e |-> "mrem", n |-> n, k |-> 0, v |-> v] : n \in Names, v \in {0, 1}}
  \cup {[e |-> "len", src |-> "w", n |-> n] : n \in Names}
  \cup {[e |-> "spe", s |-> s] : s \in SpNames}
  \cup {[e |-> "spdrop", s |-> s] : s \in SpNames}
  \cup {[e |-> "spreste", s |-> s] : s \in SpNames}
  \cup {[e |-> "spdel", id |-> i] : i \in Ids}
  \cup {[e |-> "sprestp", id |-> i] : i \in Ids}
  \* read transactions: begun at any moment, read while later transactions commit, abort and restore (C02, C03)
  \cup {[e |-> "br", h |-> h] : h \in Readers}
  \cup {[e |-> "dr", h |-> h] : h \in Readers}
  \cup {[e |-> "get", src |-> h, n |-> n, kind |-> "t", kt |-> "u64", vt |-> "bytes", k |-> k] : h \in Readers, n \in Names, k \in {0, 1}}
  \cup {[e |-> "len", src |-> h, n |-> n, kind |-> k, kt |-> "u64", vt |-> "bytes"] : h \in Readers, n \in Names, k \in Kinds}
  \cup {[e |-> "list", src |-> h, kind |-> "t"] : h \in Readers}
  \cup {[e |-> "mget", src |-> h, n |-> n, kind |-> "m", kt |-> "u64", vt |-> "u64", k |-> 0] : h \in Readers, n \in Names}

SeqsOver(S) == UNION {{q \in [1..n -> S] : \A i, j \in 1..n : i < j => q[i] < q[j]} : n \in 0..Cardinality(S)}

\* results a step may have; the enabled one is the specified one
Candidates(s) ==
  CASE s.e \in {"bw", "dur", "open", "rename", "spe", "spreste", "sprestp"} -> {Ok(0)} \cup {Err(x) : x \in Errors}
    [] s.e = "abort" -> {Ok(0)}      \* (Kv!Abort tolerates an error result for the fault runs; without faults it is Ok)
    [] s.e \in {"delete", "spdel"} -> {Ok(TRUE), Ok(FALSE)} \cup {Err(x) : x \in Errors}
    [] s.e \in {"mins", "mrem"} -> {Ok(TRUE), Ok(FALSE)}
    [] s.e \in {"ins", "rem"} -> {Ok(<<>>), Ok(<<V>>)}
    [] s.e = "get" -> {Ok(<<>>), Ok(<<V>>)} \cup {Err(x) : x \in Errors}
    [] s.e = "mget" -> {Ok(<<q, Len(q)>>) : q \in {<<>>, <<0>>, <<1>>, <<0, 1>>}} \cup {Err(x) : x \in Errors}
    [] s.e = "br" -> {Ok(0)}
    [] s.e = "len" -> {Ok(i) : i \in 0..3} \cup (IF s.src = "w" THEN {} ELSE {Err(x) : x \in Errors})
    [] s.e = "spp" -> {Ok(i) : i \in Ids} \cup {Err(x) : x \in Errors}
    [] s.e = "cend" -> IF wtx.poisoned THEN {Err("TransactionPoisoned")} ELSE {Ok(0)}   \* (no storage failures here)
    [] s.e = "splist" -> {Ok(q) : q \in SeqsOver(Ids)}
    [] s.e = "list" -> {Ok(<<>>)} \cup {Ok(<<n>>) : n \in Names} \cup {Ok(<<q[1], q[2]>>) : q \in {x \in Names \X Names : x[1] # x[2]}}
    [] OTHER -> {Ok(0)}

\* what the committed database looks like, for the check after a commit
Rendered(db) ==
  [tables |-> [n \in DOMAIN db.t |-> [kind |-> db.t[n].kind, kt |-> db.t[n].kt, vt |-> db.t[n].vt,
                                      keys |-> SetToSortSeq(DOMAIN db.t[n].c, <)]],
   psp |-> SetToSortSeq(DOMAIN db.psp, <)]

PInit == Init /\ path = <<>>

\* persistent savepoint ids: the smallest the rule allows (the harness maps them onto the real ones)
SmallestId(s, r) ==
  (s.e = "spp" /\ IsOk(r) /\ wtx.on) => \A i \in Ids : i < r.ok => ~(\A id \in DOMAIN wtx.psp \cup DOMAIN Latest.psp : i > id)

\* commit() is CommitBegin followed at once by CommitEnd (two path steps; the harness makes one call)
PNext ==
  /\ Len(path) < PathLen
  /\ \E s \in Steps :
       /\ (inflight # <<>>) = (s.e = "cend")
       /\ (s.e = "len" /\ s.src = "w") => (wtx.on /\ s.n \in wtx.open)      \* len() needs a handle
       /\ ("src" \in DOMAIN s /\ s.src # "w") => s.src \in DOMAIN readers         \* a read needs its read transaction
       /\ s.e = "br" => s.h \notin DOMAIN readers
       /\ IF s.e \in {"close", "spdrop", "cbegin", "dr"}
          THEN Do(s) /\ path' = Append(path, s)
          ELSE \E r \in Candidates(s) :
                 /\ SmallestId(s, r)
                 /\ Do(s @@ [r |-> r])
                 /\ path' = Append(path, IF s.e = "cend" THEN s @@ [r |-> r, after |-> Rendered(hist'[Len(hist')])] ELSE s @@ [r |-> r])

PSpec == PInit /\ [][PNext]_pvars

\* printed once per behaviour, when it is complete
Emit == Len(path) = PathLen => PrintT(<<"PATH", ToJson(path)>>)
=============================================================================
