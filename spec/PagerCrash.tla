----------------------------- MODULE PagerCrash -----------------------------
(***************************************************************************)
(* Pager.tla plus a crash at any point of any critical section (C11 at the *)
(* mechanism level): the process dies, the file is opened again, and the   *)
(* allocator state is rebuilt from what the durable commit reaches - its   *)
(* data and system trees and the pages its pending-free tables name        *)
(* (Database::do_repair / rebuild_allocator_state).  Everything in memory  *)
(* is gone: readers, ephemeral savepoints, the records of non-durable      *)
(* commits, the write transaction.  The invariants of Pager.tla must hold  *)
(* in the recovered state and in everything reachable from it: no page of  *)
(* the durable commit was ever reused before the crash (DurableIntact,     *)
(* Pinned), the allocation records of the durable commit name only pages   *)
(* that are allocated again (AllocRecordsOk), and every allocated page has *)
(* one owner (Owner1).                                                     *)
(***************************************************************************)
EXTENDS Pager

CONSTANTS MaxCrash,
          RebuildFromFreed   \* TRUE: the pending-free tables of the durable commit are walked too (the code); FALSE must be caught
VARIABLE crashes

cvars2 == <<vars, crashes>>

Crash ==
  /\ crashes < MaxCrash
  /\ crashes' = crashes + 1
  /\ LET d == ver[durable] IN
     /\ alloc' = d.data \cup d.sys \cup (IF RebuildFromFreed THEN UnionRng(d.dfreed) \cup UnionRng(d.sfreed) ELSE {})
     /\ ver' = Restrict(ver, {t \in DOMAIN ver : t <= durable})
  /\ latest' = durable
  /\ unp' = {} /\ post' = {} /\ unpFreed' = EmptyF /\ unpAlloc' = EmptyF
  /\ tr' = [tr EXCEPT !.live = EmptyF, !.wlive = FALSE, !.pend = EmptyF, !.unproc = {}, !.validSp = EmptyF]
  /\ rd' = [r \in Readers |-> [st |-> "idle"]]
  /\ sp' = [s \in Sps |-> [st |-> "none"]]
  /\ w' = NoW
  /\ UNCHANGED durable

CNext == (Next /\ UNCHANGED crashes) \/ Crash
CSpec == Init /\ crashes = 0 /\ [][CNext]_cvars2
=============================================================================
