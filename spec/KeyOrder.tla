------------------------------ MODULE KeyOrder ------------------------------
(***************************************************************************)
(* C15 - the separator contract and the separator rules of the variable    *)
(* width built-in key types, transcribed from src/types.rs and checked     *)
(* exhaustively over small domains:                                        *)
(*   for encodings a < b:  a <= Sep(a, b) < b,  Len(Sep) <= Len(a),  and   *)
(*   Sep(a, b) is itself a valid encoding of the type.                     *)
(* Encodings are sequences of naturals ("bytes") ordered lexicographically *)
(* (byte slices, str) or by the type's composite rule (Option, arrays).    *)
(* The same contract is what KeyOrderTrace.tla demands of the real         *)
(* `Key::separator` on the corpus the harness enumerates.                  *)
(***************************************************************************)
EXTENDS Naturals, Sequences, FiniteSets, TLC

CONSTANTS Alphabet,   \* bytes of plain byte strings
          MaxLen      \* maximal length of the strings enumerated

Min2(a, b) == IF a <= b THEN a ELSE b

RECURSIVE LexLess(_, _)
LexLess(a, b) ==
  IF b = <<>> THEN FALSE
  ELSE IF a = <<>> THEN TRUE
  ELSE IF a[1] < b[1] THEN TRUE
  ELSE IF a[1] > b[1] THEN FALSE
  ELSE LexLess(Tail(a), Tail(b))
LexLeq(a, b) == a = b \/ LexLess(a, b)

RECURSIVE Common(_, _)
Common(a, b) == IF a = <<>> \/ b = <<>> \/ a[1] # b[1] THEN 0 ELSE 1 + Common(Tail(a), Tail(b))

Contract(a, s, b) == LexLeq(a, s) /\ LexLess(s, b) /\ Len(s) <= Len(a)

-----------------------------------------------------------------------------
(* &[u8]: cut `right` just past the first differing byte, if that is shorter than both *)
SepBytes(a, b) ==
  LET n == Common(a, b) + 1 IN
  IF n < Len(a) /\ n < Len(b) THEN SubSeq(b, 1, n) ELSE a

Strs(S, n) == UNION {[1..k -> S] : k \in 0..n}

BytesOk == \A a, b \in Strs(Alphabet, MaxLen) : LexLess(a, b) => Contract(a, SepBytes(a, b), b)

-----------------------------------------------------------------------------
(* &str: as bytes, but the cut is moved up to the next character boundary. *)
(* Bytes 1, 2 are one-byte characters; 10 leads a two-byte character, 11 a *)
(* three-byte one; 20, 21 are continuation bytes.                          *)
IsCont(x) == x \in {20, 21}
Chars == {<<1>>, <<2>>, <<10, 20>>, <<10, 21>>, <<11, 20, 21>>}

RECURSIVE Concat(_)
Concat(ss) == IF ss = <<>> THEN <<>> ELSE ss[1] \o Concat(Tail(ss))
Utf8(n) == {Concat(cs) : cs \in UNION {[1..k -> Chars] : k \in 0..n}}

RECURSIVE ValidUtf8(_)
ValidUtf8(s) ==
  \/ s = <<>>
  \/ \E c \in Chars : Len(c) <= Len(s) /\ SubSeq(s, 1, Len(c)) = c /\ ValidUtf8(SubSeq(s, Len(c) + 1, Len(s)))

RECURSIVE RoundUp(_, _)
RoundUp(s, i) == IF i < Len(s) /\ IsCont(s[i + 1]) THEN RoundUp(s, i + 1) ELSE i   \* i = number of bytes kept

SepStr(a, b) ==
  LET n == RoundUp(b, Common(a, b) + 1) IN
  IF n < Len(a) /\ n < Len(b) THEN SubSeq(b, 1, n) ELSE a

StrOk == \A a, b \in Utf8(3) :
           LexLess(a, b) => (Contract(a, SepStr(a, b), b) /\ ValidUtf8(SepStr(a, b)))

-----------------------------------------------------------------------------
(* Option<T> for a variable width T (here T = byte strings): None = <<0>>, *)
(* Some(x) = <<1>> \o x; None sorts first.                                 *)
OptEnc == {<<0>>} \cup {<<1>> \o x : x \in Strs(Alphabet, MaxLen - 1)}
OptLess(a, b) == IF a[1] = 0 THEN b[1] # 0 ELSE (b[1] # 0 /\ LexLess(Tail(a), Tail(b)))
OptLeq(a, b) == a = b \/ OptLess(a, b)
SepOpt(a, b) ==
  IF a[1] = 0 THEN a
  ELSE LET p == SepBytes(Tail(a), Tail(b)) IN
       IF Len(p) + 1 >= Len(a) THEN a ELSE <<1>> \o p

OptOk == \A a, b \in OptEnc :
           OptLess(a, b) => (OptLeq(a, SepOpt(a, b)) /\ OptLess(SepOpt(a, b), b)
                             /\ Len(SepOpt(a, b)) <= Len(a) /\ SepOpt(a, b) \in OptEnc \cup {<<1>> \o x : x \in Strs(Alphabet, MaxLen)})

-----------------------------------------------------------------------------
(* [T; 2] for a variable width T: elements compared in order.  The separator *)
(* shortens the first differing element and, once that element sorts        *)
(* strictly above left's, replaces what follows by the smallest encoding.   *)
(* (The 4-byte end offsets of the real encoding are a fixed overhead on     *)
(* both sides of every length comparison and are left out.)                 *)
Pairs == Strs(Alphabet, 2) \X Strs(Alphabet, 2)
PairLess(a, b) == LexLess(a[1], b[1]) \/ (a[1] = b[1] /\ LexLess(a[2], b[2]))
PairLeq(a, b) == a = b \/ PairLess(a, b)
PairLen(a) == Len(a[1]) + Len(a[2])
SepPair(a, b) ==
  IF a[1] # b[1]
  THEN LET s == SepBytes(a[1], b[1])
           cand == <<s, IF LexLess(a[1], s) THEN <<>> ELSE a[2]>>
       IN IF PairLen(cand) >= PairLen(a) THEN a ELSE cand
  ELSE LET s == SepBytes(a[2], b[2])
           cand == <<a[1], s>>
       IN IF PairLen(cand) >= PairLen(a) THEN a ELSE cand

PairOk == \A a, b \in Pairs :
            PairLess(a, b) => (PairLeq(a, SepPair(a, b)) /\ PairLess(SepPair(a, b), b) /\ PairLen(SepPair(a, b)) <= PairLen(a))

-----------------------------------------------------------------------------
(* the lexicographic order itself is a strict total order on the domain *)
OrderOk ==
  LET D == Strs(Alphabet, MaxLen) IN
  /\ \A a, b \in D : (a = b) \/ LexLess(a, b) \/ LexLess(b, a)
  /\ \A a, b \in D : ~(LexLess(a, b) /\ LexLess(b, a))
  /\ \A a, b, c \in D : (LexLess(a, b) /\ LexLess(b, c)) => LexLess(a, c)

\* a one-variable behaviour that evaluates one obligation per state
VARIABLE step
Obligations == <<BytesOk, StrOk, OptOk, PairOk, OrderOk>>
Init == step = 1
Next == step < 5 /\ step' = step + 1
Spec == Init /\ [][Next]_step
Holds == Obligations[step]

=============================================================================
