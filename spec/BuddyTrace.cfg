SPECIFICATION TraceSpec
CONSTANT Cap <- TraceCap
POSTCONDITION TraceAccepted
CHECK_DEADLOCK FALSE
