------------------------------- MODULE TLAPS --------------------------------

(* Backend pragmas. *)


(***************************************************************************)
(* Each of these pragmas can be cited with a BY or a USE.  The pragma that *)
(* is added to the context of an obligation most recently is the one whose *)
(* effects are triggered.                                                  *)
(***************************************************************************)

(***************************************************************************)
(* The following pragmas should be used only as a last resource.  They are *)
(* dependent upon the particular backend provers, and are unlikely to have *)
(* any effect if the set of backend provers changes.  Moreover, they are   *)
(* meaningless to a reader of the proof.                                   *)
(***************************************************************************)


(**************************************************************************)
(* Backend pragma: use the SMT solver for arithmetic.                     *)
(*                                                                        *)
(* This method exists under this name for historical reasons.             *)
(**************************************************************************)

SimpleArithmetic == TRUE (*{ by (prover:"smt3") }*)


(**************************************************************************)
(* Backend pragma: SMT solver                                             *)
(*                                                                        *)
(* This method translates the proof obligation to SMTLIB2. The supported  *)
(* fragment includes first-order logic, set theory, functions and         *)
(* records.                                                               *)
(* SMT calls the smt-solver with the default timeout of 5 seconds         *)
(* while SMTT(n) calls the smt-solver with a timeout of n seconds.        *)
(*                                                                        *)
(* SMTT also accepts a string argument of the form "rN" to bound the      *)
(* underlying Z3 solver by a deterministic `rlimit` budget instead of a    *)
(* wall-clock timeout, e.g. SMTT("r5"). N is a multiple of a fixed base    *)
(* resource count, so a small readable budget like "r5" is meaningful.     *)
(* Unlike a wall-clock timeout, an `rlimit` budget does not depend on CPU  *)
(* speed or load, so the proof's pass/fail outcome reproduces on any       *)
(* machine and every rerun (for a fixed Z3 build); how long it takes to    *)
(* consume the budget still varies by machine. This is Z3-specific.        *)
(**************************************************************************)

SMT == TRUE (*{ by (prover:"smt3") }*)
SMTT(X) == TRUE (*{ by (prover:"smt3"; timeout:@) }*)


(**************************************************************************)
(* Backend pragma: CVC4 SMT solver                                        *)
(*                                                                        *)
(* These methods translate the proof obligation to SMTLIB2 and call CVC4. *)
(**************************************************************************)

(* The CVC3* methods are here for backward compatibility. They call CVC4. *)
CVC3 == TRUE (*{ by (prover: "cvc33") }*)
CVC3T(X) == TRUE (*{ by (prover:"cvc33"; timeout:@) }*)

CVC4 == TRUE (*{ by (prover: "cvc33") }*)
CVC4T(X) == TRUE (*{ by (prover:"cvc33"; timeout:@) }*)


(**************************************************************************)
(* Backend pragma: Yices SMT solver                                       *)
(*                                                                        *)
(* This method translates the proof obligation to Yices native language.  *)
(**************************************************************************)

Yices == TRUE (*{ by (prover: "yices3") }*)
YicesT(X) == TRUE (*{ by (prover:"yices3"; timeout:@) }*)

(**************************************************************************)
(* Backend pragma: veriT SMT solver                                       *)
(*                                                                        *)
(* This method translates the proof obligation to SMTLIB2 and calls veriT.*)
(**************************************************************************)

veriT == TRUE (*{ by (prover: "verit") }*)
veriTT(X) == TRUE (*{ by (prover:"verit"; timeout:@) }*)

(**************************************************************************)
(* Backend pragma: Zipperposition solver                                  *)
(*                                                                        *)
(* This method translates the proof obligation to TPTP and                *)
(* calls Zipperposition.                                                  *)
(**************************************************************************)

Zipper == TRUE (*{ by (prover: "zipper") }*)
ZipperT(X) == TRUE (*{ by (prover:"zipper"; timeout:@) }*)

(**************************************************************************)
(* Backend pragma: Z3 SMT solver                                          *)
(*                                                                        *)
(* This method translates the proof obligation to SMTLIB2 and calls Z3.   *)
(* Z3 is used by default but you can also explicitly call it.             *)
(* Z3T(n) bounds Z3 by a wall-clock timeout of n seconds, while Z3T("rN")  *)
(* bounds it by a deterministic `rlimit` budget of N base units, which      *)
(* reproduces the same outcome on any machine (see SMTT).                   *)
(**************************************************************************)

Z3 == TRUE (*{ by (prover: "z33") }*)
Z3T(X) == TRUE (*{ by (prover:"z33"; timeout:@) }*)

(**************************************************************************)
(* Backend pragma: SPASS superposition prover                             *)
(*                                                                        *)
(* This method translates the proof obligation to the DFG format language *)
(* supported by the ATP SPASS. The translation is based on the SMT one.   *)
(**************************************************************************)

Spass == TRUE (*{ by (prover: "spass") }*)
SpassT(X) == TRUE (*{ by (prover:"spass"; timeout:@) }*)

(**************************************************************************)
(* Backend pragma: The PTL propositional linear time temporal logic       *)
(* prover.  It currently is the LS4 backend.                              *)
(*                                                                        *)
(* This method translates the negetation of the proof obligation to       *)
(* Seperated Normal Form (TRP++ format) and checks for unsatisfiability   *)
(**************************************************************************)

LS4 == TRUE (*{ by (prover: "ls4") }*)
LS4T(X) == TRUE (*{ by (prover: "ls4"; timeout:@) }*)
PTL == TRUE (*{ by (prover: "ls4") }*)

(**************************************************************************)
(* Backend pragma: Zenon with different timeouts (default is 10 seconds)  *)
(*                                                                        *)
(**************************************************************************)

Zenon == TRUE (*{ by (prover:"zenon") }*)
ZenonT(X) == TRUE (*{ by (prover:"zenon"; timeout:@) }*)

(********************************************************************)
(* Backend pragma: Isabelle with different timeouts and tactics     *)
(*  (default is 30 seconds/auto)                                    *)
(********************************************************************)

Isa == TRUE (*{ by (prover:"isabelle") }*)
IsaT(X) ==  TRUE (*{ by (prover:"isabelle"; timeout:@) }*)
IsaM(X) ==  TRUE (*{ by (prover:"isabelle"; tactic:@) }*)
IsaMT(X,Y) ==  TRUE (*{ by (prover:"isabelle"; tactic:@; timeout:@) }*)

(***************************************************************************)
(* The following theorem expresses the (useful implication of the) law of  *)
(* set extensionality, which can be written as                             *)
(*                                                                         *)
(*    THEOREM  \A S, T : (S = T) <=> (\A x : (x \in S) <=> (x \in T))      *)
(*                                                                         *)
(* Theorem SetExtensionality is sometimes required by the SMT backend for  *)
(* reasoning about sets. It is usually counterproductive to include        *)
(* theorem SetExtensionality in a BY clause for the Zenon or Isabelle      *)
(* backends. Instead, use the pragma IsaWithSetExtensionality to instruct  *)
(* the Isabelle backend to use the rule of set extensionality.             *)
(***************************************************************************)
IsaWithSetExtensionality == TRUE
           (*{ by (prover:"isabelle"; tactic:"(auto intro: setEqualI)")}*)

THEOREM SetExtensionality == \A S,T : (\A x : x \in S <=> x \in T) => S = T
OBVIOUS

(***************************************************************************)
(* The following theorem is needed to deduce NotInSetS \notin SetS from    *)
(* the definition                                                          *)
(*                                                                         *)
(*   NotInSetS == CHOOSE v : v \notin SetS                                 *)
(***************************************************************************)
THEOREM NoSetContainsEverything == \A S : \E x : x \notin S
OBVIOUS (*{by (isabelle "(auto intro: inIrrefl)")}*)
-----------------------------------------------------------------------------



(********************************************************************)
(********************************************************************)
(********************************************************************)


(********************************************************************)
(* Old versions of Zenon and Isabelle pragmas below                 *)
(* (kept for compatibility)                                         *)
(********************************************************************)


(**************************************************************************)
(* Backend pragma: Zenon with different timeouts (default is 10 seconds)  *)
(*                                                                        *)
(**************************************************************************)

SlowZenon == TRUE (*{ by (prover:"zenon"; timeout:20) }*)
SlowerZenon == TRUE (*{ by (prover:"zenon"; timeout:40) }*)
VerySlowZenon == TRUE (*{ by (prover:"zenon"; timeout:80) }*)
SlowestZenon == TRUE (*{ by (prover:"zenon"; timeout:160) }*)



(********************************************************************)
(* Backend pragma: Isabelle's automatic search ("auto")             *)
(*                                                                  *)
(* This pragma bypasses Zenon. It is useful in situations involving *)
(* essentially simplification and equational reasoning.             *)
(* Default imeout for all isabelle tactics is 30 seconds.           *)
(********************************************************************)
Auto == TRUE (*{ by (prover:"isabelle"; tactic:"auto") }*)
SlowAuto == TRUE (*{ by (prover:"isabelle"; tactic:"auto"; timeout:120) }*)
SlowerAuto == TRUE (*{ by (prover:"isabelle"; tactic:"auto"; timeout:480) }*)
SlowestAuto == TRUE (*{ by (prover:"isabelle"; tactic:"auto"; timeout:960) }*)

(********************************************************************)
(* Backend pragma: Isabelle's "force" tactic                        *)
(*                                                                  *)
(* This pragma bypasses Zenon. It is useful in situations involving *)
(* quantifier reasoning.                                            *)
(********************************************************************)
Force == TRUE (*{ by (prover:"isabelle"; tactic:"force") }*)
SlowForce == TRUE (*{ by (prover:"isabelle"; tactic:"force"; timeout:120) }*)
SlowerForce == TRUE (*{ by (prover:"isabelle"; tactic:"force"; timeout:480) }*)
SlowestForce == TRUE (*{ by (prover:"isabelle"; tactic:"force"; timeout:960) }*)

(***********************************************************************)
(* Backend pragma: Isabelle's "simplification" tactics                 *)
(*                                                                     *)
(* These tactics simplify the goal before running one of the automated *)
(* tactics. They are often necessary for obligations involving record  *)
(* or tuple projections. Use the SimplfyAndSolve tactic unless you're  *)
(* sure you can get away with just Simplification                      *)
(***********************************************************************)
SimplifyAndSolve        == TRUE
    (*{ by (prover:"isabelle"; tactic:"clarsimp auto?") }*)
SlowSimplifyAndSolve    == TRUE
    (*{ by (prover:"isabelle"; tactic:"clarsimp auto?"; timeout:120) }*)
SlowerSimplifyAndSolve  == TRUE
    (*{ by (prover:"isabelle"; tactic:"clarsimp auto?"; timeout:480) }*)
SlowestSimplifyAndSolve == TRUE
    (*{ by (prover:"isabelle"; tactic:"clarsimp auto?"; timeout:960) }*)

Simplification == TRUE (*{ by (prover:"isabelle"; tactic:"clarsimp") }*)
SlowSimplification == TRUE
    (*{ by (prover:"isabelle"; tactic:"clarsimp"; timeout:120) }*)
SlowerSimplification  == TRUE
    (*{ by (prover:"isabelle"; tactic:"clarsimp"; timeout:480) }*)
SlowestSimplification == TRUE
    (*{ by (prover:"isabelle"; tactic:"clarsimp"; timeout:960) }*)

(**************************************************************************)
(* Backend pragma: Isabelle's tableau prover ("blast")                    *)
(*                                                                        *)
(* This pragma bypasses Zenon and uses Isabelle's built-in theorem        *)
(* prover, Blast. It is almost never better than Zenon by itself, but     *)
(* becomes very useful in combination with the Auto pragma above. The     *)
(* AutoBlast pragma first attempts Auto and then uses Blast to prove what *)
(* Auto could not prove. (There is currently no way to use Zenon on the   *)
(* results left over from Auto.)                                          *)
(**************************************************************************)
Blast == TRUE (*{ by (prover:"isabelle"; tactic:"blast") }*)
SlowBlast == TRUE (*{ by (prover:"isabelle"; tactic:"blast"; timeout:120) }*)
SlowerBlast == TRUE (*{ by (prover:"isabelle"; tactic:"blast"; timeout:480) }*)
SlowestBlast == TRUE (*{ by (prover:"isabelle"; tactic:"blast"; timeout:960) }*)

AutoBlast == TRUE (*{ by (prover:"isabelle"; tactic:"auto, blast") }*)


(**************************************************************************)
(* Backend pragmas: multi-back-ends                                       *)
(*                                                                        *)
(* These pragmas just run a bunch of back-ends one after the other in the *)
(* hope that one will succeed. This saves time and effort for the user at *)
(* the expense of computation time.                                       *)
(**************************************************************************)

(* CVC3 goes first because it's bundled with TLAPS, then the other SMT
   solvers are unlikely to succeed if CVC3 fails, so we run zenon and
   Isabelle before them. *)
AllProvers == TRUE (*{
    by (prover:"cvc33")
    by (prover:"zenon")
    by (prover:"isabelle"; tactic:"auto")
    by (prover:"spass")
    by (prover:"smt3")
    by (prover:"yices3")
    by (prover:"verit")
    by (prover:"z33")
    by (prover:"isabelle"; tactic:"force")
    by (prover:"isabelle"; tactic:"(auto intro: setEqualI)")
    by (prover:"isabelle"; tactic:"clarsimp auto?")
    by (prover:"isabelle"; tactic:"clarsimp")
    by (prover:"isabelle"; tactic:"auto, blast")
  }*)
AllProversT(X) == TRUE (*{
    by (prover:"cvc33"; timeout:@)
    by (prover:"zenon"; timeout:@)
    by (prover:"isabelle"; tactic:"auto"; timeout:@)
    by (prover:"spass"; timeout:@)
    by (prover:"smt3"; timeout:@)
    by (prover:"yices3"; timeout:@)
    by (prover:"verit"; timeout:@)
    by (prover:"z33"; timeout:@)
    by (prover:"isabelle"; tactic:"force"; timeout:@)
    by (prover:"isabelle"; tactic:"(auto intro: setEqualI)"; timeout:@)
    by (prover:"isabelle"; tactic:"clarsimp auto?"; timeout:@)
    by (prover:"isabelle"; tactic:"clarsimp"; timeout:@)
    by (prover:"isabelle"; tactic:"auto, blast"; timeout:@)
  }*)

AllSMT == TRUE (*{
    by (prover:"cvc33")
    by (prover:"smt3")
    by (prover:"yices3")
    by (prover:"verit")
    by (prover:"z33")
  }*)
AllSMTT(X) == TRUE (*{
    by (prover:"cvc33"; timeout:@)
    by (prover:"smt3"; timeout:@)
    by (prover:"yices3"; timeout:@)
    by (prover:"verit"; timeout:@)
    by (prover:"z33"; timeout:@)
  }*)

AllIsa == TRUE (*{
    by (prover:"isabelle"; tactic:"auto")
    by (prover:"isabelle"; tactic:"force")
    by (prover:"isabelle"; tactic:"(auto intro: setEqualI)")
    by (prover:"isabelle"; tactic:"clarsimp auto?")
    by (prover:"isabelle"; tactic:"clarsimp")
    by (prover:"isabelle"; tactic:"auto, blast")
  }*)
AllIsaT(X) == TRUE (*{
    by (prover:"isabelle"; tactic:"auto"; timeout:@)
    by (prover:"isabelle"; tactic:"force"; timeout:@)
    by (prover:"isabelle"; tactic:"(auto intro: setEqualI)"; timeout:@)
    by (prover:"isabelle"; tactic:"clarsimp auto?"; timeout:@)
    by (prover:"isabelle"; tactic:"clarsimp"; timeout:@)
    by (prover:"isabelle"; tactic:"auto, blast"; timeout:@)
  }*)


(**************************************************************************)
(* The pragma ExpandEnabled invokes expansion of the operator ENABLED.    *)
(*                                                                        *)
(* The pragma ExpandCdot invokes expansion of the operator \cdot.         *)
(*                                                                        *)
(* The pragma AutoUSE invokes automated expansion of definitions,         *)
(* for both of ExpandEnabled and ExpandCdot, when each is present.        *)
(*                                                                        *)
(* The pragma Lambdify invokes expansion of the operators                 *)
(* ENABLED and \cdot to an intermediate form with bound VARIABLES,        *)
(* which is a form before introducing rigid quantifiers.                  *)
(* The pragma Lambdify is sound for occurrences of ENABLED and \cdot      *)
(* that are not nested.                                                   *)
(**************************************************************************)
ExpandENABLED == TRUE  (*{ by (prover:"expandenabled") }*)
ExpandCdot == TRUE  (*{ by (prover:"expandcdot") }*)
AutoUSE == TRUE  (*{ by (prover:"autouse") }*)
Lambdify == TRUE  (*{ by (prover:"lambdify") }*)
ENABLEDaxioms == TRUE  (*{ by (prover:"enabledaxioms") }*)
LevelComparison == TRUE  (*{ by (prover:"levelcomparison") }*)

(* The operators EnabledWrapper and CdotWrapper occur in an intermediate  *)
(* representation within TLAPM.                                           *)
EnabledWrapper(Op(_)) == FALSE
CdotWrapper(Op(_)) == FALSE

(***************************************************************************)
(* The following may be used in a `BY ONLY ThmName` for unit testing the   *)
(* triviality checks in TLAPM.                                             *)
(***************************************************************************)
Trivial == TRUE  (*{ by (prover:"trivial") }*)


=============================================================================

The material below is obsolete: the TLA proof rules below are superseded by
the PTL decision procedure, and their formulation is unsound for the semantics
of temporal reasoning that TLAPS adopts.

----------------------------------------------------------------------------
(***************************************************************************)
(*                           TEMPORAL LOGIC                                *)
(*                                                                         *)
(* The following rules are intended to be used when TLAPS handles temporal *)
(* logic.  They will not work now.  Moreover when temporal reasoning is    *)
(* implemented, these rules may be changed or omitted, and additional      *)
(* rules will probably be added.  However, they are included mainly so     *)
(* their names will be defined, preventing the use of identifiers that are *)
(* likely to produce name clashes with future versions of this module.     *)
(***************************************************************************)


(***************************************************************************)
(* The following proof rules (and their names) are from the paper "The     *)
(* Temporal Logic of Actions".                                             *)
(***************************************************************************)
THEOREM RuleTLA1 == ASSUME STATE P, STATE f,
                           P /\ (f' = f) => P'
                    PROVE  []P <=> P /\ [][P => P']_f

THEOREM RuleTLA2 == ASSUME STATE P, STATE Q, STATE f, STATE g,
                           ACTION A, ACTION B,
                           P /\ [A]_f => Q /\ [B]_g
                    PROVE  []P /\ [][A]_f => []Q /\ [][B]_g

THEOREM RuleINV1 == ASSUME STATE I, STATE F,  ACTION N,
                           I /\ [N]_F => I'
                    PROVE  I /\ [][N]_F => []I

THEOREM RuleINV2 == ASSUME STATE I, STATE f, ACTION N
                    PROVE  []I => ([][N]_f <=> [][N /\ I /\ I']_f)

THEOREM RuleWF1 == ASSUME STATE P, STATE Q, STATE f, ACTION N, ACTION A,
                          P /\ [N]_f => (P' \/ Q'),
                          P /\ <<N /\ A>>_f => Q',
                          P => ENABLED <<A>>_f
                   PROVE  [][N]_f /\ WF_f(A) => (P ~> Q)

THEOREM RuleSF1 == ASSUME STATE P, STATE Q, STATE f,
                          ACTION N, ACTION A, TEMPORAL F,
                          P /\ [N]_f => (P' \/ Q'),
                          P /\ <<N /\ A>>_f => Q',
                          []P /\ [][N]_f /\ []F => <> ENABLED <<A>>_f
                   PROVE  [][N]_f /\ SF_f(A) /\ []F => (P ~> Q)

(***************************************************************************)
(* The rules WF2 and SF2 in "The Temporal Logic of Actions" are obtained   *)
(* from the following two rules by the following substitutions: `.         *)
(*                                                                         *)
(*          ___        ___         _______________                         *)
(*      M <- M ,   g <- g ,  EM <- ENABLED <<M>>_g       .'                *)
(***************************************************************************)
THEOREM RuleWF2 == ASSUME STATE P, STATE f, STATE g, STATE EM,
                          ACTION A, ACTION B, ACTION N, ACTION M,
                          TEMPORAL F,
                          <<N /\ B>>_f => <<M>>_g,
                          P /\ P' /\ <<N /\ A>>_f /\ EM => B,
                          P /\ EM => ENABLED A,
                          [][N /\ ~B]_f /\ WF_f(A) /\ []F /\ <>[]EM => <>[]P
                   PROVE  [][N]_f /\ WF_f(A) /\ []F => []<><<M>>_g \/ []<>(~EM)

THEOREM RuleSF2 == ASSUME STATE P, STATE f, STATE g, STATE EM,
                          ACTION A, ACTION B, ACTION N, ACTION M,
                          TEMPORAL F,
                          <<N /\ B>>_f => <<M>>_g,
                          P /\ P' /\ <<N /\ A>>_f /\ EM => B,
                          P /\ EM => ENABLED A,
                          [][N /\ ~B]_f /\ SF_f(A) /\ []F /\ []<>EM => <>[]P
                   PROVE  [][N]_f /\ SF_f(A) /\ []F => []<><<M>>_g \/ <>[](~EM)


(***************************************************************************)
(* The following rule is a special case of the general temporal logic      *)
(* proof rule STL4 from the paper "The Temporal Logic of Actions".  The    *)
(* general rule is for arbitrary temporal formulas F and G, but it cannot  *)
(* yet be handled by TLAPS.                                                *)
(***************************************************************************)
THEOREM RuleInvImplication ==
  ASSUME STATE F, STATE G,
         F => G
  PROVE  []F => []G
PROOF OMITTED

(***************************************************************************)
(* The following rule is a special case of rule TLA2 from the paper "The   *)
(* Temporal Logic of Actions".                                             *)
(***************************************************************************)
THEOREM RuleStepSimulation ==
  ASSUME STATE I, STATE f, STATE g,
         ACTION M, ACTION N,
         I /\ I' /\ [M]_f => [N]_g
  PROVE  []I /\ [][M]_f => [][N]_g
PROOF OMITTED

(***************************************************************************)
(* The following may be used to invoke a decision procedure for            *)
(* propositional temporal logic.                                           *)
(***************************************************************************)
PropositionalTemporalLogic == TRUE
=============================================================================
