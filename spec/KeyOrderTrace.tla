--------------------------- MODULE KeyOrderTrace ---------------------------
(***************************************************************************)
(* The real Key::compare / Key::separator / from_bytes of every built-in   *)
(* key type on the harness's corpus, judged against the contract (C15).    *)
(* Orderings are logged as 0 (Less), 1 (Equal), 2 (Greater).               *)
(*   pair: ord  = the order of the two VALUES (Rust's Ord on native values)*)
(*         cmp  = Key::compare(enc a, enc b),  rev = Key::compare(enc b, enc a) *)
(*   sep:  for a < b, s = Key::separator(enc a, enc b): la = |enc a|,      *)
(*         ls = |s|, cas = compare(enc a, s), csb = compare(s, enc b),     *)
(*         valid = s decodes and re-encodes to itself                      *)
(*   rt:   from_bytes(as_bytes(v)) = v                                     *)
(***************************************************************************)
EXTENDS Naturals, Sequences, Json, IOUtils, TLC

KRec == ndJsonDeserialize(IOEnv.TRACE)
VARIABLE l

Flip(o) == 2 - o

RecOk(R) ==
  CASE R.e = "pair" -> R.cmp = R.ord /\ R.rev = Flip(R.ord)
    [] R.e = "sep"  -> R.ls <= R.la /\ R.cas \in {0, 1} /\ R.csb = 0 /\ R.valid
    [] R.e = "rt"   -> R.ok
    [] R.e = "note" -> TRUE

TraceInit == l = 1
Step == l <= Len(KRec) /\ RecOk(KRec[l]) /\ l' = l + 1
TraceSpec == TraceInit /\ [][Step]_l

TraceAccepted ==
  LET d == TLCGet("stats").diameter IN
  IF d - 1 = Len(KRec) THEN TRUE
  ELSE Print(<<"REJECT", d, ToJson(KRec[d])>>, FALSE)
=============================================================================
