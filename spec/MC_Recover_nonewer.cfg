SPECIFICATION Spec
CONSTANT PickNewer = FALSE
INVARIANT Newest
CHECK_DEADLOCK FALSE
