SPECIFICATION TraceSpec
POSTCONDITION TraceAccepted
CHECK_DEADLOCK FALSE
