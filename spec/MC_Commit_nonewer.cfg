SPECIFICATION Spec
CONSTANTS MaxVer = 2
          MaxParts = 1
          MaxCrash = 1
          MaxGrow = 1
          TornHeader = TRUE
          SyncBeforeFlip = TRUE
          PickNewer = FALSE
          SavepointTwoPhase = FALSE
          SavepointPreFlush = TRUE
INVARIANTS TypeOK RecoveryOk PrimaryServable AckedDurable
CHECK_DEADLOCK FALSE
