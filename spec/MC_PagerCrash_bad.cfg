SPECIFICATION CSpec
CONSTANTS
  Pages = {p1, p2, p3, p4}
  Readers = {r1}
  Sps = {s1}
  MaxTxn = 3
  MaxSp = 1
  MaxTouch = 1
  HorizonSlack = 0
  AtomicBeginRead = TRUE
  MaxCrash = 1
  RebuildFromFreed = FALSE
SYMMETRY Symm
INVARIANTS TypeOK Owner1 Pinned ReaderSeesCommitted AllocRecordsOk DurableIntact
CONSTRAINT Constraint
CHECK_DEADLOCK FALSE
